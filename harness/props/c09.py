"""C09 — derived record operations (eq, ord, hash, to-string) behave as specified.

Tie (behavioural): for generated records over eq/ord-eligible field types (fixed-width integers, bool, string, enum,
nested records, optionals of those, lists and binary for eq) the real generators' C++ sources are compiled (g++) with a
driver built from drawn value tuples (two equal objects, every optional absent/present, and per integer field copies of
one base tuple that differ only in that field: both extremes and their neighbours, adjacent pairs at powers of two incl.
2^53 — `int_neighbourhoods`; nested records through pool entries that are neighbours of each other) and run; the Java classes are compiled (javac) with a driver and run on the JVM.
Every `== != < > <= >=`, `equals`, `hashCode`, `compareTo` sign (or exception) and `toString` result is compared with the
Lean model's evaluation (`c09.eval`: the emitted bodies as `Lang/MiniImp` programs) of the same tuples, and the
specification (`c09.spec`: equivalence, "all fields equal", lexicographic strict total order consistent with ==,
equals/hashCode/compareTo consistency, string form mentions every field) is evaluated on the implementation's results.
A second, token-level stream compares which files / operators / methods are emitted at all with `c09.decision` over all
combinations of deriving × field count × string_serialization × `+cpp`/`+java` base records, and over every
`generate.default_deriving` ∈ {[], [eq], [ord], [eq, ord]} × depth of the `@import` chain (0..2) × file level of the
record × explicit deriving (the operations a record must have are `c09.deriving`: explicit ∪ default in every file of the
import graph — `parse_eq_map`).
Layout stream (behavioural): programs whose nested record types and outer records are spread over files reached through
one and two levels of `@import`, under every `default_deriving`, relying on the default or repeating it; the deriving set
the real front end gives each record is compared with `c09.deriving`, the imported records and the records that hold
them are compiled and run like all others.
Regeneration stream (behavioural): the output directory has a history — records are generated, their declaration is edited
(`EDITS`: swap two fields, swap the types of two fields, i16/i32/i64 exchanged, a field renamed to an equally long name, two
fields of one type swapped — all of which keep the length of the generated files — and deriving changed, a field renamed,
dropped, added) and generated again into the same directories, by a second API object or by the same configured context;
the drivers are built from the *edited* declaration, compiled against what is on disk and judged like all others.
Every driver also reads every field back by its declared name (C++ member, Java reflection): the value must be the one
given for the field's position in the declaration — the link between "the order of the declaration" and the object
(`c09.spec` clause; `field_order_matters`).
Run-time class stream (behavioural): a record's Java class can be extended when the record is a base record
(`record +java`: generated non-final `<Name>Base`, the user's `<Name> extends <Name>Base`) or when
`java.use_final_for_record` is off. For such records (`build_class_groups`, both configurations) the value tuples are
spread over instances of the generated class, of a user subclass that adds no state and of anonymous subclasses; the
specification is the same function of the field values (equals ⇔ all fields equal, compareTo == 0 ⇔ equals, equal ⇒
equal hash), so two objects with equal fields and different run-time classes must be equal.
Name stream (behavioural): the field names are the identifiers the *generated* record code itself uses as simple names
(`body_identifiers`: parameters and locals of the emitted bodies — `other`, `obj`, `lhs`, `rhs`, `value`, `hashCode`,
`tempResult` … —, roots of qualified names, called functions; read off the tokens of a probe generation, filtered by the
real front end), each on a field of every kind (optional / primitive / string / enum / record / collection / binary) in
records deriving eq and eq+ord: a field access that resolves to a local of the emitted method shows in the results.
"""
from __future__ import annotations

import itertools
import json
import random
import re
from pathlib import Path

import glue

LEAN_MODULE = "PydjinniModel.Props.C09"
THEOREMS = [
    "Pydjinni.Gen.evalE_conj_map",
    "Pydjinni.Gen.cpp_eq_allEq",
    "Pydjinni.Gen.cpp_lt_lexLt",
    "Pydjinni.Gen.cpp_eq_spec",
    "Pydjinni.Gen.cpp_ne_spec",
    "Pydjinni.Gen.cpp_lt_lex",
    "Pydjinni.Gen.cpp_gt_spec",
    "Pydjinni.Gen.cpp_le_spec",
    "Pydjinni.Gen.cpp_ge_spec",
    "Pydjinni.Gen.cpp_lt_irrefl",
    "Pydjinni.Gen.cpp_lt_trans",
    "Pydjinni.Gen.cpp_lt_trichotomous",
    "Pydjinni.Gen.cpp_eq_equivalence",
    "Pydjinni.Gen.java_equals_allEq",
    "Pydjinni.Gen.java_equals_spec",
    "Pydjinni.Gen.java_hash_value",
    "Pydjinni.Gen.java_equals_hash",
    "Pydjinni.Gen.java_compare_lexCmp",
    "Pydjinni.Gen.java_compare_lex",
    "Pydjinni.Gen.java_compare_antisymm",
    "Pydjinni.Gen.java_compare_consistent_equals",
    "Pydjinni.Gen.java_compare_null_throws",
    "Pydjinni.Gen.tostring_mentions_all",
    "Pydjinni.Gen.cpp_tostring_args",
    "Pydjinni.Gen.cpp_declared_defined",
    "Pydjinni.Gen.java_members_consistent",
    "Pydjinni.Gen.parse_eq_map",
    "Pydjinni.Gen.parseAll_eq_map",
    "Pydjinni.Gen.parse_default_eq",
    "Pydjinni.Gen.parse_default_ord",
    "Pydjinni.Gen.parse_explicit_kept",
    "Pydjinni.Gen.parse_no_default",
    "Pydjinni.Gen.default_eq_emitted",
    "Pydjinni.Gen.default_ord_emitted",
    "Pydjinni.Gen.withDefault_none",
    "Pydjinni.Gen.stale_field_order_counterexample",
    "Pydjinni.Gen.field_order_matters",
]
LEVEL = "proof"
TRUSTED = (
    "C09: Lang/MiniImp.lean as the meaning of the emitted C++/Java bodies; field-level operations of the target languages "
    "(C++ ==/< on integers, strings, enums, std::optional, std::vector; Java ==, equals, compareTo, hashCode of boxed types, String, "
    "ArrayList, Arrays.hashCode) in Drv/C09.lean `DV` — validated on every run against g++ and the JVM",
    "C09: value-literal renderers and output parsers of the C++/Java drivers in harness/props/c09.py",
)

I_RANGE = {"i8": (-128, 127), "i16": (-32768, 32767), "i32": (-2147483648, 2147483647), "i64": (-9223372036854775808, 9223372036854775807)}
BITS = {"i8": 8, "i16": 16, "i32": 32, "i64": 64}
CPP_INT = {"i8": "int8_t", "i16": "int16_t", "i32": "int32_t", "i64": "int64_t"}
JAVA_BOX = {"i8": "Byte", "i16": "Short", "i32": "Integer", "i64": "Long", "bool": "Boolean"}
STRINGS = ["", "a", "ab", "abc", "b", "B", "a b", "zz", "Ab"]
FLOATS = [0.0, -0.0, 1.5, -2.25, 1024.0]      # exactly representable; NaN is outside any order
ENUM_ITEMS = ["red", "green_light", "blue"]

PRELUDE = """col = enum { red; green_light; blue; }
in_a = record { x: i32; s: string; } deriving(eq, ord)
in_b = record { k: i64; o: string?; } deriving(eq)
in_c = record { y: i16; }
in_d = record { t: i64; n: i16; } deriving(eq, ord)
"""
INNER = {  # nested record types: fields, deriving
    "in_a": {"fields": [("x", "i32"), ("s", "string")], "eq": True, "ord": True},
    "in_b": {"fields": [("k", "i64"), ("o", "string?")], "eq": True, "ord": False},
    "in_c": {"fields": [("y", "i16")], "eq": False, "ord": False},
    "in_d": {"fields": [("t", "i64"), ("n", "i16")], "eq": True, "ord": True},
}


# ---------------------------------------------------------------------------------------------
# types and values
# ---------------------------------------------------------------------------------------------

def parse_type(t: str):
    opt = t.endswith("?")
    if opt:
        t = t[:-1]
    m = re.match(r"list<(.+)>$", t)
    if m:
        return {"k": "list", "elem": parse_type(m.group(1)), "opt": opt}
    if t in BITS:
        return {"k": "int", "w": t, "opt": opt}
    if t in ("bool", "string", "binary"):
        return {"k": t, "opt": opt}
    if t in ("f32", "f64"):
        return {"k": "float", "w": t, "opt": opt}
    if t == "col":
        return {"k": "enum", "opt": opt}
    if t in INNER:
        return {"k": "record", "name": t, "opt": opt}
    raise ValueError(t)


def draw(r: random.Random, ty, pools, depth=0):
    """python value of type `ty` (None for an absent optional)"""
    if ty["opt"] and depth == 0 and r.random() < 0.35:
        return None
    k = ty["k"]
    if k == "int":
        lo, hi = I_RANGE[ty["w"]]
        if r.random() < 0.6:
            return r.choice([lo, hi, -1, 0, 1, 2, r.randint(lo, hi), 7])
        return clamp(ty["w"], r.choice([1, -1]) * (1 << r.randrange(BITS[ty["w"]])) + r.choice([-2, -1, 0, 1, 2]))
    if k == "bool":
        return r.random() < 0.5
    if k == "float":
        return r.randrange(len(FLOATS))
    if k == "string":
        return r.choice(STRINGS)
    if k == "enum":
        return r.randrange(len(ENUM_ITEMS))
    if k == "record":
        return r.randrange(len(pools[ty["name"]]))
    if k == "binary":
        return [r.choice([0, 1, 127, 128, 255]) for _ in range(r.choice([0, 1, 2, 3]))]
    if k == "list":
        return [draw(r, {**ty["elem"], "opt": False}, pools, depth + 1) for _ in range(r.choice([0, 1, 2, 2, 3]))]
    raise ValueError(k)


def clamp(w, v):
    lo, hi = I_RANGE[w]
    return max(lo, min(hi, v))


def int_neighbourhoods(r: random.Random, w: str) -> list[int]:
    """Values of one integer field that separate an exact comparison from a lossy one (conversion to a narrower or a
    floating-point type, comparison by subtraction): both extremes with their neighbours (far apart *and* adjacent), and
    two adjacent pairs at powers of two of either sign — one in the upper quarter of the width (beyond every narrower
    representation: 2^53 for a double mantissa, 2^24 for float, 2^31 for int), one anywhere."""
    lo, hi = I_RANGE[w]
    b = BITS[w]
    hi_k = r.randrange(b - b // 4, b - 1)             # i64: 48..62, i32: 24..30, i16: 12..14, i8: 6
    any_k = r.randrange(1, b - 1)
    vals = [lo, lo + 1, hi - 1, hi]
    for k in (hi_k, any_k):
        base = r.choice([1, -1]) * (1 << k)
        vals += [clamp(w, base), clamp(w, base + 1)]
    if b == 64:                                        # every 64-bit field also gets the mantissa boundary of a double itself
        sgn = r.choice([1, -1])
        vals += [sgn * (1 << 53), sgn * (1 << 53) + sgn]
    return list(dict.fromkeys(vals))


def cpp_type(ty, names, inner=False):
    k = ty["k"]
    base = {"int": lambda: CPP_INT[ty["w"]], "bool": lambda: "bool", "float": lambda: "float" if ty["w"] == "f32" else "double",
            "string": lambda: "std::string", "enum": lambda: names["col"]["cpp_typename"],
            "record": lambda: names[ty["name"]]["cpp_typename"], "binary": lambda: "std::vector<uint8_t>",
            "list": lambda: f"std::vector<{cpp_type({**ty['elem'], 'opt': False}, names)}>"}[k]()
    return f"std::optional<{base}>" if ty["opt"] and not inner else base


def cpp_lit(ty, v, names, pools, top=True):
    if v is None:
        return "std::nullopt"
    k = ty["k"]
    if k == "int":
        lo, _ = I_RANGE[ty["w"]]
        s = f"(-{-(lo + 1)}LL - 1)" if v == lo else f"{v}LL"
        lit = f"static_cast<{CPP_INT[ty['w']]}>({s})"
    elif k == "bool":
        lit = "true" if v else "false"
    elif k == "float":
        lit = repr(FLOATS[v]) + ("f" if ty["w"] == "f32" else "")
    elif k == "string":
        lit = f'std::string("{v}")'
    elif k == "enum":
        lit = f"{names['col']['cpp_typename']}::{names['col']['cpp_items'][v]}"
    elif k == "record":
        inner = INNER[ty["name"]]
        tup = pools[ty["name"]][v]
        args = ", ".join(cpp_lit(parse_type(t), x, names, pools) for (_, t), x in zip(inner["fields"], tup))
        lit = f"{names[ty['name']]['cpp_typename']}({args})"
    elif k == "binary":
        lit = "std::vector<uint8_t>{" + ", ".join(f"static_cast<uint8_t>({x})" for x in v) + "}"
    elif k == "list":
        et = {**ty["elem"], "opt": False}
        lit = cpp_type({**ty, "opt": False}, names) + "{" + ", ".join(cpp_lit(et, x, names, pools, False) for x in v) + "}"
    if ty["opt"] and top:
        return f"{cpp_type(ty, names)}({lit})"
    return lit


def java_type(ty, names, boxed=False):
    k = ty["k"]
    if k == "int":
        return JAVA_BOX[ty["w"]] if (boxed or ty["opt"]) else {"i8": "byte", "i16": "short", "i32": "int", "i64": "long"}[ty["w"]]
    if k == "bool":
        return "Boolean" if (boxed or ty["opt"]) else "boolean"
    if k == "float":
        return ("Float" if ty["w"] == "f32" else "Double") if (boxed or ty["opt"]) else ("float" if ty["w"] == "f32" else "double")
    if k == "string":
        return "String"
    if k == "enum":
        return names["col"]["java_typename"]
    if k == "record":
        return names[ty["name"]]["java_typename"]
    if k == "binary":
        return "byte[]"
    if k == "list":
        return f"java.util.ArrayList<{java_type({**ty['elem'], 'opt': False}, names, True)}>"


def java_lit(ty, v, names, pools, boxed=False):
    if v is None:
        return "null"
    k = ty["k"]
    boxed = boxed or ty["opt"]
    if k == "int":
        w = ty["w"]
        prim = {"i8": f"(byte)({v})", "i16": f"(short)({v})", "i32": f"({v})" if v != -2147483648 else "Integer.MIN_VALUE",
                "i64": f"({v}L)" if v != -9223372036854775808 else "Long.MIN_VALUE"}[w]
        return f"new {JAVA_BOX[w]}({prim})" if boxed else prim
    if k == "bool":
        return f"new Boolean({'true' if v else 'false'})" if boxed else ("true" if v else "false")
    if k == "float":
        prim = repr(FLOATS[v]) + ("f" if ty["w"] == "f32" else "d")
        return f"new {'Float' if ty['w'] == 'f32' else 'Double'}({prim})" if boxed else prim
    if k == "string":
        return f'new String("{v}")'
    if k == "enum":
        return f"{names['col']['java_typename']}.{names['col']['java_items'][v]}"
    if k == "record":
        inner = INNER[ty["name"]]
        tup = pools[ty["name"]][v]
        args = ", ".join(java_lit(parse_type(t), x, names, pools) for (_, t), x in zip(inner["fields"], tup))
        return f"new {names[ty['name']]['java_typename']}({args})"
    if k == "binary":
        return "new byte[]{" + ", ".join(f"(byte){x}" for x in v) + "}"
    if k == "list":
        et = {**ty["elem"], "opt": False}
        return f"new {java_type({**ty, 'opt': False}, names)}(java.util.Arrays.asList(" + ", ".join(java_lit(et, x, names, pools, True) for x in v) + "))"


def dv(ty, v, atoms):
    """JSON form of Drv/C09 `DV`"""
    if v is None:
        return None
    k = ty["k"]
    if k == "int":
        return {"i": [BITS[ty["w"]], v]}
    if k == "bool":
        return {"b": v}
    if k == "float":
        return {"a": float_atom(ty["w"], FLOATS[v])}
    if k == "string":
        return {"s": v}
    if k == "enum":
        return {"e": [v, atoms["col_java_items"][v]]}
    if k == "record":
        return {"a": atoms[ty["name"]][v]}
    if k == "binary":
        return {"l": [{"i": [8, x - 256 if x > 127 else x]} for x in v]}
    if k == "list":
        return {"l": [dv({**ty["elem"], "opt": False}, x, atoms) for x in v]}


def float_atom(w, x):
    """[rank, hash, string form]: position in the numeric order (0.0 and -0.0 coincide: `==` holds), pydjinni's hash expression
    (`Float.floatToIntBits(x)` / `(int)(bits ^ (bits >>> 32))` of `Double.doubleToLongBits(x)`), Java string conversion"""
    import struct
    rank = sorted(set(FLOATS)).index(x + 0.0 if x != 0 else 0.0)
    if w == "f32":
        h = struct.unpack(">i", struct.pack(">f", x))[0]
    else:
        bits = struct.unpack(">Q", struct.pack(">d", x))[0]
        h = (bits ^ (bits >> 32)) & 0xFFFFFFFF
        h = h - (1 << 32) if h >= (1 << 31) else h
    return [rank, h, repr(x)]


def java_ref(ty) -> bool:
    """`type_def.java.typename == type_def.java.boxed`"""
    return ty["k"] not in ("int", "bool", "float")


# ---------------------------------------------------------------------------------------------
# record shapes
# ---------------------------------------------------------------------------------------------

EQ_TYPES = ["i8", "i16", "i32", "i64", "bool", "string", "col", "in_a", "in_b", "i32?", "string?", "i64?", "bool?", "col?", "in_a?", "i8?",
            "list<i32>", "list<string>", "list<col>", "list<in_a>", "binary", "binary?", "list<i64>?", "in_d", "in_d?"]
ORD_TYPES = ["i8", "i16", "i32", "i64", "string", "col", "in_a", "in_d", "i64"]
FIELD_NAMES = ["a", "b_two", "c", "dd", "e_x", "f", "g1"]


def clauses_of(rec, inner=None) -> list[str]:
    """shape clauses of the known findings (rows 42, 56); `inner`: the nested record types with their effective deriving"""
    cl = []
    INNER = inner or globals()["INNER"]
    tys = [parse_type(t) for _, t in rec["fields"]]
    if rec["ord"] and any(t["k"] == "bool" for t in tys):
        cl.append("ord-bool")
    if rec["ord"] and any(t["opt"] for t in tys):
        cl.append("ord-optional")
    if rec["eq"] and any(t["k"] == "record" and not INNER[t["name"]]["eq"] for t in tys):
        cl.append("eq-over-non-eq-record")
    if rec["eq"] and any(t["k"] == "float" for t in tys):
        cl.append("float-field")
    if rec["ord"] and any(t["k"] == "record" and not INNER[t["name"]]["ord"] for t in tys):
        cl.append("ord-over-non-ord-record")
    return cl


def make_record(r: random.Random, idx: int, mode: str):
    """mode: eq | ord | eqord | finding-*"""
    n = r.choice([1, 2, 2, 3, 3, 4, 5])
    if mode == "eq":
        types = [r.choice(EQ_TYPES) for _ in range(n)]
        eq, ordd = True, False
    elif mode == "ord":
        types = [r.choice(ORD_TYPES) for _ in range(n)]
        eq, ordd = False, True
    elif mode == "eqord":
        types = [r.choice(ORD_TYPES) for _ in range(n)]
        eq, ordd = True, True
    elif mode == "finding-ord-optional":
        types = [r.choice(ORD_TYPES) for _ in range(n)]
        types[r.randrange(n)] = r.choice(["i32?", "string?", "i64?"])
        eq, ordd = r.random() < 0.5, True
    elif mode == "finding-ord-bool":
        types = [r.choice(ORD_TYPES) for _ in range(n)]
        types[r.randrange(n)] = "bool"
        eq, ordd = r.random() < 0.5, True
    elif mode == "finding-eq-non-eq":
        types = [r.choice(["i32", "string", "col"]) for _ in range(n)]
        types[r.randrange(n)] = "in_c"
        eq, ordd = True, False
    elif mode == "finding-float":
        types = [r.choice(["i32", "string"]) for _ in range(n)]
        types[r.randrange(n)] = r.choice(["f32", "f64"])
        eq, ordd = True, r.random() < 0.5
    elif mode == "finding-optional-binary":
        types = [r.choice(["i32", "string"]) for _ in range(n)]
        types[r.randrange(n)] = "binary?"
        eq, ordd = True, False
    else:
        raise ValueError(mode)
    return {"name": f"r{idx}", "fields": list(zip(FIELD_NAMES, types)), "eq": eq, "ord": ordd}


def explicit_of(rec) -> list[bool]:
    """what is written in `deriving(…)`; `rec["eq"]` / `rec["ord"]` are the *effective* operations (explicit ∪ generate.default_deriving)"""
    return list(rec.get("explicit", [rec["eq"], rec["ord"]]))


def render_record(rec, targets="") -> str:
    der = [d for d, on in zip(("eq", "ord"), explicit_of(rec)) if on]
    body = " ".join(f"{n}: {t};" for n, t in rec["fields"])
    if rec.get("base") and not targets:
        targets = " +java"      # base record: the generated Java class is the non-final `<Name>Base`, the user writes `<Name>`
    return f"{rec['name']} = record{targets} {{ {body} }}" + (f" deriving({', '.join(der)})" if der else "") + "\n"


def draw_tuples(r: random.Random, rec, pools, m: int, budget: int = 26):
    tys = [parse_type(t) for _, t in rec["fields"]]
    base = [draw(r, t, pools) for t in tys]
    tuples = [list(base), list(base)]          # two equal objects
    if any(t["opt"] for t in tys):              # every optional absent / present, other fields as in the base tuple
        tuples.append([None if t["opt"] else x for t, x in zip(tys, base)])
        tuples.append([draw(r, {**t, "opt": False}, pools) if t["opt"] else x for t, x in zip(tys, base)])
    if any(t["k"] == "float" for t in tys):     # 0.0 and -0.0 in otherwise equal objects
        tuples.append([0 if t["k"] == "float" else x for t, x in zip(tys, base)])
        tuples.append([1 if t["k"] == "float" else x for t, x in zip(tys, base)])
    # every integer field: copies of the base tuple (all other fields equal, so the comparison is decided by this field alone)
    # with adjacent and far-apart values around the extremes and powers of two; nested records: the adjacent pool entries
    int_fields = [i for i, t in enumerate(tys) if t["k"] == "int"]
    for i in int_fields:
        vals = int_neighbourhoods(r, tys[i]["w"])
        if len(int_fields) > 2 and i != int_fields[0]:
            vals = vals[2:4] + vals[4:6]               # many integer fields: the upper extreme pair and one power-of-two pair
        for v in vals[:max(0, budget)]:
            tuples.append([v if j == i else x for j, x in enumerate(base)])
        budget -= len(vals)
    for i, t in enumerate(tys):
        if t["k"] == "record" and len(tuples) < m + 30:
            for v in (0, 1):                           # pool entries 0 and 1 differ by one in their first integer field
                tuples.append([v if j == i else x for j, x in enumerate(base)])
    m = max(m, len(tuples) + 3)
    while len(tuples) < m:
        if r.random() < 0.6:
            t = list(r.choice(tuples))
            for _ in range(r.choice([1, 1, 2])):
                i = r.randrange(len(tys))
                if tys[i]["k"] == "int" and t[i] is not None and r.random() < 0.5:
                    t[i] = clamp(tys[i]["w"], t[i] + r.choice([-1, 1]))      # a neighbour of a value already present
                else:
                    t[i] = draw(r, tys[i], pools)
        else:
            t = [draw(r, ty, pools) for ty in tys]
        tuples.append(t)
    return tuples


# ---------------------------------------------------------------------------------------------
# drivers
# ---------------------------------------------------------------------------------------------

def comparable(ty, inner) -> bool:
    """can a value of this type be compared with `==` / `equals` whatever the record derives? (records: only those deriving eq)"""
    if ty["k"] == "list":
        return comparable(ty["elem"], inner)
    return ty["k"] != "record" or bool((inner or INNER)[ty["name"]]["eq"])


def cpp_driver(rec, info, names, pools, tuples, has_eq, has_ord, inner=None) -> str:
    T = info["type_names"]["cpp_typename"]
    tys = [parse_type(t) for _, t in rec["fields"]]
    lines = ["#include <cstdio>", "#include <vector>", "#include <string>", "#include <optional>", "#include <cstdint>",
             f'#include "{info["type_names"]["cpp_header"]}"', "int main() {", f"  std::vector<{T}> v;"]
    for tup in tuples:
        args = ", ".join(cpp_lit(ty, x, names, pools) for ty, x in zip(tys, tup))
        lines.append(f"  v.push_back({T}({args}));")
    # every field read back by its declared name: does it hold the value given for its position in the declaration?
    held = [k for k, ty in enumerate(tys) if comparable(ty, inner)]
    for i, tup in enumerate(tuples):
        if held:
            lines.append(f'  std::printf("F {i}' + ' %d' * len(held) + '\\n"' +
                         "".join(f", (int)(v[{i}].{info['names']['cpp'][k]} == {cpp_lit(tys[k], tup[k], names, pools)})" for k in held) + ");")
    lines.append("  for (size_t i = 0; i < v.size(); ++i) for (size_t j = 0; j < v.size(); ++j) {")
    cols = []
    if has_eq:
        cols += ["v[i] == v[j]", "v[i] != v[j]"]
    if has_ord:
        cols += ["v[i] < v[j]", "v[i] > v[j]", "v[i] <= v[j]", "v[i] >= v[j]"]
    fmt = " ".join(["%d"] * len(cols))
    lines.append(f'    std::printf("%zu %zu {fmt}\\n", i, j' + "".join(f", (int)({c})" for c in cols) + ");")
    lines += ["  }", "  return 0;", "}"]
    return "\n".join(lines) + "\n"


RUNTIME_CLASSES = ["generated", "user-subclass", "anonymous-subclass"]


def java_classes(rec, info, layout):
    """How the Java objects of a record come into being. A final record class: `new T(…)`. A record class that can be extended
    (`record +java`: the generated `<Name>Base` + the user's `<Name>`; `java.use_final_for_record: false`): the tuples are
    spread over instances of the generated class, of a trivial user subclass (behaviour only, no state) and of an anonymous
    subclass — objects with equal fields are the same value whatever their run-time class.
    -> None | {"generated": qualified name of the generated class, "user": name of the subclass, "user_file": (path, text) | None}"""
    T = info["type_names"]["java_typename"]
    if rec.get("base"):
        pkg = T.rsplit(".", 1)[0]
        return {"generated": pkg + "." + info["type_names"]["java"], "user": T, "external": True}
    if layout and layout.get("java_final") is False:
        return {"generated": T, "user": "Sub", "external": False}
    return None


def user_subclass(name, parent, rec, names, nested=False) -> str:
    tys = [parse_type(t) for _, t in rec["fields"]]
    params = ", ".join(f"{java_type(ty, names)} p{k}" for k, ty in enumerate(tys))
    args = ", ".join(f"p{k}" for k in range(len(tys)))
    return (f"{'  static ' if nested else 'public '}class {name} extends {parent} {{ {'' if nested else 'public '}{name}({params}) {{ super({args}); }} "
            f"String describe() {{ return \"user code\"; }} }}\n")


def java_driver(cls, rec, info, names, pools, tuples, has_eq, has_cmp, has_str, inner=None, classes=None) -> str:
    T = info["type_names"]["java_typename"]
    tys = [parse_type(t) for _, t in rec["fields"]]
    if classes:
        T = classes["generated"]
    L = [f"public class {cls} {{",
         "  static String exc(Throwable e) { return e instanceof NullPointerException ? \"npe\" : e.getClass().getSimpleName(); }",
         "  static String held(Object o, String name, Object want) {",
         "    for (Class<?> c = o.getClass(); c != null; c = c.getSuperclass()) {",
         "      try { java.lang.reflect.Field f = c.getDeclaredField(name); f.setAccessible(true);",
         "            return java.util.Objects.deepEquals(f.get(o), want) ? \"1\" : \"0\"; }",
         "      catch (NoSuchFieldException e) { continue; }",
         "      catch (ReflectiveOperationException | RuntimeException e) { return \"0\"; }",
         "    }",
         "    return \"0\";",
         "  }",
         "  @SuppressWarnings({\"unchecked\", \"rawtypes\"})",
         "  public static void main(String[] args) {",
         f"    {T}[] v = new {T}[] {{"]
    for i, tup in enumerate(tuples):
        args = ", ".join(java_lit(ty, x, names, pools) for ty, x in zip(tys, tup))
        kind = RUNTIME_CLASSES[i % 3] if classes else "generated"
        if kind == "user-subclass":
            L.append(f"      new {classes['user']}({args}),")
        elif kind == "anonymous-subclass":
            L.append(f"      new {classes['user'] if (classes['external'] and i % 2) else T}({args}) {{ }},")
        else:
            L.append(f"      new {T}({args}),")
    L.append("    };")
    if classes and not classes["external"]:
        L.insert(1, user_subclass(classes["user"], T, rec, names, nested=True).rstrip("\n"))
    # every field read back by its declared name: does it hold the value given for its position in the declaration?
    held = [k for k, ty in enumerate(tys) if comparable(ty, inner)]
    for i, tup in enumerate(tuples):
        if held:
            L.append(f'    System.out.println("F {i}"' + "".join(f' + " " + held(v[{i}], "{info["names"]["java"][k]}", {java_lit(tys[k], tup[k], names, pools)})' for k in held) + ");")
    L.append("    for (int i = 0; i < v.length; i++) {")
    if has_eq:
        L.append('      try { System.out.println("H " + i + " " + v[i].hashCode()); } catch (RuntimeException e) { System.out.println("H " + i + " " + exc(e)); }')
    if has_str:
        L.append('      try { System.out.println("S " + i + " " + v[i].toString()); } catch (RuntimeException e) { System.out.println("S " + i + " !" + exc(e)); }')
    L.append("      for (int j = 0; j < v.length; j++) {")
    L.append('        String e = "-", c = "-";')
    if has_eq:
        L.append("        try { e = Boolean.toString(v[i].equals(v[j])); } catch (RuntimeException x) { e = exc(x); }")
    if has_cmp:
        L.append("        try { c = Integer.toString(((Comparable) v[i]).compareTo(v[j])); } catch (RuntimeException x) { c = exc(x); }")
    L.append('        System.out.println("P " + i + " " + j + " " + e + " " + c);')
    L += ["      }", "    }", "  }", "}"]
    return "\n".join(L) + "\n"


# short-lived JVMs: no optimising compiler threads, no parallel collector (same semantics, a third of the CPU time)
JVM_FLAGS = ["-XX:TieredStopAtLevel=1", "-XX:+UseSerialGC", "-Xshare:auto"]


def run_record(args):
    """compile and run the C++ and Java drivers of one record; returns the implementation's observation"""
    d, files, cpp_sources, cpp_drv, java_cls, java_drv, inc = args
    d = Path(d)
    glue.write_tree(d, files)
    obs = {"cpp": None, "java": None, "notes": {}}
    if cpp_drv is not None:
        # one translation unit: the generated sources, then the driver (the standard headers are parsed once)
        (d / "drv.cpp").write_text("".join(f'#include "{s}"\n' for s in cpp_sources) + cpp_drv)
        cmd = ["g++", "-std=c++20", "-O0", "-w", "-I", str(d / "cpp")] + inc + [str(d / "drv.cpp"), "-o", str(d / "drv")]
        rc, out, err = glue.run_cmd(cmd, timeout=300)
        if rc != 0:
            obs["cpp"] = {"compiled": False}
            obs["notes"]["g++"] = err[-1200:]
        else:
            rc, out, err = glue.run_cmd([str(d / "drv")], timeout=60)
            obs["cpp"] = {"compiled": True, "rc": rc, "out": out}
    if java_drv is not None:
        (d / "java" / f"{java_cls}.java").parent.mkdir(parents=True, exist_ok=True)
        (d / "java" / f"{java_cls}.java").write_text(java_drv)
        srcs = [str(p) for p in (d / "java").rglob("*.java")]
        rc, out, err = glue.run_cmd(["javac"] + ["-J" + f for f in JVM_FLAGS] + ["-proc:none", "-nowarn", "-Xlint:none", "-d", str(d / "classes")] + srcs, timeout=300)
        if rc != 0:
            obs["java"] = {"compiled": False}
            obs["notes"]["javac"] = err[-1200:]
        else:
            rc, out, err = glue.run_cmd(["java"] + JVM_FLAGS + ["-cp", str(d / "classes"), java_cls], timeout=120)
            obs["java"] = {"compiled": True, "rc": rc, "out": out}
            if rc != 0:
                obs["notes"]["java"] = err[-800:]
    return obs


def parse_outputs(obs, m, has_eq, has_ord, has_cmp):
    """-> the shape of the `c09.eval` answer"""
    pairs = {(i, j): {"i": i, "j": j, "cpp": {}, "java": {}} for i in range(m) for j in range(m)}
    hashes, strs = [None] * m, [None] * m
    held = {}
    c = obs.get("cpp")
    if c and c.get("compiled") and c.get("rc") == 0:
        for line in c["out"].splitlines():
            p = line.split()
            if p[0] == "F":
                held.setdefault("cpp", [None] * m)[int(p[1])] = [x == "1" for x in p[2:]]
                continue
            i, j, vals = int(p[0]), int(p[1]), [x == "1" for x in p[2:]]
            names = (["eq", "ne"] if has_eq else []) + (["lt", "gt", "le", "ge"] if has_ord else [])
            pairs[(i, j)]["cpp"] = dict(zip(names, vals))
    jv = obs.get("java")
    if jv and jv.get("compiled") and jv.get("rc") == 0:
        for line in jv["out"].splitlines():
            tag, _, rest = line.partition(" ")
            if tag == "H":
                i, _, h = rest.partition(" ")
                hashes[int(i)] = int(h) if re.fullmatch(r"-?\d+", h) else h
            elif tag == "S":
                i, _, s = rest.partition(" ")
                strs[int(i)] = s
            elif tag == "F":
                p = rest.split(" ")
                held.setdefault("java", [None] * m)[int(p[0])] = [x == "1" for x in p[1:]]
            elif tag == "P":
                i, j, e, cval = rest.split(" ")
                jd = {}
                if e != "-":
                    jd["equals"] = {"true": True, "false": False}.get(e, e)
                if cval != "-":
                    jd["compare"] = int(cval) if re.fullmatch(r"-?\d+", cval) else cval
                pairs[(int(i), int(j))]["java"] = jd
    return {"pairs": [pairs[k] for k in sorted(pairs)], "hash": hashes, "str": strs, "held": held}


# ---------------------------------------------------------------------------------------------
# behavioural stream
# ---------------------------------------------------------------------------------------------

def report(ctx, key, what, replay):
    """at most three replays per failure shape (the runner keeps 25 replay files per run)"""
    seen = ctx.stats.setdefault("reported_by_key", {})
    seen[key] = seen.get(key, 0) + 1
    if seen[key] <= 3:
        ctx.report(key, what, replay)


def sign(n):
    return (n > 0) - (n < 0)


def type_names(decls_info):
    names = {}
    for info in decls_info:
        tn = info.get("type_names", {})
        e = {"cpp_typename": tn.get("cpp_typename"), "java_typename": "vf.pkg." + tn.get("java", "") if info["kind"] == "enum" else tn.get("java_typename"),
             "cpp_header": tn.get("cpp_header")}
        if info["kind"] == "enum":
            e["cpp_items"], e["java_items"] = info["names"]["cpp"], info["names"]["java"]
        names[info["name"]] = e
    return names


def fields_json(rec, info):
    out = []
    for (n, t), cn, jn in zip(rec["fields"], info["names"]["cpp"], info["names"]["java"]):
        ty = parse_type(t)
        out.append({"cpp": cn, "java": jn, "optional": ty["opt"], "ref": java_ref(ty), "enum": ty["k"] == "enum", "binary": ty["k"] == "binary"})
    return out


def needs(rec):
    """nested record types a record's C++ sources depend on"""
    out = []
    for _, t in rec["fields"]:
        ty = parse_type(t)
        while ty["k"] == "list":
            ty = ty["elem"]
        if ty["k"] == "record" and ty["name"] not in out:
            out.append(ty["name"])
    return out


# --- programs spread over imported files, `generate.default_deriving` (a *layout*)

LEVEL_FILES = ["m.djinni", "sub/l1.djinni", "sub/deep/l2.djinni"]       # level k imports level k + 1
IMPORT_LINES = ['@import "sub/l1.djinni"\n', '@import "deep/l2.djinni"\n']
ENUM_DECL = PRELUDE.splitlines(keepends=True)[0]
DEFAULTS = [[], ["eq"], ["ord"], ["eq", "ord"]]


def inner_records(layout) -> list[dict]:
    """the nested record types as declarations of this layout: explicit `deriving` as the layout writes it, file level"""
    out = []
    for nm, inner in INNER.items():
        ex = (layout or {}).get("inner_explicit", {}).get(nm, [inner["eq"], inner["ord"]])
        out.append({"name": nm, "fields": inner["fields"], "eq": ex[0], "ord": ex[1], "explicit": list(ex), "level": (layout or {}).get("levels", {}).get(nm, 0)})
    return out


def layout_decls(records, layout):
    """[(level, record | None, text)] in declaration order"""
    lv = layout.get("levels", {})
    return ([(lv.get("col", 0), None, ENUM_DECL)] + [(r["level"], r, render_record(r)) for r in inner_records(layout)]
            + [(rec.get("level", 0), rec, render_record(rec)) for rec in records if rec["name"] not in INNER])


def behaviour_idl(records, layout=None):
    """the program text — or, for a layout, {relative path: text} with the root `m.djinni`"""
    if not layout or "levels" not in layout:
        return PRELUDE + "".join(render_record(rec) for rec in records if rec["name"] not in INNER)
    decls = layout_decls(records, layout)
    deepest = max(l for l, _, _ in decls)
    return {LEVEL_FILES[L]: (IMPORT_LINES[L] if L < deepest else "") + "".join(t for l, _, t in decls if l == L) for L in range(deepest + 1)}


def idl_text(idl) -> str:
    return idl if isinstance(idl, str) else "".join(f"# ---- {pth}\n{text}" for pth, text in idl.items())


def apply_layout(ctx, records, layout):
    """The operations every record of the program derives: the model (`c09.deriving`: explicit ∪ default, in every file of
    the import graph) sets `rec["eq"]` / `rec["ord"]`; returns the nested record types with their effective deriving."""
    if not layout or "levels" not in layout:
        return INNER
    decls = layout_decls(records, layout)
    deepest = max(l for l, _, _ in decls)

    def file_json(L):
        return {"imports": [file_json(L + 1)] if L < deepest else [],
                "records": [{"name": r["name"], "eq": explicit_of(r)[0], "ord": explicit_of(r)[1]} for l, r, _ in decls if l == L and r is not None]}
    ans = ctx.driver.one({"op": "c09.deriving", "defaultEq": "eq" in layout["default"], "defaultOrd": "ord" in layout["default"], "file": file_json(0)})
    if "error" in ans:
        raise RuntimeError(str(ans))
    eff = {e["name"]: e for e in ans["records"]}
    for rec in records:
        if rec["name"] in eff:
            rec["explicit"] = explicit_of(rec)
            rec["eq"], rec["ord"] = eff[rec["name"]]["eq"], eff[rec["name"]]["ord"]
    return {nm: {"fields": INNER[nm]["fields"], "eq": eff[nm]["eq"], "ord": eff[nm]["ord"]} for nm in INNER}


def behaviour_options(ctx, tag, layout=None, all_targets=True):
    java = {"string_serialization": True}
    if layout and layout.get("java_final") is not None:
        java["use_final_for_record"] = bool(layout["java_final"])
    opts = glue.base_options(ctx.tmp / f"b_{tag}" / "out", java=java,
                             extra={"default_deriving": list(layout["default"])} if layout and layout.get("default") else None)
    if not all_targets:
        # only the two targets of this property are configured: the field names of the run need not be valid in Objective-C and C++/CLI
        for k in ("objc", "objcpp", "cppcli"):
            del opts["generate"][k]
    return opts


def behaviour(ctx, groups, fixed=None):
    """groups: [(tag, records)] or [(tag, records, layout)] — generate all programs (process pool), compile and run all
    drivers (one pool), evaluate. `fixed` = {"pools", "tuples"} replays recorded values instead of drawing them."""
    groups = [(g[0], g[1], g[2] if len(g) > 2 else None) for g in groups]
    inners = [apply_layout(ctx, recs, layout) for _, recs, layout in groups]
    plain = [g for g in groups if not (g[2] or {}).get("regen")]
    res_plain = glue.generate_many(ctx.tmp / "bgen", [(behaviour_idl(recs, layout), behaviour_options(ctx, tag, layout, not (layout or {}).get("two_targets")))
                                                      for tag, recs, layout in plain], targets=("cpp", "java"))
    again = [g for g in groups if (g[2] or {}).get("regen")]
    res_again = regenerate_many(ctx.tmp / "bregen", [(behaviour_idl(layout["regen"]["before"], None), behaviour_idl(recs, None), behaviour_options(ctx, tag, None, False),
                                                      layout["regen"]["same_context"]) for tag, recs, layout in again])
    it_plain, it_again = iter(res_plain), iter(res_again)
    results = [next(it_again) if (g[2] or {}).get("regen") else next(it_plain) for g in groups]
    prepared = [prepare(ctx, recs, tag, res, fixed, layout, inner) for (tag, recs, layout), res, inner in zip(groups, results, inners)]
    jobs = [j for p in prepared for j in p[0]]
    observations = glue.parallel(run_record, jobs, workers=16)
    breaks, k = [], 0
    for pjobs, metas, atoms in prepared:
        breaks += evaluate(ctx, metas, observations[k:k + len(pjobs)], atoms)
        k += len(pjobs)
    return breaks


def prepare(ctx, records, tag, res, fixed=None, layout=None, inner_eff=None):
    r = random.Random(f"{ctx.seed}/c09/values/{tag}")
    INNER = inner_eff or globals()["INNER"]      # the nested record types with the deriving they have in this program
    idl = behaviour_idl(records, layout)
    pdir = ctx.tmp / f"b_{tag}"
    if res["parse"] != "ok":
        raise RuntimeError(f"generated program rejected by the front end: {res}\n{idl_text(idl)}")
    infos = {i["name"]: i for i in res["decls"]}
    names = type_names(res["decls"])
    # what the real front end made of `deriving(…)`, the configuration and the file a record stands in
    by_name = {**{nm: {"name": nm, **INNER[nm]} for nm in INNER}, **{rec["name"]: rec for rec in records}}
    for nm, info in infos.items():
        if info["kind"] == "record" and nm in by_name and "deriving" in info:
            want = sorted(d for d in ("eq", "ord") if by_name[nm][d])
            ctx.stat("deriving_sets_compared")
            if sorted(x for x in info["deriving"] if x in ("eq", "ord")) != want:
                report(ctx, "deriving:not-explicit-united-with-default", f"record {nm} (file {info.get('file')}) derives {info['deriving']}, "
                       f"its declaration and generate.default_deriving = {(layout or {}).get('default', [])} give {want}",
                       {"input": {"records": [by_name[nm]] if nm not in INNER else [], "layout": layout}, "idl": idl_text(idl), "record": nm, "observed": info["deriving"], "expected": want})
    # value pools of the nested record types and their atoms (rank / hash / string form from the model itself)
    pools = {}
    pr = random.Random(f"{ctx.seed}/c09/pools/{tag}")
    for nm, inner in INNER.items():
        tys = [parse_type(t) for _, t in inner["fields"]]
        pool = []
        first = [draw(pr, t, {}) for t in tys]
        ints = [i for i, t in enumerate(tys) if t["k"] == "int"]
        if ints:
            w = tys[ints[0]]["w"]
            v = pr.choice(int_neighbourhoods(pr, w)[2:])           # upper extreme or a power of two
            v = v - 1 if v == I_RANGE[w][1] else v
            first[ints[0]] = v
            pool = [first, [v + 1 if j == ints[0] else x for j, x in enumerate(first)]]
        while len(pool) < 5:
            tup = [draw(pr, t, {}) for t in tys]
            if tup not in pool:
                pool.append(tup)
        pools[nm] = pool
    if fixed:
        pools = {**pools, **fixed["pools"]}
    atoms = {"col_java_items": names["col"]["java_items"]}
    for nm, inner in INNER.items():
        rec = {"name": nm, "fields": inner["fields"], "eq": inner["eq"], "ord": inner["ord"]}
        ans = ctx.driver.one({"op": "c09.eval", "typename": names[nm]["java_typename"], "eq": True, "ord": True, "javaStringSer": True,
                              "fields": fields_json(rec, infos[nm]),
                              "values": [[dv(parse_type(t), x, atoms) for (_, t), x in zip(inner["fields"], tup)] for tup in pools[nm]]})
        if "error" in ans:
            raise RuntimeError(str(ans))
        m = len(pools[nm])
        less = {(p["i"], p["j"]): p["cpp"]["lt"] for p in ans["pairs"]}
        rank = [sum(1 for j in range(m) if less[(j, i)] is True) for i in range(m)]
        # records without `eq` have identity hash / Object.toString in Java: marked by hash 0 and an unpredictable string
        atoms[nm] = [[rank[i], ans["hash"][i] if inner["eq"] else 0, ans["str"][i]] for i in range(m)]
    # all records of the program, the nested ones included (they are records deriving eq/ord themselves)
    todo = [{"name": nm, "fields": inner["fields"], "eq": inner["eq"], "ord": inner["ord"]} for nm, inner in INNER.items() if inner["eq"] or inner["ord"]]
    todo = (todo if (tag.endswith("0") and not layout) or (layout or {}).get("run_inner") else []) + [rec for rec in records if rec["name"] not in INNER]
    if not todo:     # replay of one of the nested record types
        todo = [rec for rec in records]
    atoms["_pools"] = pools
    atoms["_inner"], atoms["_layout"], atoms["_idl"] = INNER, layout, idl_text(idl)
    jobs, metas = [], []
    inc = glue.cpp_support_includes()
    for k, rec in enumerate(todo):
        info = infos[rec["name"]]
        n = len(rec["fields"])
        dec = ctx.driver.one({"op": "c09.decision", "eq": rec["eq"], "ord": rec["ord"], "nFields": n, "cppStringSer": False, "javaStringSer": True})
        tuples = fixed["tuples"] if fixed else draw_tuples(r, rec, pools, (layout or {}).get("tuples", ctx.n(7, 9)), budget=(layout or {}).get("int_budget", 26))
        files = {}
        for dn in dict.fromkeys(["col"] + needs(rec) + [rec["name"]]):
            for sub in ("cpp", "java"):
                for pth, text in infos[dn]["files"].get(sub, {}).items():
                    files[f"{sub}/{pth}"] = text
        srcs = [p for dn in needs(rec) + [rec["name"]] for p in infos[dn]["files"].get("cpp", {}) if p.endswith(".cpp")]
        cls = f"Drv{k}"
        jclasses = java_classes(rec, info, layout)
        if jclasses and jclasses["external"] and "java" not in info["errors"]:
            # the user's part of a base record: a subclass of the generated class that adds behaviour, no state
            uq = jclasses["user"]
            files["java/" + uq.replace(".", "/") + ".java"] = f"package {uq.rsplit('.', 1)[0]};\n" + user_subclass(uq.rsplit(".", 1)[1], jclasses["generated"], rec, names)
        if jclasses:
            ctx.stat("records_with_instances_of_several_runtime_classes")
        cppd = cpp_driver(rec, info, names, pools, tuples, dec["cppDeclaresEq"], dec["cppDeclaresOrd"], INNER) if "cpp" not in info["errors"] else None
        javad = java_driver(cls, rec, info, names, pools, tuples, dec["javaHasEquals"], dec["javaHasCompareTo"], dec["javaHasToString"], INNER, jclasses) if "java" not in info["errors"] else None
        jobs.append((str(pdir / f"run{k}"), files, srcs, cppd, cls, javad, inc))
        metas.append((rec, info, dec, tuples))
    return jobs, metas, atoms


def evaluate(ctx, metas, observations, atoms):
    breaks = []
    INNER, layout = atoms.get("_inner") or globals()["INNER"], atoms.get("_layout")
    ereqs, sreqs = [], []
    for (rec, info, dec, tuples), obs in zip(metas, observations):
        tys = [parse_type(t) for _, t in rec["fields"]]
        base = {"typename": info["type_names"]["java_typename"], "eq": rec["eq"], "ord": rec["ord"], "javaStringSer": True, "cppStringSer": False,
                "fields": fields_json(rec, info), "values": [[dv(ty, x, atoms) for ty, x in zip(tys, tup)] for tup in tuples]}
        impl = parse_outputs(obs, len(tuples), dec["cppDeclaresEq"], dec["cppDeclaresOrd"], dec["javaHasCompareTo"])
        impl["heldFields"] = [n for (n, _), ty in zip(rec["fields"], tys) if comparable(ty, INNER)]
        ereqs.append({**base, "op": "c09.eval"})
        sreqs.append({**base, "op": "c09.spec", "impl": impl})
    models, specs = ctx.driver.batch(ereqs), ctx.driver.batch(sreqs)
    for (rec, info, dec, tuples), obs, model, spec, sreq in zip(metas, observations, models, specs, sreqs):
        if "error" in model or "error" in spec:
            raise RuntimeError(f"driver error {model} {spec}")
        impl = sreq["impl"]
        cl = clauses_of(rec, INNER) + (name_clauses(rec, info) if (layout or {}).get("names") else [])
        shape = (rec["eq"], rec["ord"], tuple(t for _, t in rec["fields"]))
        regen = (layout or {}).get("regen")
        if regen:
            shape += ("regenerate", regen["edits"].get(rec["name"]), regen["same_context"])
            ctx.stat("regenerated_" + str(regen["edits"].get(rec["name"])))
        elif layout and "java_final" in layout:
            shape += ("java-class", "base" if rec.get("base") else "final" if layout["java_final"] is not False else "non-final")
            ctx.stat("java_class_" + shape[-1])
        elif layout:
            shape += layout_key(rec, layout)
            ctx.stat("layout_default_" + ("+".join(layout.get("default", [])) or "none"))
        ctx.count(key=shape, nontrivial=True, sample={"idl": render_record(rec), "values": tuples[:2]}, n=len(tuples) ** 2)
        for _, t in rec["fields"]:
            ctx.stat("field_" + t)
        ctx.stat("deriving_" + "+".join(d for d in ("eq", "ord") if rec[d]))
        replay = {"input": {"records": [rec], "tuples": tuples, "pools": atoms["_pools"], **({"layout": layout} if layout else {})},
                  "idl": atoms["_idl"] if layout else PRELUDE + render_record(rec), "clauses": cl, "notes": obs["notes"]}
        if regen:     # the history of the output directory: what was generated there before, and the edit
            before = [b for b in regen["before"] if b["name"] == rec["name"]]
            replay["input"]["layout"] = {"regen": {**regen, "before": before, "edits": {rec["name"]: regen["edits"].get(rec["name"])}}}
            replay["history"] = {"generated first": PRELUDE + "".join(render_record(b) for b in before), "then, into the same directories": PRELUDE + render_record(rec),
                                 "edit": regen["edits"].get(rec["name"]), "same configured context": regen["same_context"]}
        # --- judges' verdict on the generated code itself
        fails = []
        for lang, tool in (("cpp", "g++"), ("java", "javac")):
            o = obs.get(lang)
            if o is None:
                fails.append({"target": lang, "why": f"generation failed: {info['errors'].get(lang)}"})
            elif not o.get("compiled"):
                fails.append({"target": lang, "why": f"generated code does not compile ({tool})"})
            elif o.get("rc") != 0:
                fails.append({"target": lang, "why": "driver crashed"})
        compiled = {lang: bool(obs.get(lang) and obs[lang].get("compiled") and obs[lang].get("rc") == 0) for lang in ("cpp", "java")}
        if not spec["holds"]:
            for f in spec["failures"]:
                if compiled[f["target"]]:
                    fails.append(f)
        for f in fails:
            report(ctx, (f"regenerate:{regen['edits'].get(rec['name'])}:" if regen else "") + failure_key(f, cl),
                   f"{f['target']}: {f['why']}" + (" — in the code that is on disk after the declaration was edited and generated again into the same directories" if regen else ""), {**replay, "failure": f,
                       "values": [tuples[f["i"]], tuples[f["j"]]] if "i" in f else None})
        # --- correspondence with the model
        diffs = []
        mp = {(p["i"], p["j"]): p for p in model["pairs"]}
        for p in impl["pairs"]:
            q = mp[(p["i"], p["j"])]
            if compiled["cpp"] and p["cpp"] != q["cpp"]:
                diffs.append(("cpp", p["i"], p["j"], p["cpp"], q["cpp"]))
            if compiled["java"]:
                je, me = p["java"], q["java"]
                if je.get("equals") != me.get("equals"):
                    diffs.append(("java equals", p["i"], p["j"], je.get("equals"), me.get("equals")))
                a, b = je.get("compare"), me.get("compare")
                if (sign(a) if isinstance(a, int) else a) != (sign(b) if isinstance(b, int) else b):
                    diffs.append(("java compareTo", p["i"], p["j"], a, b))
        if compiled["java"]:
            exact_hash = model["hashExact"] and not any(parse_type(t)["k"] == "record" and not INNER[parse_type(t)["name"]]["eq"] for _, t in rec["fields"])
            if exact_hash and model["hash"] and impl["hash"] != model["hash"]:
                diffs.append(("java hashCode", 0, 0, impl["hash"], model["hash"]))
            exact_str = not any(parse_type(t)["k"] == "binary" or (parse_type(t)["k"] == "record" and not INNER[parse_type(t)["name"]]["eq"]) for _, t in rec["fields"])
            if exact_str and model["str"] and impl["str"] != model["str"]:
                diffs.append(("java toString", 0, 0, impl["str"], model["str"]))
        known_shape = "eq-over-non-eq-record" in cl or "ord-over-non-ord-record" in cl   # Java falls back to object identity there
        if diffs and not known_shape:
            breaks.append({"why": f"{diffs[0][0]} differs from the model", "idl": render_record(rec), "first": diffs[0], "values": [tuples[diffs[0][1]], tuples[diffs[0][2]]],
                           "count": len(diffs)})
        ctx.stat("records_run")
    return breaks


def failure_key(f, clauses):
    why, t = f["why"], f["target"]
    if t == "java" and "ord-bool" in clauses and "does not compile" in why:
        return "java:ord-bool"
    if t == "java" and "ord-optional" in clauses and "compareTo throws npe" in why:
        return "java:ord-optional-null"
    if "eq-over-non-eq-record" in clauses and ((t == "cpp" and ("does not compile" in why or "driver crashed" in why)) or (t == "java" and ("equals" in why or "hash" in why))):
        return "eq-over-non-eq-record"
    if t == "java" and "float-field" in clauses and "equal objects have different hash codes" in why:
        return "java:float-signed-zero-hash"
    if t == "cpp" and "cpp-field-is-emitted-type-name" in clauses and "does not compile" in why:
        return "cpp:field-named-like-emitted-type"
    if t == "java" and "java-field-obscures-qualified-name" in clauses and "does not compile" in why:
        return "java:field-obscures-qualified-name"
    return f"{t}:" + re.sub(r"[^a-z=<>!]+", "-", why.split("(")[0].lower()).strip("-")


# ---------------------------------------------------------------------------------------------
# decision stream (token level)
# ---------------------------------------------------------------------------------------------

def has_seq(tokens, *seq):
    n = len(seq)
    return any(all(tokens[i + k][1] == seq[k] for k in range(n)) for i in range(len(tokens) - n + 1))


def observe_decisions(info):
    cppf = info["files"].get("cpp", {})
    hdr = [glue.tokenize(t) for p, t in cppf.items() if not p.endswith(".cpp")]
    src = [glue.tokenize(t) for p, t in cppf.items() if p.endswith(".cpp")]
    jav = [glue.tokenize(t, lang="java") for p, t in info["files"].get("java", {}).items()]

    def anyseq(tl, *seq):
        return any(has_seq(t, *seq) for t in tl)
    fmt = None
    for t in src:
        for i in range(len(t) - 5):
            if [x[1] for x in t[i:i + 4]] == ["std", "::", "format", "("] and t[i + 4][0] == "str":
                end = glue._matching(t, i + 3, "(", ")")
                rest = t[i + 5:end]
                args = ["".join(x[1] for x in a) for a in glue._split_top(rest[1:])] if rest and rest[0][1] == "," else []
                fmt = {"format": t[i + 4][1][1:-1], "args": [a for a in args if a]}
    return {
        "cppFormat": fmt,
        "cppWritesSource": bool(src),
        "cppDeclaresEq": anyseq(hdr, "operator", "=="), "cppDeclaresOrd": anyseq(hdr, "operator", "<"),
        "cppDefinesEq": anyseq(src, "operator", "=="), "cppDefinesOrd": anyseq(src, "operator", "<"),
        "cppDeclaresToString": anyseq(hdr, "to_string", "("), "cppDefinesToString": anyseq(src, "to_string", "("),
        "javaHasEquals": anyseq(jav, "equals", "(", "Object"), "javaHasHashCode": anyseq(jav, "int", "hashCode", "("),
        "javaHasCompareTo": anyseq(jav, "int", "compareTo", "("), "javaImplementsComparable": anyseq(jav, "implements", "Comparable"),
        "javaHasToString": anyseq(jav, "String", "toString", "("),
    }


def decisions(ctx, only=None):
    """`only` = {"rec", "targets", "css", "jss"(, "layout")}: just that combination (replay)"""
    breaks = []
    only_layout = (only or {}).get("layout")
    combos = list(itertools.product([False, True], [False, True], [0, 1, 3], [False, True], [False, True], ["", " +cpp", " +java"]))
    progs = []
    for css, jss in itertools.product([False, True], repeat=2):
        recs = []
        for k, (eq, ordd, n, css2, jss2, tg) in enumerate(combos):
            if css2 != css or jss2 != jss:
                continue
            if only and (only_layout or only["rec"]["name"] != f"d{k}" or only["css"] != css or only["jss"] != jss):
                continue
            recs.append(({"name": f"d{k}", "fields": list(zip(FIELD_NAMES, ["i32", "string", "i16"][:n])), "eq": eq, "ord": ordd}, tg))
        # split so that the pool has something to do
        for half in (recs[::2], recs[1::2]):
            if half:
                progs.append((css, jss, half, None))
    # every `generate.default_deriving` x depth of the import graph x file level of the record x explicit deriving
    k = 0
    for default in DEFAULTS:
        for depth in (0, 1, 2):
            recs = []
            for level in range(depth + 1):
                for ex in itertools.product([False, True], repeat=2):
                    k += 1
                    if only and (not only_layout or only["rec"]["name"] != f"y{k}"):
                        continue
                    recs.append(({"name": f"y{k}", "fields": list(zip(FIELD_NAMES, ["i32", "string"])), "eq": ex[0], "ord": ex[1], "explicit": list(ex), "level": level}, ""))
            if recs:
                progs.append((False, True, recs, {"default": default, "depth": depth}))
    jobs = []
    for pi, (css, jss, recs, dl) in enumerate(progs):
        idl = "".join(render_record(rec, tg) for rec, tg in recs)
        extra = None
        if dl:
            idl = {LEVEL_FILES[L]: (IMPORT_LINES[L] if L < dl["depth"] else "") + "".join(render_record(rec) for rec, _ in recs if rec["level"] == L) for L in range(dl["depth"] + 1)}
            extra = {"default_deriving": list(dl["default"])} if dl["default"] else None

            def file_json(L, recs=recs, dl=dl):
                return {"imports": [file_json(L + 1)] if L < dl["depth"] else [],
                        "records": [{"name": rec["name"], "eq": rec["explicit"][0], "ord": rec["explicit"][1]} for rec, _ in recs if rec["level"] == L]}
            eff = {e["name"]: e for e in ctx.driver.one({"op": "c09.deriving", "defaultEq": "eq" in dl["default"], "defaultOrd": "ord" in dl["default"], "file": file_json(0)})["records"]}
            for rec, _ in recs:     # the operations the record is expected to have
                rec["eq"], rec["ord"] = eff[rec["name"]]["eq"], eff[rec["name"]]["ord"]
        opts = glue.base_options(ctx.tmp / f"dec{pi}" / "out", cpp={"string_serialization": css}, java={"string_serialization": jss}, extra=extra)
        jobs.append((idl, opts))
    for (css, jss, recs, dl), res in zip(progs, glue.generate_many(ctx.tmp / "decgen", jobs, targets=("cpp", "java"))):
        if res["parse"] != "ok":
            raise RuntimeError(f"decision program rejected: {res}")
        by_name = {d["name"]: d for d in res["decls"]}
        infos = [by_name[rec["name"]] for rec, _ in recs]
        dflt = {"defaultEq": "eq" in dl["default"], "defaultOrd": "ord" in dl["default"]} if dl else {}
        reqs = [{"op": "c09.decision", "eq": explicit_of(rec)[0], "ord": explicit_of(rec)[1], **dflt, "nFields": len(rec["fields"]), "cppStringSer": css,
                 "javaStringSer": jss, "cppBase": tg == " +cpp"} for rec, tg in recs]
        freqs = [{"op": "c09.eval", "typename": info.get("type_names", {}).get("cpp_typename", "?"), "values": [],
                  "fields": fields_json(rec, info) if info.get("names") else []} for (rec, tg), info in zip(recs, infos)]
        fmts = ctx.driver.batch(freqs)
        for (rec, tg), info, model, fm in zip(recs, infos, ctx.driver.batch(reqs), fmts):
            if dl:
                ctx.count(key=("decision-layout", tuple(dl["default"]), dl["depth"], rec["level"], tuple(rec["explicit"])), nontrivial=True,
                          sample={"idl": render_record(rec, tg), "default_deriving": dl["default"], "file": LEVEL_FILES[rec["level"]]})
                ctx.stat("decision_layout_cases")
            else:
                ctx.count(key=("decision", rec["eq"], rec["ord"], len(rec["fields"]), css, jss, tg), nontrivial=True,
                          sample={"idl": render_record(rec, tg), "cpp.string_serialization": css})
            ctx.stat("decision_cases")
            if info["errors"]:
                ctx.report("decision:generation-failed", f"record generation failed: {info['errors']}", {"idl": render_record(rec, tg), "errors": info["errors"]})
                continue
            obs = observe_decisions(info)
            if tg == " +java":
                # `+java` only renames the Java class (…Base); the decisions are the same
                pass
            diff = {k: (obs[k], model[k]) for k in model if obs[k] != model[k]}
            if obs["cppDefinesToString"]:
                want = {"format": fm["cppFormat"], "args": [f"::pydjinni::format(value.{a})" for a in fm["cppFormatArgs"]]}
                if obs["cppFormat"] != want:
                    diff["cppFormat"] = (obs["cppFormat"], want)
                missing = [a for a in fm["cppFormatArgs"] if obs["cppFormat"] is None or (a + "={}") not in obs["cppFormat"]["format"]
                           or f"::pydjinni::format(value.{a})" not in obs["cppFormat"]["args"]]
                if missing:
                    report(ctx, "cpp:to_string-misses-field", "the C++ string form does not mention every field",
                           {"input": {"decision": {"rec": rec, "targets": tg, "css": css, "jss": jss, **({"layout": dl} if dl else {})}}, "idl": render_record(rec, tg), "missing": missing, "observed": obs["cppFormat"]})
            if diff:
                breaks.append({"why": "emitted operators / files differ from the model: " + ",".join(diff), "idl": render_record(rec, tg),
                               "cpp.string_serialization": css, "java.string_serialization": jss, "diff": diff, **({"layout": dl, "file": LEVEL_FILES[rec["level"]]} if dl else {})})
            # specification on the observation: what is declared is defined; members come in consistent groups; derived operations exist
            n = len(rec["fields"])
            probs = []
            if obs["cppDeclaresEq"] and not obs["cppDefinesEq"] or obs["cppDeclaresOrd"] and not obs["cppDefinesOrd"]:
                probs.append(("cpp:operator-declared-not-defined", "an operator declared in the header is not defined in the source file"))
            if obs["cppDefinesEq"] and not obs["cppDeclaresEq"] and n == 0:
                probs.append(("cpp:empty-record-eq-body", "operator== is emitted for a record without fields (ill-formed body)"))
            if obs["cppDeclaresToString"] and not obs["cppDefinesToString"]:
                probs.append(("cpp:to_string-declared-not-defined", "to_string is declared (and used by std::formatter) but no source file defines it"))
            if obs["javaHasCompareTo"] != obs["javaImplementsComparable"]:
                probs.append(("java:compareTo-without-comparable", "compareTo is emitted without 'implements Comparable'"))
            if obs["javaHasEquals"] != obs["javaHasHashCode"]:
                probs.append(("java:equals-without-hashcode", "equals and hashCode are not emitted together"))
            if n > 0 and rec["eq"] and not (obs["cppDeclaresEq"] and obs["javaHasEquals"]):
                probs.append(("eq-not-emitted", "deriving(eq) but no ==/equals emitted"))
            if n > 0 and rec["ord"] and not (obs["cppDeclaresOrd"] and obs["javaHasCompareTo"]):
                probs.append(("ord-not-emitted", "deriving(ord) but no </compareTo emitted"))
            for key, what in probs:
                report(ctx, key, what + (f" (generate.default_deriving = {dl['default']}, record in {LEVEL_FILES[rec['level']]} of an import chain of depth {dl['depth']})" if dl else ""),
                       {"input": {"decision": {"rec": rec, "targets": tg, "css": css, "jss": jss, **({"layout": dl} if dl else {})}}, "idl": render_record(rec, tg),
                        "cpp.string_serialization": css, "java.string_serialization": jss, "observed": obs, **({"layout": dl, "file": LEVEL_FILES[rec["level"]]} if dl else {})})
    return breaks


# ---------------------------------------------------------------------------------------------
# the check
# ---------------------------------------------------------------------------------------------

def build_records(ctx):
    r = random.Random(f"{ctx.seed}/c09/records")
    n = ctx.n(18, 400)
    modes = []
    for i in range(n):
        modes.append(["eq", "eqord", "ord", "eq", "eqord", "eq"][i % 6])
    # `finding-optional-binary` is fixed; kept as a regression shape
    modes += ["finding-ord-optional", "finding-ord-bool", "finding-eq-non-eq", "finding-float", "finding-optional-binary"] * ctx.n(1, 4)   # the last one: fixed, kept as a regression shape
    recs = [make_record(r, i, m) for i, m in enumerate(modes)]
    per = ctx.n(11, 25)
    return [recs[i:i + per] for i in range(0, len(recs), per)]


def layout_key(rec, layout):
    k = (tuple(layout["default"]), rec.get("level", layout.get("levels", {}).get(rec["name"], 0)), max([0] + list(layout.get("levels", {}).values())), tuple(explicit_of(rec)))
    return k + (tuple(n for n, _ in rec["fields"]),) if layout.get("names") else k


MODES_FOR_DEFAULT = {(): ["eq", "eqord", "ord"], ("eq",): ["eq", "eqord"], ("ord",): ["ord", "eqord"], ("eq", "ord"): ["eqord"]}


def build_layout_groups(ctx):
    """Programs whose records are spread over imported files (one and two levels of `@import`) under every value of
    `generate.default_deriving`; the records either rely on the default or repeat it in their `deriving(…)`.
    Every program: the nested record types (imported; run themselves) and outer records in the root and in imported files
    that hold them."""
    r = random.Random(f"{ctx.seed}/c09/layouts")
    combos = [(d, depth, repeat) for d in DEFAULTS for depth in (1, 2) for repeat in (False, True)]
    # quick: every non-empty default once without repetition (both depths occur), plus two of the remaining combinations in rotation
    first = [(["eq"], 1, False), (["eq", "ord"], 2, False), (["ord"], 2, False)]
    rest = [c for c in combos if c not in first]
    r.shuffle(rest)
    chosen = first + rest[: ctx.n(1, len(rest))]
    groups = []
    for gi, (default, depth, repeat) in enumerate(chosen):
        levels = {nm: r.randint(1, depth) for nm in INNER}
        levels[r.choice(list(INNER))] = depth
        levels["col"] = r.randint(0, depth)
        inner_explicit = {}
        for nm, inner in INNER.items():
            ex = [inner["eq"], inner["ord"]]
            if not repeat:      # what the configuration supplies is not written again
                ex = [ex[0] and "eq" not in default, ex[1] and "ord" not in default]
            inner_explicit[nm] = ex
        # quick: the imported nested records are run themselves in the first two programs (and in the corpus program); everywhere they are held by the outer records
        layout = {"default": default, "levels": levels, "inner_explicit": inner_explicit, "run_inner": gi < ctx.n(2, len(chosen)), "int_budget": 8}
        recs = []
        for k in range(ctx.n(2, 4)):
            mode = r.choice(MODES_FOR_DEFAULT[tuple(default)])
            rec = make_record(r, k, mode)
            rec["name"] = f"w{gi}_{k}"
            # at least one field of a nested (imported) record type
            types = [t for _, t in rec["fields"]]
            pool = [t for t in (ORD_TYPES if rec["ord"] else EQ_TYPES) if parse_type(t)["k"] == "record" or "in_" in t]
            types[r.randrange(len(types))] = r.choice(pool)
            rec["fields"] = list(zip(FIELD_NAMES, types))
            want = [rec["eq"], rec["ord"]]
            rec["explicit"] = want if repeat else [want[0] and "eq" not in default, want[1] and "ord" not in default]
            # a declaration sees the files its own file imports: it stands at most as deep as the types it holds
            deps = needs(rec) + (["col"] if any("col" in t for t in types) else [])
            rec["level"] = min([r.randint(0, depth)] + [levels[d] for d in deps])
            recs.append(rec)
        groups.append((f"L{gi}", recs, layout))
    return groups


# --- the output directory has a history: generate, edit the declaration, generate again into the same directories

EDITS = ["swap-fields", "swap-field-types", "retype-integer", "rename-field-same-length", "swap-fields-same-type", "swap-deriving", "rename-field", "drop-field", "add-field"]
INT_SAME_WIDTH_NAME = ["i16", "i32", "i64"]          # int16_t / int32_t / int64_t: the C++ files keep their length


def edit_record(r: random.Random, rec: dict, edit: str):
    """the declaration after the edit (same name), or None if this record has no place for it. The first five edits keep
    the length of the generated C++ (and mostly Java) files: lines are permuted or equally long words exchanged."""
    f = list(rec["fields"])
    n = len(f)
    out = {**rec, "fields": f}
    pairs = [(i, j) for i in range(n) for j in range(i + 1, n)]
    if edit == "swap-fields":
        c = [(i, j) for i, j in pairs if f[i][1] != f[j][1]]
        if not c:
            return None
        i, j = r.choice(c)
        f[i], f[j] = f[j], f[i]
    elif edit == "swap-fields-same-type":
        c = [(i, j) for i, j in pairs if f[i][1] == f[j][1]]
        if not c:
            return None
        i, j = r.choice(c)
        f[i], f[j] = f[j], f[i]
    elif edit == "swap-field-types":
        c = [(i, j) for i, j in pairs if f[i][1] != f[j][1]]
        if not c:
            return None
        i, j = r.choice(c)
        f[i], f[j] = (f[i][0], f[j][1]), (f[j][0], f[i][1])
    elif edit == "retype-integer":
        c = [i for i in range(n) if f[i][1] in INT_SAME_WIDTH_NAME]
        if not c:
            return None
        i = r.choice(c)
        f[i] = (f[i][0], r.choice([t for t in INT_SAME_WIDTH_NAME if t != f[i][1]]))
    elif edit in ("rename-field-same-length", "rename-field"):
        free = [x for x in FIELD_NAMES + ["h", "k2", "m_y", "nn"] if x not in [a for a, _ in f]]
        i = r.randrange(n)
        c = [x for x in free if (len(x) == len(f[i][0])) == (edit == "rename-field-same-length") and ("_" in x) == ("_" in f[i][0])]
        if not c:
            return None
        f[i] = (r.choice(c), f[i][1])
    elif edit == "swap-deriving":
        ord_ok = all(t in ORD_TYPES for _, t in f)
        c = [x for x in [(True, False), (False, True), (True, True)] if x != (rec["eq"], rec["ord"]) and (ord_ok or not x[1])]
        if not c:
            return None
        out["eq"], out["ord"] = r.choice(c)
    elif edit == "drop-field":
        if n < 2:
            return None
        del f[r.randrange(n)]
    elif edit == "add-field":
        free = [x for x in FIELD_NAMES if x not in [a for a, _ in f]]
        if not free:
            return None
        f.insert(r.randrange(n + 1), (free[0], r.choice(ORD_TYPES if rec["ord"] else EQ_TYPES)))
    else:
        raise ValueError(edit)
    return out


def build_regen_groups(ctx):
    """Programs of records that are generated, edited (one edit per record, every edit of `EDITS` in rotation) and generated
    again into the same output directories — by a new API object (a second run of the tool) or by the configured context of
    the first run. What the compiled drivers are built from and judged by is the *edited* declaration."""
    r = random.Random(f"{ctx.seed}/c09/regen")
    groups = []
    # quick: one program — the five edits that keep the length of the generated files, and two of the four others in rotation
    nprog = ctx.n(1, 6)
    plan = EDITS[:5] + [EDITS[5 + (2 * ctx.seed + d) % 4] for d in (0, 1)] if ctx.quick else EDITS
    per = len(plan)
    k = 0
    for gi in range(nprog):
        before, after, edits = [], [], {}
        tries = 0
        while len(after) < per and tries < 200:
            tries += 1
            edit = plan[(k + gi) % len(plan)]
            rec = make_record(r, 0, ["eqord", "eq", "ord"][tries % 3])
            if edit == "swap-fields-same-type" and len(rec["fields"]) >= 2:      # two fields of one (ordered) type
                i, j = r.sample(range(len(rec["fields"])), 2)
                rec["fields"][j] = (rec["fields"][j][0], rec["fields"][i][1])
            rec["name"] = f"z{gi}_{len(after)}"
            if clauses_of(rec):
                continue
            rec2 = edit_record(r, rec, edit)
            if rec2 is None or clauses_of(rec2):
                continue
            before.append(rec)
            after.append(rec2)
            edits[rec["name"]] = edit
            k += 1
        groups.append((f"R{gi}", after, {"regen": {"before": before, "edits": edits, "same_context": (gi + ctx.seed) % 2 == 1}, "int_budget": 6, "tuples": 6}))
    return groups


def regen_worker(args):
    """First run for `idl1` (parse, generate C++ and Java), then `idl2` written over the same file and a second run into
    the same output directories (`same_context`: the configured context of the first run parses again; otherwise a new API
    object, as a second run of the tool would be). Returns, shaped like `glue.generate_per_decl`'s result, the declarations of the
    second parse with the files that are *on disk* at the paths their marshalling objects name."""
    workdir, idl1, idl2, options, same_context = args
    import os
    import traceback
    from pydjinni import API
    from pydjinni.exceptions import ApplicationException, ApplicationExceptionList
    from pydjinni.parser.ast import Enum, Record
    workdir = Path(workdir)
    workdir.mkdir(parents=True, exist_ok=True)
    idl = workdir / "m.djinni"
    cwd = os.getcwd()
    os.chdir(workdir)
    try:
        idl.write_text(idl1)
        cctx = API().configure(options=options)
        g1 = cctx.parse(idl)
        for t in ("cpp", "java"):
            g1.generate(t)
        idl.write_text(idl2)
        if not same_context:
            cctx = API().configure(options=options)
        g2 = cctx.parse(idl)
        errors = {}
        for t in ("cpp", "java"):
            try:
                g2.generate(t)
            except Exception as e:
                errors[t] = type(e).__name__ + ": " + str(e)[:160]
        out_root = Path(options["generate"]["cpp"]["out"]).parent
        tree = {sub: glue.snapshot(out_root / sub) for sub in ("cpp", "java", "jni")}
        decls = []
        for d in g2.defs:
            info = {"name": str(d.name), "kind": type(d).__name__.lower(), "errors": dict(errors), "names": {}, "files": {}}
            for sub in ("cpp", "java", "jni"):
                m = getattr(d, sub, None)
                paths = [str(x) for x in (getattr(m, "header", None), getattr(m, "source", None)) if x]
                info["files"][sub] = {pth: tree[sub][pth] for pth in paths if pth in tree[sub]}
            if isinstance(d, Enum):
                info["names"] = {"cpp": [str(i.cpp.name) for i in d.items], "java": [str(i.java.name) for i in d.items]}
                info["type_names"] = {"cpp": str(d.cpp.name), "java": str(d.java.name), "cpp_typename": str(d.cpp.typename)}
            if isinstance(d, Record):
                info["names"] = {"cpp": [str(f.cpp.name) for f in d.fields], "java": [str(f.java.name) for f in d.fields]}
                info["type_names"] = {"cpp": str(d.cpp.name), "java": str(d.java.name), "cpp_typename": str(d.cpp.typename),
                                      "java_typename": str(d.java.typename), "cpp_header": str(d.cpp.header)}
                info["deriving"] = sorted(str(getattr(x, "value", x)) for x in d.deriving)
            decls.append(info)
        return {"parse": "ok", "decls": decls}
    except (ApplicationException, ApplicationExceptionList) as e:
        return {"parse": type(e).__name__, "diags": [traceback.format_exc()[-800:]], "decls": []}
    except Exception:
        return {"parse": "harness-error", "diags": [traceback.format_exc()[-1500:]], "decls": []}
    finally:
        os.chdir(cwd)


def regenerate_many(base: Path, jobs):
    """jobs: [(idl1, idl2, options, same_context)] -> results shaped like `glue.generate_many`'s"""
    import multiprocessing as mp
    if not jobs:
        return []
    import pydjinni  # noqa: F401
    args = [(str(base / f"r{i}"), a, b, o, sc) for i, (a, b, o, sc) in enumerate(jobs)]
    with mp.get_context("fork").Pool(max(1, min(12, len(args)))) as pool:
        return pool.map(regen_worker, args, chunksize=1)


# --- field names taken from the generated code itself

NAME_PROBE = PRELUDE + """zq_all = record { zq0: i32; zq1: string; zq2: i32?; zq3: col; zq4: in_a; zq5: binary; zq6: list<i32>; zq7: i64; zq8: bool; zq9: string?; zq10: in_a?; } deriving(eq)
zq_ord = record { zq0: i32; zq1: string; zq3: col; zq4: in_a; zq7: i64; } deriving(eq, ord)
"""
NAME_EQ_KINDS = ["i32?", "string", "i32", "i64", "col", "in_a?", "binary", "list<string>", "in_a", "string?", "bool", "col?"]
NAME_ORD_KINDS = ["string", "i32", "in_a", "col", "i64"]


def snake(tok: str) -> str:
    return re.sub(r"(?<=[a-z0-9])([A-Z])", lambda m: "_" + m.group(1).lower(), tok).lower()


def simple_name_uses(tl):
    """indices of the identifier tokens that are simple names (not a member selected after `.` / `::` / `->`)"""
    return [i for i, (k, t) in enumerate(tl) if k == "id" and (i == 0 or tl[i - 1][1] not in (".", "::", "->"))]


def type_position_names(tl) -> set:
    """simple names used as a type: directly followed by a declarator name or closing a template argument (`int32_t x`, `optional<int32_t>`)"""
    return {tl[i][1] for i in simple_name_uses(tl) if i + 1 < len(tl) and (tl[i + 1][1] in (">", ">>") or
            (tl[i + 1][0] == "id" and i + 2 < len(tl) and tl[i + 2][1] in (";", ",", ")", "=", "(", "[", "{")))}


def java_expression_roots(tl) -> set:
    """first components of qualified class names that Java code mentions in an expression (`java.util.Arrays.equals(…)`:
    root . name … . Capitalised . method `(`): a variable in scope with that name obscures the package (JLS 6.4.2)"""
    out = set()
    for i in simple_name_uses(tl):
        j, seen_class = i, False
        while j + 2 < len(tl) and tl[j + 1][1] == "." and tl[j + 2][0] == "id":
            j += 2
            if tl[j][1][0].isupper():
                seen_class = True
            elif seen_class:
                if j + 1 < len(tl) and tl[j + 1][1] == "(" and not tl[i][1][0].isupper():
                    out.add(tl[i][1])
                break
    return out


def name_clauses(rec, info) -> list[str]:
    """shape clauses of the known findings about field names, read off the record's own generated code"""
    cl = []
    hdr = [glue.tokenize(t) for pth, t in info["files"].get("cpp", {}).items() if not pth.endswith(".cpp") and "pydjinni/" not in pth]
    if set(info["names"]["cpp"]) & set().union(*[type_position_names(tl) for tl in hdr] or [set()]):
        cl.append("cpp-field-is-emitted-type-name")
    jav = [glue.tokenize(t, lang="java") for pth, t in info["files"].get("java", {}).items() if "pydjinni/" not in pth]
    if set(info["names"]["java"]) & set().union(*[java_expression_roots(tl) for tl in jav] or [set()]):
        cl.append("java-field-obscures-qualified-name")
    return cl


def body_identifiers(ctx) -> dict:
    """{"names": {IDL field name: [tokens it was derived from]}, "hazard": [names of the two known-finding classes]} — every identifier that the *generated* record code (the C++ header and
    source, the Java class; all operations, both string serialisations on) uses as a simple name — parameters and locals
    of the emitted bodies (`other`, `obj`, `lhs`, `rhs`, `value`, `hashCode`, `tempResult`, …), roots of the qualified names
    they mention (`java`, `std`, the package), called functions — turned into the IDL spelling whose target name is that
    identifier, and accepted as a field name by the real front end (reserved words of C++ / Java are refused there).
    Member names after `.` / `::` / `->` belong to another scope and are left out, so are the probe's own names."""
    opts = glue.base_options(ctx.tmp / "nprobe" / "out", cpp={"string_serialization": True}, java={"string_serialization": True})
    res = glue.generate_many(ctx.tmp / "nprobe_gen", [(NAME_PROBE, opts)], targets=("cpp", "java"))[0]
    if res["parse"] != "ok":
        raise RuntimeError(f"name probe rejected: {res}")
    own, toks, special = set(), {}, set()
    for info in res["decls"]:
        own |= {info["name"]} | set(info.get("type_names", {}).values())
        for lst in info.get("names", {}).values():
            own |= set(lst)
    for info in res["decls"]:
        if not info["name"].startswith("zq_"):
            continue
        for sub, lang in (("cpp", "c"), ("java", "java")):
            for pth, text in info["files"].get(sub, {}).items():
                if "pydjinni/" in pth:          # support files, not record code
                    continue
                tl = glue.tokenize(text, lang=lang)
                special |= {snake(t) for t in type_position_names(tl) | (java_expression_roots(tl) if lang == "java" else set())}
                for i in simple_name_uses(tl):
                    t = tl[i][1]
                    if t not in own and not t[0].isupper() and not re.fullmatch(r"get[A-Z]\w*|zq\w*", t):
                        toks.setdefault(snake(t), set()).add(t)
    cands = sorted(toks)
    o2 = behaviour_options(ctx, "nprobe2", None, all_targets=False)
    probes = glue.generate_many(ctx.tmp / "nprobe2_gen", [(f"p = record {{ {n}: i32; }} deriving(eq)\n", o2) for n in cands], targets=())
    out = {}
    for n, pr in zip(cands, probes):
        ok = pr["parse"] == "ok" and pr["decls"] and not pr["decls"][0]["errors"] and pr["decls"][0]["names"].get("java")
        ctx.stat("name_candidates_" + ("accepted" if ok else "refused_by_front_end"))
        if ok:
            out[n] = sorted(toks[n])
    # names the generated code uses as a *type* (`int32_t`) or as the root of a qualified class name in an expression (`java`):
    # the two known findings about field names; they get records of their own
    return {"names": out, "hazard": sorted(n for n in out if n in special)}


def build_name_groups(ctx, found: dict):
    """Every candidate name on a field of every kind (optional / primitive / string / enum / record / collection / binary):
    records deriving eq over all kinds, records deriving eq and ord over the ord-eligible kinds; consecutive
    (name, kind) pairs so that the fields of one record have different names. The names of the known-finding classes
    stand alone among neutral names (quick: on the first kind, thorough: on every kind)."""
    r = random.Random(f"{ctx.seed}/c09/names")
    names = [n for n in sorted(found["names"]) if n not in found["hazard"]]
    r.shuffle(names)
    if len(names) < 2:
        return []
    groups, recs = [], []
    for h in found["hazard"]:
        kinds = NAME_EQ_KINDS[:8]
        for shift in range(ctx.n(1, len(kinds))):
            fields = [(h if j == 0 else FIELD_NAMES[j - 1], kinds[(shift + j) % len(kinds)]) for j in range(len(kinds))]
            recs.append({"name": f"nm{len(recs)}", "fields": fields, "eq": True, "ord": False})
    for mode, kinds, per in (("eq", NAME_EQ_KINDS, 8), ("eqord", NAME_ORD_KINDS, 6)):
        kinds = kinds[: ctx.n(8 if mode == "eq" else 3, len(kinds))]       # quick: the first kinds (every branch of the per-field Java expressions)
        pairs = [(names[i], kinds[(i + shift) % len(kinds)]) for shift in range(len(kinds)) for i in range(len(names))]
        per = min(per, len(names))
        for c in range(0, len(pairs), per):
            chunk = pairs[c:c + per]
            if len({n for n, _ in chunk}) < len(chunk):          # the tail wrapped around: keep the first occurrence of a name
                seen, ch2 = set(), []
                for n, t in chunk:
                    if n not in seen:
                        seen.add(n)
                        ch2.append((n, t))
                chunk = ch2
            recs.append({"name": f"nm{len(recs)}", "fields": chunk, "eq": True, "ord": mode == "eqord"})
    per_group = 12
    for gi in range(0, len(recs), per_group):
        groups.append((f"N{gi // per_group}", recs[gi:gi + per_group],
                       {"default": [], "levels": {}, "two_targets": True, "names": True, "int_budget": 4, "tuples": 5}))
    return groups


def build_class_groups(ctx):
    """Run-time class stream: records whose Java class can be extended — `record +java` base records (generated
    `<Name>Base`, user class `<Name>`) under the default configuration and under `java.use_final_for_record: false`, and
    ordinary records under `use_final_for_record: false` — deriving eq / ord / both; the value tuples (two equal ones
    first) are spread over instances of the generated class, a trivial user subclass and anonymous subclasses."""
    r = random.Random(f"{ctx.seed}/c09/classes")
    out = []
    fixed = [{"name": "ticket", "fields": [("a", "i32"), ("b_two", "string"), ("c", "col"), ("dd", "string")], "eq": True, "ord": True, "base": True},
             {"name": "badge", "fields": [("a", "i64"), ("b_two", "in_a")], "eq": True, "ord": False, "base": True}]
    for gi, (java_final, base_share) in enumerate([(None, 1.0), (False, 0.4)]):
        recs = list(fixed) if gi == 0 else []
        for i in range(ctx.n(4, 30)):
            rec = make_record(r, 700 + 100 * gi + i, ["eqord", "eq", "ord", "eqord"][i % 4])
            rec["name"] = f"k{gi}_{i}"
            if r.random() < base_share:
                rec["base"] = True
            recs.append(rec)
        layout = {"java_final": java_final if java_final is not None else True, "default": [], "tuples": ctx.n(7, 9)}
        out.append((f"K{gi}", recs, layout))
    return out


def corpus_records():
    f = Path(__file__).resolve().parent.parent.parent / "corpus" / "c09.json"
    if not f.exists():
        return []
    return [{"name": e["name"], "fields": [tuple(x) for x in e["fields"]], "eq": e["eq"], "ord": e["ord"]} for e in json.loads(f.read_text()) if "layout" not in e]


def corpus_layout_groups():
    """corpus entries of the layout class: {"layout": {...}, "records": [{name, fields, eq, ord, explicit, level}]}"""
    f = Path(__file__).resolve().parent.parent.parent / "corpus" / "c09.json"
    if not f.exists():
        return []
    out = []
    for k, e in enumerate(x for x in json.loads(f.read_text()) if "layout" in x):
        recs = [{**r, "fields": [tuple(x) for x in r["fields"]]} for r in e["records"]]
        out.append((f"C{k}", recs, e["layout"]))
    return out


def run(ctx):
    ctx.coverage["rule"] = ("records with 1..5 fields over integers, bool, string, enum, nested records, optionals, lists, binary; deriving eq / ord / both; "
                            "7 (9) random value tuples per record plus, per integer field, copies of the base tuple with adjacent / far-apart values at the extremes and at powers of two (i64: beyond 2^53), all ordered pairs; distinct = distinct (deriving, field type list); plus all 144 combinations of "
                            "deriving x field count x string_serialization x base-record flags for the emission decisions, plus default_deriving (4) x import depth (0..2) x file level x explicit deriving (96); "
                            "regeneration stream: 7 (54) records generated, edited (9 kinds of edit, 5 of them length-preserving) and generated again into the same directories; every object's fields are read back by name; "
                            "layout stream: every non-empty default_deriving over one / two @import levels (distinct adds default, file level, depth, explicit deriving); name stream: every simple name of the generated record code "
                            "x field kind (distinct adds the field names); evaluations = comparisons run")
    ctx.assumptions += [
        "string values are ASCII (C++ compares bytes, Java UTF-16 units); floating-point fields are not drawn (NaN / signed zero are outside a linear order)",
        "the run-time class of a Java object is not an input of the model: `c09.eval` / `c09.spec` are functions of the field values; for record classes that can be extended the driver compares instances of the generated class, of a user subclass without state and of anonymous subclasses (all satisfy the `instanceof` prologue); objects of unrelated classes and `null` are not compared",
        "records without fields get no operators in any target (the templates' `and type_def.fields` guards): nothing to run",
        "nested record values enter the outer record's model as atoms whose order, hash and string form come from the model's evaluation of the nested record",
        "C++ to_string needs <format> (absent in g++ 12): compared as emitted / not emitted only",
        "name stream: only the C++ / Java / JNI targets are configured (a name reserved in Objective-C or C++/CLI is not refused); field identifier styles are the defaults (Java camelCase, C++ snake_case)",
        "regeneration stream: two generations (before / after one edit per record), C++ and Java targets, records without known-finding shapes",
        "files of a layout form a chain (root imports sub/l1.djinni imports sub/deep/l2.djinni); a record stands at most as deep as the types it holds",
    ]
    breaks = []
    import time
    t0 = time.time()
    breaks += decisions(ctx)
    ctx.stats["t_decisions_s"] = round(time.time() - t0, 1)
    groups = build_records(ctx)
    corp = corpus_records()
    if corp:
        groups = [corp] + groups
    t0 = time.time()
    names = body_identifiers(ctx)
    ctx.stats["body_identifier_names"] = names
    ctx.stats["t_names_probe_s"] = round(time.time() - t0, 1)
    t0 = time.time()
    breaks += behaviour(ctx, [(f"g{gi}", recs) for gi, recs in enumerate(groups)] + corpus_layout_groups() + build_layout_groups(ctx) + build_name_groups(ctx, names) + build_regen_groups(ctx) + build_class_groups(ctx))
    ctx.stats["t_behaviour_s"] = round(time.time() - t0, 1)
    ctx.stats["correspondence_breaks"] = len(breaks)
    if breaks and not ctx.violations:
        ctx.report("correspondence", "record model and compiled implementation disagree; the specification holds on every observed result",
                   {"correspondence": "c09.eval / c09.decision vs compiled C++ and Java", "first": breaks[0], "count": len(breaks)}, no_failing_input=True)
    elif breaks:
        ctx.stats["correspondence_first"] = breaks[0]["why"]


def replay(ctx, body):
    inp = body["input"]
    before = len(ctx.violations) + sum(ctx.known_hits.values())
    if "decision" in inp:
        breaks = decisions(ctx, only=inp["decision"])
    else:
        recs = [{"name": e["name"], "fields": [tuple(x) for x in e["fields"]], "eq": e["eq"], "ord": e["ord"]} for e in inp["records"]]
        for rec, e in zip(recs, inp["records"]):
            rec.update({k: e[k] for k in ("explicit", "level", "base") if k in e})
        fixed = {"pools": inp["pools"], "tuples": inp["tuples"]} if "pools" in inp else None
        layout = {**inp["layout"], "run_inner": False} if inp.get("layout") else None      # the recorded tuples belong to the recorded record only
        breaks = behaviour(ctx, [("replay1", recs, layout)], fixed)
    print(json.dumps({"breaks": breaks[:2], "violations": ctx.violations[:5]}, indent=1)[:3000])
    return len(ctx.violations) + sum(ctx.known_hits.values()) == before and not breaks
