"""C14 — files land where configured and the processed-files report is exact.

Proof: `Props/C14.lean` over the models `Gen/Paths.lean` (pathlib join, `header/source` names of every
generator, the extra files of the JNI/Java/Objective-C generators, YAML) and `Sys/Files.lean`
(`FileReaderWriter` as a state machine, report, `clean`, one whole run).

Tie (every run): real `API` runs in fresh processes (`sysworker.py`) over generated programs x output
directory spellings (relative, `./x/`, nested, absolute, split header/source, mixed) x working
directories x IDL path spellings x report formats (yaml/yml/json/toml) x `clean` with pre-existing
files inside and outside the output directories. Observation: the `PYDJINNI_VERIF=1` write log,
the parsed report, directory snapshots before/after. Compared with the model's predicted log, report
and file set (`c14.run`, fed with the declarations as the real parser produced them and the
configuration as the real validation produced it).

Sibling output directories (`sibling` stream): several generators in ONE run whose output directories stand next to
each other under names that are string prefixes of one another (`gen/cpp` / `gen/cppcli` / `gen/cppcli2`, `out` /
`out_jni`, `gen/include` / `gen/include_jni`, a generator's own header / source split), relative / absolute / `./x/`
spellings, `clean` on, stale files in every directory, and every target list in both orders. "Below a directory" is a
relation on path components (`under_sibling`, `rmtree_keeps_sibling`; `text_prefix_is_not_under` is the counterexample
for a test on the spelling); clause 6 of `c14.spec` compares the report with the files on disk per generator
(`genStep_clean_disk_eq_writes`).

Input files behind symbolic links (`links` stream): workspaces in which the directory of the root IDL, a directory in
the middle of an import path or an include directory is a symbolic link, with `@import` / `@extern` / IDL / include
paths containing `..` behind such a link (two-level import chains: what is imported *from* such a file inherits the
spelling), decoy files at the lexically normalised location, and the two controls (links without `..`, `..` without
links). The harness computes the files read with a walk of its own (`LinkFS.phys`, the documented search order); the
specification takes an entry for the file it *denotes* (`Sys/Files.lean: phys`, the operating system's walk through the
declared links; `phys_nil`: without links it is the lexical `resolve`; `normpath_changes_denotation`), and the worker
reports what `os.path.realpath` says about every entry and which files below the sandbox were opened during `parse`
(audit hook): entries exist, denote exactly the files read, each once, and these are the files opened.

Several contexts of one API object (the generator instances are shared): streams of interleaved
parse / generate (clean on/off) / report calls over two configurations with disjoint output directories
(relative / absolute / split spellings mixed), observed call by call (write log slice, snapshot diff).
Specification per call (`c14.callspec`, Lean) = the C14 statement for the context the call belongs to:
every write below the output directories of *that* context's generators of the target, the report at
*that* context's report path, nothing else created / changed / deleted, `clean` purges exactly these
directories; the model (`c14.run` for the one target, from the files present before the call) predicts
the call's write log and the files afterwards. `api_generate_lands_in_own_dirs` (Props/C14.lean) is the
theorem: from any state of the API object, `generate` writes `<directory of the generating context>/<name>`.

Configuration file plus overriding options (`override` stream): the run is configured from a file (yaml / yml / json / toml,
relative / in a sub directory / absolute) AND options — through `API.configure(path, options=…)` and through the real command
line (`pydjinni --config f -o generate.cpp.out=… generate [--clean] idl targets…`, a process of its own, write log through
`$PYDJINNI_VERIF_WRITELOG`). For every generator of the run the options may change the *shape* of `out` (split mapping -> one
directory, one directory -> mapping, one key of the mapping, mapping -> mapping, directory -> directory), of `identifier.file`
(style + prefix mapping <-> plain style name), and move the report. The effective configuration is the model's merge
(`Sys/Config.lean: combine`, asked through `c17.merge`; `merge_override`, `merge_keeps`, `override_single_dir_wins`,
`override_split_dir_wins`): a second context is configured from the merged mapping alone, its validated dump has to equal the
one of the file + options context (`override:not-effective:<what>`), and `c14.spec` / `c14.run` are evaluated against IT —
files, `clean` and the report follow the effective directories; the directories the file named and the options replaced hold
stale files that nobody may touch.

Generate -> purge -> generate (`regen` stream): ONE context of one API object runs two or three rounds of parse + generate
(all targets) + report; between the rounds the output is purged by `clean=True` (what the language server does on every
save), by the user removing the output directories, by the user removing *some* generated files, or not at all; the IDL only
grows. Every call is checked as in the multi-context stream (`c14.callspec`, `c14.run` per call); the whole history is ONE
observation for `c14.spec` (all writes, files at the end vs. files at the beginning, the last report, inputs = the reads of
every parse): every listed file exists afterwards, the report is the write log, and below purged directories nothing but
listed files remains (`history:<clause>`).

Specification on the implementation's observation (`c14.spec`, Lean): every write below a configured
output directory (not `<out>/<out>/…`), nothing else created/changed, deletions only by `clean` below
the cleaned directories, report == write log per generator with its directories, inputs == root ∪
transitive imports ∪ @extern files (from the import graph the harness built; an entry stands for the file it denotes,
by the model's walk and by `os.path.realpath` in the worker), every listed file exists afterwards and with `clean` a
generator's section lists all files below its directories, report validates against the published
`API().processed_files_model` and parses in its format.
"""
from __future__ import annotations

import json
import os
import random
import re

import sysgen

LEAN_MODULE = "PydjinniModel.Props.C14"
THEOREMS = [
    "Pydjinni.GenC.join_rel_parts",
    "Pydjinni.GenC.genRel_relative",
    "Pydjinni.GenC.writes_under_out",
    "Pydjinni.GenC.no_double_prefix",
    "Pydjinni.GenC.legacy_loader_doubled",
    "Pydjinni.SysC.norm_append_clean",
    "Pydjinni.SysC.resolve_under_out",
    "Pydjinni.SysC.run_header",
    "Pydjinni.SysC.run_source",
    "Pydjinni.SysC.report_eq_log",
    "Pydjinni.SysC.report_keys_exact",
    "Pydjinni.SysC.report_inputs_exact",
    "Pydjinni.SysC.log_exact",
    "Pydjinni.SysC.clean_only_out_dirs",
    "Pydjinni.SysC.genStep_preserves_outside",
    "Pydjinni.SysC.runTargets_preserves_outside",
    "Pydjinni.SysC.runTargets_creates_only_writes",
    "Pydjinni.SysC.under_sibling",
    "Pydjinni.SysC.rmtree_keeps_sibling",
    "Pydjinni.SysC.text_prefix_is_not_under",
    "Pydjinni.SysC.genStep_clean_disk_eq_writes",
    "Pydjinni.SysC.phys_nil",
    "Pydjinni.SysC.physResolve_nil",
    "Pydjinni.SysC.report_inputs_denote_reads",
    "Pydjinni.SysC.normpath_changes_denotation",
    "Pydjinni.SysC.generateGens_files",
    "Pydjinni.SysC.api_generate_lands_in_own_dirs",
    "Pydjinni.SysC.api_generate_under_own_out",
    "Pydjinni.SysC.legacy_generate_lands_in_foreign_dir",
    "Pydjinni.Sys.merge_override",
    "Pydjinni.Sys.merge_keeps",
    "Pydjinni.Sys.override_single_dir_wins",
    "Pydjinni.Sys.override_split_dir_wins",
]
LEVEL = "proof"
TRUSTED = ["sysworker.py adapter: dumps of the validated configuration and of the parser's declaration list are the model's inputs",
           "support-library file listing read from the implementation's own directories (copy order is os.scandir order: compared as sets)"]

FORMATS = ["yaml", "yml", "json", "toml"]
CWDS = [".", "proj", "work/deep"]


def dfs_order(root, imports):
    seen = [root]

    def go(u):
        for v in imports.get(u, []):
            if v not in seen:
                seen.append(v)
                go(v)
    go(root)
    return seen


def rootrel(cwd, spelled):
    """sandbox-root-relative location of a configured path"""
    if spelled.startswith("{ROOT}/"):
        return os.path.normpath(spelled[len("{ROOT}/"):])
    return os.path.normpath(os.path.join(cwd, spelled))


def out_dirs(cwd, opts):
    ds = []
    for k, c in opts["generate"].items():
        if isinstance(c, dict) and "out" in c:
            o = c["out"]
            ds += [rootrel(cwd, x) for x in ([o] if isinstance(o, str) else [o["header"], o["source"]])]
    return ds


def make_case(seed_key: str, tier_quick: bool, forced=None):
    r = random.Random(seed_key)
    forced = forced or {}
    multi = r.random() < 0.45
    ext = r.random() < 0.35
    pg = sysgen.ProgGen(r, stress=r.choice(["plain", "plain", "mixed"]), multi_file=multi, with_extern=ext, max_decls=r.choice([2, 4, 6]))
    prog = pg.program()
    cwd = forced.get("cwd", r.choice(CWDS))
    nt = r.choice([1, 1, 2, 3])
    targets = r.sample(sysgen.TARGETS, nt)
    if forced.get("targets"):
        targets = forced["targets"]
    fmt = forced.get("fmt", r.choice(FORMATS))
    rep_kind = r.choice(["rel", "sub", "abs"])
    report = {"rel": f"processed.{fmt}", "sub": f"reports/out/files.{fmt}", "abs": "{ROOT}/abs_report." + fmt}[rep_kind]
    out_kind = forced.get("out_kind", r.choice(sysgen.OUT_KINDS))
    inc = os.path.relpath("inc", cwd) if r.random() < 0.6 else "{ROOT}/inc"
    opts = sysgen.make_options(r, targets, out_kind=out_kind, naming=r.choice(["default", "default", "random"]), report=report, include_dirs=[inc])
    clean = forced.get("clean", r.random() < 0.5)
    idl = os.path.relpath(prog["root"], cwd) if r.random() < 0.6 else "{ROOT}/" + prog["root"]
    pre = standard_pre(cwd, opts)
    calls = [{"op": "parse", "ctx": 0, "idl": idl}] + [{"op": "generate", "gc": 0, "target": t, "clean": clean} for t in targets] + [{"op": "report", "gc": 0}]
    job = {"files": prog["files"], "pre": pre, "cwd": cwd, "contexts": [opts], "calls": calls, "snapshot": True}
    meta = {"out_kind": out_kind, "cwd": cwd, "fmt": fmt, "report": rep_kind, "clean": clean, "targets": targets, "idl_abs": idl.startswith("{ROOT}"),
            "features": prog["features"], "reads": dfs_order(prog["root"], prog["imports"]), "exts": prog["externs"]}
    return job, meta


def standard_pre(cwd, opts):
    """pre-existing files: inside every output directory, next to them (sharing a name prefix), elsewhere"""
    pre = {"README.txt": "keep me", "proj/notes.txt": "keep me too", "gen/keep.txt": "outside"}
    ds = out_dirs(cwd, opts)
    for d in ds:
        pre[f"{d}/stale_{len(pre)}.hpp"] = "stale"
        pre[f"{d}/old/deep/stale.txt"] = "stale"
        if not any(o == d + "x" or o.startswith(d + "x/") for o in ds):
            pre[f"{d}x/sibling.txt"] = "sibling of an output directory"
        pre[f"{os.path.dirname(d) or '.'}/beside_{len(pre)}.txt"] = "beside"
    return pre


# ---------------------------------------------------------------------------------------------------
# sibling output directories whose names are string prefixes of one another
# ---------------------------------------------------------------------------------------------------

SIB_BASES = ["gen/cpp", "gen/include", "out", "out/x", "build/gen_a/src", "gen/objc"]
SIB_SUFFIXES = ["cli", "2", "_jni", "-swift", "_h", ".d", "pp"]
SIB_SPELLINGS = ["rel", "rel", "abs", "dotrel", "mixed"]


def sibling_outs(r: random.Random, opts: dict, spelling: str):
    """gives every generator section of `opts` an output directory (or a header and a source directory) out of ONE family
    of sibling names: `chain`: each name is a string prefix of the next (`gen/cpp`, `gen/cppcli`, `gen/cppcli2`, …),
    `star`: one short name and extensions of it (`out`, `out_jni`, `out2`, …). Which generator gets which name is random.
    -> the family (for the statistics)"""
    gen = opts["generate"]
    keys = [k for k, c in gen.items() if isinstance(c, dict) and "out" in c]
    r.shuffle(keys)
    slots = []
    for k in keys:
        if k not in ("java", "yaml") and r.random() < 0.35:
            slots += [(k, "header"), (k, "source")]
        else:
            slots.append((k, None))
    if r.random() < 0.3:
        r.shuffle(slots)            # a generator's own two directories need not be neighbours in the family
    base = r.choice(SIB_BASES)
    chain = r.random() < 0.6
    sufs = r.sample(SIB_SUFFIXES, len(SIB_SUFFIXES))
    names, cur = [], base
    for i in range(len(slots)):
        if i == 0:
            names.append(base)
        elif chain:
            cur = cur + sufs[(i - 1) % len(sufs)]
            names.append(cur)
        else:
            names.append(base + sufs[(i - 1) % len(sufs)] + ("" if i - 1 < len(sufs) else str(i)))
    order = list(range(len(slots)))
    r.shuffle(order)                # which slot gets the shortest name

    def sp(name):
        k = spelling if spelling != "mixed" else r.choice(["rel", "abs", "dotrel"])
        return {"rel": name, "abs": "{ROOT}/" + name, "dotrel": "./" + name + "/"}[k]
    outs: dict = {}
    for (k, kind), j in zip(slots, order):
        if kind is None:
            outs[k] = sp(names[j])
        else:
            outs.setdefault(k, {})[kind] = sp(names[j])
    for k, o in outs.items():
        gen[k]["out"] = o
    return {"base": base, "shape": "chain" if chain else "star", "names": len(names)}


def make_sibling_case(seed_key: str, reverse: bool):
    """several generators in one run, output directories out of one family of prefix-related sibling names; the same
    configuration is run with the target list and with its reverse (`reverse`)"""
    r = random.Random(seed_key)
    pg = sysgen.ProgGen(r, stress="plain", multi_file=r.random() < 0.2, max_decls=r.choice([2, 3, 4]))
    prog = pg.program()
    cwd = r.choice(CWDS)
    targets = r.sample(sysgen.TARGETS, r.choice([2, 2, 3, 4]))
    fmt = r.choice(FORMATS)
    rep_kind = r.choice(["rel", "sub", "abs"])
    report = {"rel": f"processed.{fmt}", "sub": f"reports/out/files.{fmt}", "abs": "{ROOT}/abs_report." + fmt}[rep_kind]
    inc = os.path.relpath("inc", cwd) if r.random() < 0.6 else "{ROOT}/inc"
    opts = sysgen.make_options(r, targets, out_kind="rel", naming=r.choice(["default", "default", "random"]), report=report, include_dirs=[inc])
    spelling = r.choice(SIB_SPELLINGS)
    fam = sibling_outs(r, opts, spelling)
    clean = r.random() < 0.85
    idl = os.path.relpath(prog["root"], cwd) if r.random() < 0.6 else "{ROOT}/" + prog["root"]
    if reverse:
        targets = targets[::-1]
    calls = [{"op": "parse", "ctx": 0, "idl": idl}] + [{"op": "generate", "gc": 0, "target": t, "clean": clean} for t in targets] + [{"op": "report", "gc": 0}]
    job = {"files": prog["files"], "pre": standard_pre(cwd, opts), "cwd": cwd, "contexts": [opts], "calls": calls, "snapshot": True}
    meta = {"out_kind": f"sibling:{fam['shape']}:{spelling}", "cwd": cwd, "fmt": fmt, "report": rep_kind, "clean": clean, "targets": targets,
            "idl_abs": idl.startswith("{ROOT}"), "features": prog["features"] + [f"sibling-base:{fam['base']}", "reversed" if reverse else "forward"],
            "reads": dfs_order(prog["root"], prog["imports"]), "exts": prog["externs"], "stream": "sibling"}
    return job, meta


# ---------------------------------------------------------------------------------------------------
# input files behind symbolic links
# ---------------------------------------------------------------------------------------------------

class LinkFS:
    """The harness's own picture of a sandbox with symbolic links to directories: regular files by their link-free
    sandbox-relative path, links (link-free path of the link -> link-free path of the directory it points to), and
    the walk the operating system makes (`..` leaves the directory *reached*)."""

    def __init__(self, links=None):
        self.files: dict[str, str] = {}
        self.links: dict[str, str] = dict(links or {})

    @staticmethod
    def parts(s: str) -> list[str]:
        return [c for c in s.split("/") if c not in ("", ".")]

    def phys(self, parts: list[str], dirs: set | None = None):
        """`dirs` given: every directory stepped through (or out of) has to exist — `x/../f` is no name for `f` if there
        is no directory `x` — otherwise None"""
        acc: list[str] = []
        for i, c in enumerate(parts):
            if c == "..":
                acc = acc[:-1]
            else:
                acc.append(c)
                t = self.links.get("/".join(acc))
                if t is not None:
                    acc = self.parts(t)
                elif dirs is not None and i < len(parts) - 1 and "/".join(acc) not in dirs:
                    return None
        return "/".join(acc)

    def directories(self) -> set:
        ds = {""}
        for f in list(self.files) + [t + "/." for t in self.links.values()] + list(self.links):
            ps = f.split("/")[:-1]
            for k in range(1, len(ps) + 1):
                ds.add("/".join(ps[:k]))
        return ds

    def locate(self, spelled: str, cwd: str):
        """the regular file `spelled` (`{ROOT}/…`, or relative to the working directory) denotes, if any"""
        ps = self.parts(spelled[len("{ROOT}/"):]) if spelled.startswith("{ROOT}/") else self.parts(cwd) + self.parts(spelled)
        return self.phys(ps, self.directories())


def link_reads(fs: LinkFS, cwd: str, root_spelled: str, include_dirs: list[str]):
    """the files a run reads, by the documented search order (the path as written relative to the working directory, the
    directory of the importing file *as it was reached*, the include directories) -> (IDL files in reading order, @extern files)"""
    reads, exts, seen = [], [], set()

    def absolute(sp):       # `Path.absolute()`: the working directory in front, nothing normalised
        return sp if sp.startswith("{ROOT}/") else "{ROOT}/" + "/".join(LinkFS.parts(cwd) + [sp])

    def visit(spelled):
        real = fs.locate(spelled, cwd)
        reads.append(real)
        d = os.path.dirname(spelled)
        for kind, name in re.findall(r'^@(import|extern) "([^"]*)"', fs.files[real], flags=re.M):
            cands = [name, (d + "/" if d else "") + name] + [i + "/" + name for i in include_dirs]
            hit = next((c for c in cands if fs.locate(c, cwd) in fs.files), None)
            if hit is None:
                raise AssertionError(f"link layout: {name} of {spelled} does not resolve")
            if kind == "extern":
                exts.append(fs.locate(hit, cwd))
                continue
            key = fs.locate(hit, cwd)                   # a *file* is imported once, however it is spelled
            if key not in seen:
                seen.add(key)
                visit(absolute(hit))
    visit(root_spelled)
    return reads, exts


LINK_LAYOUTS = ["root-dir-linked", "springboard", "include-dir", "idl-dotdot", "mid-path-link", "control:no-links", "control:no-dotdot",
                "identity:two-files-one-spelling", "identity:one-file-two-spellings"]


def make_link_case(seed_key: str, layout: str | None = None):
    """A workspace in which a directory on the way to an input file is a symbolic link and an `@import` / `@extern` /
    IDL / include path has `..` behind it. `main` imports `common` (+ an `@extern` file), `common` imports `base`
    (without `..` of its own, with `sub/..`, or with `../<dir>`): what is imported from a file inherits how that file was
    reached. Decoys (valid files with other content) may lie where the lexically normalised path points."""
    r = random.Random(seed_key)
    layout = layout or r.choice(LINK_LAYOUTS)
    fs = LinkFS()
    P = r.choice(["checkout/p", "store/mono/repo_1"])
    W = r.choice(["work", "ws/deep"])
    inc: list[str] = []
    if layout == "root-dir-linked":
        fs.links[f"{W}/idl"] = f"{P}/idl"
        cwd, root_rel, main_real, D, imp, decoy = W, "idl/main.pydjinni", f"{P}/idl/main.pydjinni", f"{P}/shared", "../shared/", f"{W}/shared"
    elif layout == "springboard":
        fs.links[f"{W}/lnk"] = f"{P}/shared/sub"
        cwd, root_rel, main_real, D, imp, decoy = W, "main.pydjinni", f"{W}/main.pydjinni", f"{P}/shared", "lnk/../", W
    elif layout == "include-dir":
        fs.links[f"{W}/lnk"] = f"{P}/shared/sub"
        inc = [r.choice(["lnk/../inc2", "{ROOT}/" + W + "/lnk/../inc2"])]
        cwd, root_rel, main_real, D, imp, decoy = W, "main.pydjinni", f"{W}/main.pydjinni", f"{P}/shared/inc2", "", f"{W}/inc2"
    elif layout == "idl-dotdot":
        fs.links[f"{W}/lnk"] = f"{P}/shared/sub"
        cwd, root_rel, main_real, D, imp, decoy = W, "lnk/../idl2/main.pydjinni", f"{P}/shared/idl2/main.pydjinni", f"{P}/shared/idl2", "", f"{W}/idl2"
    elif layout == "mid-path-link":
        fs.links[f"{P}/shared/ext"] = f"{P}/vendor/lib"
        cwd, root_rel, main_real, D, imp, decoy = P, "idl/main.pydjinni", f"{P}/idl/main.pydjinni", f"{P}/vendor", "../shared/ext/../", f"{P}/shared"
    elif layout.startswith("identity:"):
        # the root's directory is a link (as in root-dir-linked). two-files-one-spelling: the root also imports the file that
        # lies where the normalised spelling of its first import points — another file, to be read as well;
        # one-file-two-spellings: a second file reaches `common` through an include directory given by its real path —
        # the same file, to be read once
        fs.links[f"{W}/idl"] = f"{P}/idl"
        cwd, root_rel, main_real, D, imp, decoy = W, "idl/main.pydjinni", f"{P}/idl/main.pydjinni", f"{P}/shared", "../shared/", None
        if layout == "identity:one-file-two-spellings":
            inc = ["{ROOT}/" + D]
    elif layout == "control:no-links":
        cwd, root_rel, main_real, D, imp, decoy = P, "idl/main.pydjinni", f"{P}/idl/main.pydjinni", f"{P}/shared", "../shared/", None
    else:  # control:no-dotdot — everything is reached through the link, nothing to normalise
        fs.links[f"{W}/idl"] = f"{P}/idl"
        cwd, root_rel, main_real, D, imp, decoy = W, "idl/main.pydjinni", f"{P}/idl/main.pydjinni", f"{P}/idl", "", None
    deep = r.choice(["base.pydjinni", "sub/../base.pydjinni", f"../{os.path.basename(D)}/base.pydjinni"]) if layout != "control:no-dotdot" else "base.pydjinni"
    with_ext = r.random() < 0.65
    second = r.random() < 0.4            # a second import of the root, next to `common`
    pg = sysgen.ProgGen(r, stress="plain", max_decls=r.choice([1, 2, 3]))
    heads = ([f'@extern "{imp}point.yaml"'] if with_ext else []) + [f'@import "{imp}common.pydjinni"'] + ([f'@import "{imp}more.pydjinni"'] if second else [])
    if r.random() < 0.3:
        heads.reverse()
    fs.files[main_real] = "\n".join(heads) + "\n" + (f"user_main = record {{ c: lib_common; n: i32;{' e: ext_point;' if with_ext else ''}{' m: lib_more;' if second else ''} }}\n"
                                                     "svc_main = interface +cpp { lookup(key: lib_base) -> lib_common; }\n") + pg.body(pg.max_decls)
    if layout == "identity:two-files-one-spelling":
        fs.files[main_real] = '@import "shared/common.pydjinni"\n' + fs.files[main_real] + "user_local = record { l: lib_local; }\n"
        fs.files[f"{W}/shared/common.pydjinni"] = "lib_local = enum { here; there; }\n"
    if layout == "identity:one-file-two-spellings":
        fs.files[main_real] = '@import "side.pydjinni"\n' + fs.files[main_real] + "user_side = record { s: lib_side; }\n"
        fs.files[f"{P}/idl/side.pydjinni"] = '@import "common.pydjinni"\nlib_side = record { c: lib_common; }\n'
    fs.files[f"{D}/common.pydjinni"] = f'@import "{deep}"\nlib_common = record {{ b: lib_base; tag: string; }}\n'
    fs.files[f"{D}/base.pydjinni"] = "lib_base = enum { first; second; }\n"
    fs.files[f"{D}/more.pydjinni"] = "lib_more = flags { lo; hi; }\n"
    fs.files[f"{D}/point.yaml"] = sysgen.extern_yaml("ext_point", [])
    fs.files[f"{D}/sub/keep.txt"] = "a directory to step out of"
    for t in fs.links.values():
        fs.files.setdefault(f"{t}/keep.txt", "the directory a link points to")
    pre = {}
    if decoy is not None and r.random() < 0.6:
        # where the lexically normalised paths point: other files of the same names (valid, other content)
        pre[f"{decoy}/common.pydjinni"] = "lib_common = record { decoy: bool; }\nlib_base = enum { decoy_item; }\n"
        pre[f"{decoy}/base.pydjinni"] = "lib_base = enum { decoy_item; }\n"
        pre[f"{decoy}/point.yaml"] = sysgen.extern_yaml("ext_point", ["decoy"])
    pre = {k: v for k, v in pre.items() if k not in fs.files}
    idl = root_rel if r.random() < 0.6 else "{ROOT}/" + cwd + "/" + root_rel
    # decoys are part of the file system the search order sees
    view = LinkFS(fs.links)
    view.files = {**pre, **fs.files}
    reads, exts = link_reads(view, cwd, idl, inc)
    targets = r.sample(sysgen.TARGETS, r.choice([1, 1, 2]))
    fmt = r.choice(FORMATS)
    rep_kind = r.choice(["rel", "sub", "abs"])
    report = {"rel": f"processed.{fmt}", "sub": f"reports/out/files.{fmt}", "abs": "{ROOT}/abs_report." + fmt}[rep_kind]
    out_kind = r.choice(sysgen.OUT_KINDS)
    opts = sysgen.make_options(r, targets, out_kind=out_kind, naming="default", report=report, include_dirs=inc)
    clean = r.random() < 0.5
    symlinks = {l: (os.path.relpath(t, os.path.dirname(l)) if r.random() < 0.6 else "{ROOT}/" + t) for l, t in fs.links.items()}
    calls = [{"op": "parse", "ctx": 0, "idl": idl}] + [{"op": "generate", "gc": 0, "target": t, "clean": clean} for t in targets] + [{"op": "report", "gc": 0}]
    job = {"files": fs.files, "pre": {**standard_pre(cwd, opts), **pre}, "cwd": cwd, "contexts": [opts], "calls": calls, "snapshot": True, "symlinks": symlinks}
    meta = {"out_kind": out_kind, "cwd": cwd, "fmt": fmt, "report": rep_kind, "clean": clean, "targets": targets, "idl_abs": idl.startswith("{ROOT}"),
            "features": sorted(pg.features) + [f"links:{layout}", f"deep:{deep}", "decoys" if pre else "no-decoys", "extern" if with_ext else "no-extern"],
            "reads": reads, "exts": exts, "links": sorted(fs.links.items()), "stream": "links", "layout": layout}
    return job, meta


def model_request(job, meta, obs, tables):
    R = obs["root"]
    parse = obs["calls"][0]
    cwd_abs = os.path.normpath(os.path.join(R, job["cwd"]))
    ci = meta.get("cfg_index", 0)       # override stream: the context configured from the *merged* mapping
    return {"op": "c14.run", "cwd": cwd_abs, "gens": obs["cfg"][ci], "targets": meta["targets"], "clean": meta["clean"],
            "supportLib": obs["meta"][ci]["supportLib"], "support": tables["support"], "defs": parse.get("defs", []),
            "report": obs["meta"][ci]["report"],
            "reads": [os.path.join(R, p) for p in meta["reads"]], "exts": [os.path.join(R, p) for p in meta["exts"]],
            "before": sorted(obs["before"].keys())}


def impl_view(job, meta, obs):
    """the implementation's observation in the shape `c14.spec` reads"""
    before, after = obs["before"], obs["after"]
    created = sorted(p for p in after if p not in before or before[p] != after[p])
    deleted = sorted(p for p in before if p not in after)
    log = [e[1] for c in obs["calls"] for e in c["log"]]
    rep = obs["reports"][-1]["data"] if obs.get("reports") and obs["reports"][-1]["data"] is not None else {"parsed": {"idl": [], "external_types": []}, "generated": {}}
    return {"log": log, "created": created, "deleted": deleted,
            "report": {"idl": rep.get("parsed", {}).get("idl", []), "ext": rep.get("parsed", {}).get("external_types", []),
                       "generated": rep.get("generated", {})}}


def absn(cwd_abs, p):
    return os.path.normpath(p if os.path.isabs(p) else os.path.join(cwd_abs, p))


def denoted(R, cwd_abs, p, links):
    """the file an input entry of the report stands for: the walk through the sandbox's symbolic links (`LinkFS.phys`);
    without links the lexical normalisation"""
    a = p if os.path.isabs(p) else os.path.join(cwd_abs, p)
    if not links or not a.startswith(R + "/"):
        return os.path.normpath(a)
    return os.path.join(R, LinkFS(dict(links)).phys(LinkFS.parts(a[len(R) + 1:])))


def compare(job, meta, obs, m, s=None):
    """model prediction vs implementation -> list of differences (`s`: answer of `c14.spec`, for the files the model's
    walk makes the input entries denote)"""
    diffs = []
    R = obs["root"]
    cwd_abs = os.path.normpath(os.path.join(R, job["cwd"]))
    entries = [e for c in obs["calls"] for e in c["log"]]
    ilog = [e[1] for e in entries]
    if sorted(ilog) != sorted(m["log"]):
        only_i = sorted(set(ilog) - set(m["log"]))[:4]
        only_m = sorted(set(m["log"]) - set(ilog))[:4]
        diffs.append({"what": "write log (as a multiset of paths)", "only_impl": only_i, "only_model": only_m, "n_impl": len(ilog), "n_model": len(m["log"])})
    else:
        copies = set(e[1] for e in entries if e[0] == "copy")
        iw = [e[1] for e in entries if e[0] == "write"]
        mw = [p for p in m["log"] if p not in copies]
        if iw != mw:
            k = next((i for i, (a, b) in enumerate(zip(iw, mw)) if a != b), min(len(iw), len(mw)))
            diffs.append({"what": "order of rendered files", "at": k, "impl": iw[k:k + 3], "model": mw[k:k + 3]})
    if obs.get("reports") and obs["reports"][-1]["data"] is not None:
        rep = obs["reports"][-1]["data"]
        mg = m["report"]["generated"]
        ig = rep.get("generated", {})
        if sorted(mg) != sorted(ig):
            diffs.append({"what": "generators listed in the report", "impl": sorted(ig), "model": sorted(mg)})
        for k in mg:
            if k not in ig:
                continue
            for f in ("header", "source"):
                if sorted(ig[k].get(f, [])) != sorted(mg[k][f]):
                    diffs.append({"what": f"report generated.{k}.{f}", "impl": sorted(ig[k].get(f, []))[:5], "model": sorted(mg[k][f])[:5]})
            for f in ("include_dir", "source_dir"):
                if f in ig[k] and ig[k][f] != mg[k][f]:
                    diffs.append({"what": f"report generated.{k}.{f}", "impl": ig[k][f], "model": mg[k][f]})
        links = [tuple(x) for x in meta.get("links", [])]
        iidl = [denoted(R, cwd_abs, p, links) for p in rep.get("parsed", {}).get("idl", [])]
        if iidl != m["report"]["idl"]:
            diffs.append({"what": "report parsed.idl (order of reads)", "impl": iidl, "model": m["report"]["idl"]})
        iext = [denoted(R, cwd_abs, p, links) for p in rep.get("parsed", {}).get("external_types", [])]
        if iext != m["report"]["ext"]:
            diffs.append({"what": "report parsed.external_types", "impl": iext, "model": m["report"]["ext"]})
        # the walk of the model (harness mirror of `Sys/Files.lean: phys`) against `os.path.realpath` in the worker
        for k, dk in (("idl", "denIdl"), ("external_types", "denExt")):
            ents = (obs["reports"][-1].get("inputs") or {}).get(k, [])
            lean = (s or {}).get(dk)
            for j, e in enumerate(ents):
                mine = os.path.relpath(denoted(R, cwd_abs, e["entry"], links), R)
                if e["exists"] and e["real"] != mine:
                    diffs.append({"what": "file denoted by a report entry: harness walk vs os.path.realpath", "entry": e["entry"], "model": mine, "os": e["real"]})
                if e["exists"] and lean is not None and len(lean) == len(ents) and os.path.relpath(lean[j], R) != e["real"]:
                    diffs.append({"what": "file denoted by a report entry: `phys` (Lean) vs os.path.realpath", "entry": e["entry"], "model": lean[j], "os": e["real"]})
    else:
        diffs.append({"what": "report missing or unreadable", "impl": obs.get("reports")})
    if sorted(obs["after"].keys()) != sorted(m["after"]):
        diffs.append({"what": "files on disk afterwards", "only_impl": sorted(set(obs["after"]) - set(m["after"]))[:5],
                      "only_model": sorted(set(m["after"]) - set(obs["after"]))[:5]})
    return diffs


def requests(job, meta, obs, tables):
    req = model_request(job, meta, obs, tables)
    R = obs["root"]
    sreq = {**req, "op": "c14.spec", "impl": impl_view(job, meta, obs),
            "expectIdl": [os.path.normpath(os.path.join(R, p)) for p in meta["reads"]],
            "expectExt": [os.path.normpath(os.path.join(R, p)) for p in meta["exts"]],
            "links": [[os.path.join(R, l), os.path.join(R, t)] for l, t in meta.get("links", [])]}
    return [req, sreq]


def python_side(job, obs, meta=None):
    pyfails = []
    for c, rec in zip(job["calls"], obs["calls"]):
        if not rec["ok"] and not rec.get("skipped"):
            pyfails.append({"key": "run-failed:" + (rec["exc"] or {}).get("cls", "command-line" if c["op"] == "cli" else "diagnostics"),
                            "detail": json.dumps(rec.get("exc") or rec["diags"][:2] or rec.get("output", ""))[:300]})
    if not obs.get("reports"):
        pyfails.append({"key": "report-not-written", "detail": ""})
    else:
        rp = obs["reports"][-1]
        if rp["data"] is None:
            pyfails.append({"key": "report-unreadable", "detail": str(rp["valid"])})
        elif rp["valid"] is not True:
            pyfails.append({"key": "report-schema", "detail": str(rp["valid"])})
        if meta is not None and rp.get("inputs") is not None:
            # by file identity, as the operating system sees it: every input entry names an existing file, the entries denote
            # exactly the files read (each once), and these are the files the parse opened
            listed = []
            for k, want, label in (("idl", meta["reads"], "idl"), ("external_types", meta["exts"], "extern")):
                ents = rp["inputs"].get(k, [])
                gone = [e["entry"] for e in ents if not e["exists"]]
                if gone:
                    pyfails.append({"key": f"report-{label}-names-no-file", "detail": f"parsed.{k} lists {gone[:3]}, which do(es) not exist; the files read are {want}"})
                got = sorted(e["real"] for e in ents if e["exists"])
                listed += got
                if not gone and got != sorted(os.path.normpath(w) for w in want):
                    pyfails.append({"key": f"report-{label}-not-the-files-read", "detail": f"parsed.{k} denotes {got} (os.path.realpath), read were {sorted(want)}"})
            opened = obs["calls"][0].get("opened") if obs["calls"] else None
            if opened is not None and obs["calls"][0]["ok"] and set(opened) != set(os.path.normpath(w) for w in meta["reads"] + meta["exts"]):
                pyfails.append({"key": "opened-files-not-the-expected-inputs",
                                "detail": f"opened during parse: {sorted(set(opened))}; expected from the import graph: {sorted(meta['reads'] + meta['exts'])}"})
    return pyfails


def evaluate_many(ctx, items, tables):
    """items: [(job, meta, obs)] -> [(model answer, spec answer, python-side failures)]; one driver process for all"""
    reqs = [q for job, meta, obs in items for q in requests(job, meta, obs, tables)]
    answers = ctx.driver.batch(reqs)
    for a in answers:
        if "error" in a:
            raise RuntimeError(f"driver error {a}")
    return [(answers[2 * i], answers[2 * i + 1], python_side(job, obs, meta)) for i, (job, meta, obs) in enumerate(items)]


def evaluate(ctx, job, meta, obs, tables):
    """-> (model answer, spec answer, python-side failures)"""
    return evaluate_many(ctx, [(job, meta, obs)], tables)[0]


# ---------------------------------------------------------------------------------------------------
# several configured contexts of ONE API object (the generator instances are shared by all of them)
# ---------------------------------------------------------------------------------------------------

MULTI_SHAPES = ["AB.a.b", "AB.b.a", "A.a.B.a.b", "AB.b.A2.a.a2", "random"]


def make_multi_case(seed_key: str, shape: str | None = None):
    """one API object, two configurations with disjoint output directories (different spellings: relative / absolute /
    split mixes, different report files), two programs, an interleaved stream of parse / generate (with and without
    clean) / report calls; every call is observed on its own (write log slice, snapshot diff)."""
    r = random.Random(seed_key)
    pgp = sysgen.ProgGen(r, stress=r.choice(["plain", "plain", "mixed"]), multi_file=r.random() < 0.3, with_extern=r.random() < 0.2, max_decls=r.choice([2, 4]))
    p = pgp.program()
    pgq = sysgen.ProgGen(r, stress="plain", max_decls=r.choice([2, 3]))
    files = dict(p["files"])
    files["proj/q.pydjinni"] = pgq.body(pgq.max_decls)
    roots = [p["root"], "proj/q.pydjinni"]
    cwd = r.choice(CWDS)
    shared = r.choice(sysgen.TARGETS)                     # both contexts configure (at least) this target: same generator instances
    tlists = []
    for _ in range(2):
        ts = [shared] + [t for t in r.sample(sysgen.TARGETS, r.choice([0, 1, 2])) if t != shared]
        r.shuffle(ts)
        tlists.append(ts)
    kinds = r.sample(sysgen.OUT_KINDS, 2)
    inc = os.path.relpath("inc", cwd) if r.random() < 0.6 else "{ROOT}/inc"
    fa, fb = r.sample(FORMATS, 2)
    rep_a = r.choice([f"processed_a.{fa}", "{ROOT}/abs_report_a." + fa])
    rep_b = r.choice([f"reports/out/files_b.{fb}", "{ROOT}/abs_report_b." + fb])
    opt_a = sysgen.make_options(r, tlists[0], out_kind=kinds[0], out_root="genA", naming="default", report=rep_a, include_dirs=[inc])
    opt_b = sysgen.make_options(r, tlists[1], out_kind=kinds[1], out_root=r.choice(["genB", "elsewhere/genB"]), naming=r.choice(["default", "random"]),
                                report=rep_b, include_dirs=[inc])
    options = [opt_a, opt_b]
    spell = lambda f: os.path.relpath(f, cwd) if r.random() < 0.6 else "{ROOT}/" + f
    shape = shape or r.choice(MULTI_SHAPES)
    calls, origin = [], []          # origin[k] = (context, program) of parse result k

    def parse(c, prog):
        calls.append({"op": "parse", "ctx": c, "idl": spell(roots[prog])})
        origin.append((c, prog))
        return len(origin) - 1

    def gen(k, clean=None):
        calls.append({"op": "generate", "gc": k, "target": r.choice(tlists[origin[k][0]]), "clean": r.random() < 0.5 if clean is None else clean})

    def report(k):
        calls.append({"op": "report", "gc": k})
    if shape == "AB.a.b":
        a, b = parse(0, 0), parse(1, 1)
        gen(a), gen(a), gen(b), report(a), report(b)
    elif shape == "AB.b.a":
        a, b = parse(0, 0), parse(1, 1)
        gen(b), gen(a, clean=True), report(b), gen(b, clean=True), gen(a)
    elif shape == "A.a.B.a.b":
        a = parse(0, 0)
        gen(a)
        b = parse(1, r.choice([0, 1]))
        gen(a, clean=True), gen(b), gen(a), report(a)
    elif shape == "AB.b.A2.a.a2":
        a, b = parse(0, 0), parse(1, 1)
        gen(b)
        a2 = parse(0, 1)
        gen(a), gen(b, clean=True), gen(a2), report(b), report(a2)
    else:
        parse(r.choice([0, 1]), r.choice([0, 1]))
        for _ in range(r.choice([5, 7, 9])):
            x = r.random()
            if x < 0.3:
                parse(r.choice([0, 1]), r.choice([0, 1]))
            elif x < 0.42:
                report(r.randrange(len(origin)))
            else:
                gen(r.randrange(len(origin)))
    pre = {"README.txt": "keep me", "proj/notes.txt": "keep me too", "gen/keep.txt": "outside"}
    for o in options:
        for d in out_dirs(cwd, o):
            pre[f"{d}/stale_{len(pre)}.hpp"] = "stale"
            pre[f"{d}/old/deep/stale.txt"] = "stale"
            pre[f"{d}x/sibling.txt"] = "sibling of an output directory"
            pre[f"{os.path.dirname(d)}/beside_{len(pre)}.txt"] = "beside"
    job = {"files": files, "pre": pre, "cwd": cwd, "contexts": options, "calls": calls, "snapshot_calls": True}
    # a generate call whose context is not the one that parsed last
    last, stale = None, 0
    for c in calls:
        if c["op"] == "parse":
            last = c["ctx"]
        elif c["op"] == "generate" and origin[c["gc"]][0] != last:
            stale += 1
    meta = {"shape": shape, "out_kinds": kinds, "cwd": cwd, "targets": tlists, "origin": origin, "stale_context_generates": stale,
            "features": sorted(set(p["features"]) | pgq.features)}
    return job, meta


def evaluate_multi(ctx, job, meta, obs, tables):
    """per call: the C14 statement itself for the context the call belongs to (`c14.callspec`), and the model's
    prediction for that call alone (`c14.run` for one target from the files that were there before the call)"""
    R = obs["root"]
    cwd_abs = os.path.normpath(os.path.join(R, job["cwd"]))
    fails, diffs, sreqs, mreqs, idxs = [], [], [], [], []
    defs_of = {}
    k = -1
    for idx, (call, rec) in enumerate(zip(job["calls"], obs["calls"])):
        if call["op"] == "wipe":
            continue
        if call["op"] == "parse":
            k += 1
            defs_of[k] = rec.get("defs", [])
            c = call["ctx"]
        else:
            c = meta["origin"][call["gc"]][0]
        if not rec["ok"] and not rec.get("skipped"):
            fails.append({"key": "run-failed:" + (rec["exc"] or {}).get("cls", "diagnostics"), "call": idx,
                          "detail": f"call {idx} {call}: " + json.dumps(rec.get("exc") or rec["diags"][:2])[:300]})
        base = {"cwd": cwd_abs, "gens": obs["cfg"][c], "targets": [call["target"]] if call["op"] == "generate" else [],
                "clean": bool(call.get("clean")), "supportLib": obs["meta"][c]["supportLib"], "support": tables["support"],
                "defs": defs_of.get(call.get("gc"), []) if call["op"] == "generate" else [],
                "report": obs["meta"][c]["report"] if call["op"] == "report" else None, "reads": [], "exts": [], "before": rec["existing"]}
        sreqs.append({**base, "op": "c14.callspec", "impl": {"log": [e[1] for e in rec["log"]], "created": rec["created"], "deleted": rec["deleted"]}})
        mreqs.append({**base, "op": "c14.run"})
        idxs.append((idx, call, rec, c))
    hreq = [history_request(job, meta, obs, tables)] if meta.get("stream") == "regen" and all(r["ok"] for r in obs["calls"]) else []
    answers = ctx.driver.batch(sreqs + mreqs + hreq)
    for a in answers:
        if "error" in a:
            raise RuntimeError(f"driver error {a}")
    if hreq:
        # the specification of a run on the whole history of the one context
        for f in answers[-1]["fails"]:
            fails.append({"key": "history:" + f["key"], "call": len(job["calls"]) - 1,
                          "detail": f"after the history [{describe_history(job)}] of one context: {f['detail'][:240]}"})
        answers = answers[:-1]
    for (idx, call, rec, c), sa, ma in zip(idxs, answers[:len(sreqs)], answers[len(sreqs):]):
        for f in sa["fails"]:
            fails.append({"key": f["key"], "call": idx,
                          "detail": f"call {idx} {call['op']}({call.get('target', '')}{', clean' if call.get('clean') else ''}) of context {c} "
                                    f"[calls before: {[(x['op'], x.get('ctx', x.get('gc'))) for x in job['calls'][:idx]]}]: {f['detail'][:200]}"})
        if call["op"] == "parse":
            continue
        ilog = sorted(e[1] for e in rec["log"])
        if ilog != sorted(ma["log"]):
            diffs.append({"call": idx, "what": "write log of the call (multiset of paths)", "only_impl": sorted(set(ilog) - set(ma["log"]))[:4],
                          "only_model": sorted(set(ma["log"]) - set(ilog))[:4]})
        after = sorted((set(rec["existing"]) - set(rec["deleted"])) | set(rec["created"]))
        if after != sorted(ma["after"]):
            diffs.append({"call": idx, "what": "files on disk after the call", "only_impl": sorted(set(after) - set(ma["after"]))[:4],
                          "only_model": sorted(set(ma["after"]) - set(after))[:4]})
    return fails, diffs


# ---------------------------------------------------------------------------------------------------
# configuration = a file PLUS overriding options (API `options=`, the real command line `-o key=value`)
# ---------------------------------------------------------------------------------------------------

OVERRIDE_SHAPES = ["split->single", "single->split", "split->header-only", "split->split", "single->single"]
OVERRIDE_VIAS = ["api", "cli"]
CONFIG_FORMATS = ["yaml", "yml", "json", "toml"]


def config_text(d: dict, fmt: str) -> str:
    if fmt in ("yaml", "yml"):
        import yaml
        return yaml.safe_dump(d, default_flow_style=False)
    if fmt == "json":
        return json.dumps(d, indent=1)
    import tomli_w
    return tomli_w.dumps(d)


def flatten_options(d: dict, prefix: str = "") -> list[str]:
    """a nested options dict as `-o a.b.c=value` texts (leaves are texts)"""
    out = []
    for k, v in d.items():
        if isinstance(v, dict):
            out += flatten_options(v, prefix + k + ".")
        else:
            out.append(f"{prefix}{k}={v}")
    return out


def make_override_case(seed_key: str, shape: str | None = None, via: str | None = None):
    """The configuration of the run is a *file* (yaml / yml / json / toml, next to the working directory, in a sub directory or
    given by its absolute path) merged with *overriding options*. For every generator of the run the override may change the
    SHAPE of `out` (split header/source mapping -> one directory, one directory -> mapping, one key of the mapping only), of
    `identifier.file` (style + prefix mapping <-> plain style name), move the report, or leave the section alone. The
    effective configuration is the model's merge (`Sys/Config.lean: combine`, theorems `merge_override` / `merge_keeps`;
    computed by the caller through `c17.merge`): files, `clean` and the report have to follow IT — the directories the file
    named and the override replaced are no output directories any more (stale files in them stay)."""
    r = random.Random(seed_key)
    shape = shape or r.choice(OVERRIDE_SHAPES)
    via = via or r.choice(OVERRIDE_VIAS)
    pg = sysgen.ProgGen(r, stress="plain", multi_file=r.random() < 0.2, with_extern=r.random() < 0.15, max_decls=r.choice([2, 3, 4]))
    prog = pg.program()
    cwd = r.choice(CWDS)
    targets = r.sample(sysgen.TARGETS, r.choice([1, 2, 2, 3]))
    fmt = r.choice(FORMATS)
    rep_kind = r.choice(["rel", "sub", "abs"])
    report = {"rel": f"processed.{fmt}", "sub": f"reports/out/files.{fmt}", "abs": "{ROOT}/abs_report." + fmt}[rep_kind]
    inc = os.path.relpath("inc", cwd) if r.random() < 0.6 else "{ROOT}/inc"
    base = sysgen.make_options(r, targets, out_kind="rel", naming="default", report=report, include_dirs=[inc], extras=r.random() < 0.5)
    gen = base["generate"]
    sp = lambda name: r.choice([name, name, "{ROOT}/" + name, "./" + name + "/"])
    over: dict = {}
    keys = [k for k, c in gen.items() if isinstance(c, dict) and "out" in c]
    chosen = [k for k in keys if r.random() < 0.7] or [r.choice(keys)]
    shapes_used = set()
    for k in keys:
        splittable = k not in ("java", "yaml")
        sh = shape if k in chosen else "untouched"
        if not splittable and sh not in ("untouched",):
            sh = "single->single"
        if sh in ("split->single", "split->header-only", "split->split"):
            gen[k]["out"] = {"header": sp(f"gen/{k}/include"), "source": sp(f"gen/{k}/src")}
        else:
            gen[k]["out"] = sp(f"gen/{k}")
        if sh in ("split->single", "single->single"):
            over[k] = {"out": sp(f"build/{k}")}
        elif sh == "single->split":
            over[k] = {"out": {"header": sp(f"build/{k}/h"), "source": sp(f"build/{k}/s")}}
        elif sh == "split->header-only":
            over[k] = {"out": {r.choice(["header", "source"]): sp(f"build/{k}/one")}}
        elif sh == "split->split":
            over[k] = {"out": {"header": sp(f"build/{k}/h"), "source": sp(f"build/{k}/s")}}
        shapes_used.add(sh)
        # the file-name style: mapping {style, prefix} in the file, a plain style name in the override — or the other way round
        if k in ("cpp", "jni", "cppcli") and r.random() < 0.3:
            if r.random() < 0.5:
                gen[k]["identifier"] = {"file": {"style": "snake_case", "prefix": r.choice(["gen_", "x_"])}}
                over.setdefault(k, {})["identifier"] = {"file": r.choice(["PascalCase", "camelCase", "snake_case"])}
                shapes_used.add("style:mapping->name")
            else:
                gen[k]["identifier"] = {"file": r.choice(["PascalCase", "snake_case"])}
                over.setdefault(k, {})["identifier"] = {"file": {"style": r.choice(["snake_case", "camelCase"]), "prefix": r.choice(["o_", "Ov"])}}
                shapes_used.add("style:name->mapping")
    options: dict = {"generate": over}
    if r.random() < 0.3:
        rk2 = r.choice(["rel", "abs"])
        options["generate"]["list_processed_files"] = {"rel": f"moved/report.{fmt}", "abs": "{ROOT}/moved_report." + fmt}[rk2]
        shapes_used.add("report-moved")
    cfmt = r.choice(CONFIG_FORMATS)
    cfg_rel = r.choice([f"pydjinni.{cfmt}", f"cfg/settings.{cfmt}", "{ROOT}/conf/pydjinni." + cfmt])
    cfg_file = rootrel(cwd, cfg_rel)
    clean = r.random() < 0.6
    idl = os.path.relpath(prog["root"], cwd) if r.random() < 0.6 else "{ROOT}/" + prog["root"]
    files = dict(prog["files"])
    files[cfg_file] = config_text(base, cfmt)
    job = {"files": files, "cwd": cwd, "snapshot": True, "subst_files": [cfg_file], "override": {"file": base, "options": options},
           "contexts": [{"config_file": cfg_rel, "options": options, "path_object": r.random() < 0.5}, None]}
    if via == "api":
        job["calls"] = [{"op": "parse", "ctx": 0, "idl": idl}] + [{"op": "generate", "gc": 0, "target": t, "clean": clean} for t in targets] + [{"op": "report", "gc": 0}]
    else:
        argv = ["--config", cfg_rel] + [a for o in flatten_options(options) for a in (r.choice(["-o", "--option"]), o)] + ["generate"] + (["--clean"] if clean else []) + [idl] + targets
        job["calls"] = [{"op": "parse", "ctx": 1, "idl": idl}, {"op": "cli", "argv": argv, "report_ctx": 1}]
    meta = {"out_kind": f"override:{shape}:{via}", "cwd": cwd, "fmt": fmt, "report": rep_kind, "clean": clean, "targets": targets,
            "idl_abs": idl.startswith("{ROOT}"), "features": prog["features"] + sorted("override:" + x for x in shapes_used) + [f"config:{cfmt}", "via:" + via],
            "reads": dfs_order(prog["root"], prog["imports"]), "exts": prog["externs"], "stream": "override", "cfg_index": 1, "via": via,
            "shapes": sorted(shapes_used)}
    return job, meta


def finish_override_cases(ctx, cases):
    """the effective configuration of every override case = the model's merge of the options into the file's mapping; it becomes
    context 1 (configured from options alone, the way every other stream configures) and decides the pre-existing files"""
    todo = [c for c in cases if c[1].get("stream") == "override"]
    if not todo:
        return
    answers = ctx.driver.batch([{"op": "c17.merge", "o": c[0]["override"]["options"], "b": c[0]["override"]["file"]} for c in todo])
    for (job, meta, *_), a in zip(todo, answers):
        if "error" in a:
            raise RuntimeError(f"driver error {a}")
        eff = a["m"]
        job["contexts"][1] = eff
        pre = standard_pre(job["cwd"], eff)
        for d in out_dirs(job["cwd"], job["override"]["file"]):       # what the file named: stale files there are nobody's business
            pre[f"{d}/left_{len(pre)}.hpp"] = "in a directory the configuration file names"
        job["pre"] = pre
        meta["effective_dirs"] = out_dirs(job["cwd"], eff)
        meta["overridden_dirs"] = [d for d in out_dirs(job["cwd"], job["override"]["file"]) if d not in meta["effective_dirs"]]


def override_side(job, meta, obs):
    """the configuration the implementation validated from file + options against the one validated from the merged mapping"""
    fails = []
    if meta.get("stream") != "override":
        return fails
    for i, c in enumerate(obs.get("configure", [])):
        if not c["ok"]:
            fails.append({"key": "override:configuration-refused", "detail": f"context {i}: {json.dumps(c['exc'])[:300]}"})
            return fails
    a, b = obs["cfg"][0], obs["cfg"][1]
    for g in sorted(set(a) | set(b)):
        ka, kb = a.get(g), b.get(g)
        if ka != kb:
            field = next((f for f in sorted(set(ka or {}) | set(kb or {})) if (ka or {}).get(f) != (kb or {}).get(f)), "?")
            fails.append({"key": "override:not-effective:" + ("out" if field == "out" else "file-style" if field == "file" else "other"),
                          "detail": f"generate.{g}.{field}: configured from {job['contexts'][0]['config_file']} + options {json.dumps(job['override']['options']['generate'].get(g))} "
                                    f"the implementation uses {json.dumps((ka or {}).get(field))}; the merge of the options into the file gives {json.dumps((kb or {}).get(field))}"})
    ma, mb = obs["meta"][0], obs["meta"][1]
    for f in ("report", "supportLib", "include_dirs"):
        if ma.get(f) != mb.get(f):
            fails.append({"key": "override:not-effective:" + f, "detail": f"generate: {f} is {ma.get(f)!r}, the merge gives {mb.get(f)!r}"})
    return fails


# ---------------------------------------------------------------------------------------------------
# one context generates again after its output was purged (generate -> purge -> generate)
# ---------------------------------------------------------------------------------------------------

REGEN_PURGES = ["clean", "clean", "wipe-dirs", "wipe-some-files", "none"]
GROWN = ["grown_{j} = enum {{ item_a; item_b; }}", "grown_{j} = record {{ f0: i32; f1: string; }} deriving(eq)", "grown_{j} = flags {{ flag_a; flag_b; }}",
         "grown_{j} = interface +cpp {{ m0(p0: i32) -> bool; }}", "namespace grown.ns_{j} {{\n  grown_{j} = record {{ f0: bool; }}\n}}"]


def make_regen_case(seed_key: str, purge: str | None = None):
    """ONE configured context of one API object runs two or three rounds of parse + generate (every target of the list) +
    report — what the language server does on every save and what a build script does that keeps its `API()`. Between the
    rounds the output is purged: by `clean=True` of the next round's generate calls, by the user removing the output
    directories, by the user removing *some* of the generated files — or not at all (control). The program only grows from
    round to round (declarations are appended), so that after every round the report — which accumulates over the life of the
    API object — lists, as a set, exactly the files a fresh run of that round would write: every listed file has to exist,
    and below purged directories nothing else."""
    r = random.Random(seed_key)
    purge = purge or r.choice(REGEN_PURGES)
    pg = sysgen.ProgGen(r, stress="plain", multi_file=r.random() < 0.25, with_extern=r.random() < 0.15, max_decls=r.choice([2, 3, 4]))
    prog = pg.program()
    cwd = r.choice(CWDS)
    targets = r.sample(sysgen.TARGETS, r.choice([1, 2, 2, 3]))
    fmt = r.choice(FORMATS)
    rep_kind = r.choice(["rel", "sub", "abs"])
    report = {"rel": f"processed.{fmt}", "sub": f"reports/out/files.{fmt}", "abs": "{ROOT}/abs_report." + fmt}[rep_kind]
    inc = os.path.relpath("inc", cwd) if r.random() < 0.6 else "{ROOT}/inc"
    out_kind = r.choice(sysgen.OUT_KINDS)
    opts = sysgen.make_options(r, targets, out_kind=out_kind, naming=r.choice(["default", "default", "random"]), report=report, include_dirs=[inc])
    idl = os.path.relpath(prog["root"], cwd) if r.random() < 0.6 else "{ROOT}/" + prog["root"]
    rounds = r.choice([2, 2, 3])
    first_clean = r.random() < 0.5
    # the directories the generate calls of the history own (a configured generator whose target is never generated keeps its own)
    ran = {g for t in targets for g in sysgen.GEN_OF_TARGET[t]}
    dirs = out_dirs(cwd, {"generate": {k: c for k, c in opts["generate"].items() if k in ran}})
    calls, origin, text = [], [], prog["files"][prog["root"]]
    for k in range(rounds):
        write = None
        if k > 0:
            if purge == "wipe-dirs":
                calls.append({"op": "wipe", "paths": dirs})
            elif purge == "wipe-some-files":
                calls.append({"op": "wipe", "paths": dirs, "sample": {"seed": f"{seed_key}/{k}", "p": r.choice([0.3, 0.6, 1.0])}})
            if r.random() < 0.7:        # the IDL is saved with one more declaration
                text = text + r.choice(GROWN).format(j=k) + "\n"
                write = {prog["root"]: text}
        calls.append({"op": "parse", "ctx": 0, "idl": idl, **({"write": write} if write else {})})
        origin.append((0, 0))
        ts = targets if r.random() < 0.7 else targets[::-1]
        for t in ts:
            calls.append({"op": "generate", "gc": k, "target": t, "clean": first_clean if k == 0 else purge == "clean"})
        if k == rounds - 1 or r.random() < 0.5:
            calls.append({"op": "report", "gc": k})
    job = {"files": prog["files"], "pre": standard_pre(cwd, opts), "cwd": cwd, "contexts": [opts], "calls": calls, "snapshot_calls": True}
    meta = {"shape": "regen:" + purge, "out_kinds": [out_kind], "cwd": cwd, "targets": [targets], "origin": origin, "stale_context_generates": 0,
            "features": prog["features"], "stream": "regen", "purge": purge, "rounds": rounds, "first_clean": first_clean, "fmt": fmt,
            "reads": dfs_order(prog["root"], prog["imports"]), "exts": prog["externs"],
            # every output directory has been emptied at some point of the history (and every file that was in it before is gone)
            "purged": purge in ("clean", "wipe-dirs") or first_clean}
    return job, meta


def history_request(job, meta, obs, tables):
    """the whole history as ONE observation for `c14.spec`: all writes, what exists at the end against what existed at the
    beginning, the last report; inputs = the reads of every parse"""
    R = obs["root"]
    cwd_abs = os.path.normpath(os.path.join(R, job["cwd"]))
    recs = obs["calls"]
    first = set(recs[0]["existing"])
    cur, touched = set(first), set()
    for rec in recs:
        cur = (cur - set(rec["deleted"])) | set(rec["created"])
        touched |= set(rec["created"])
    nparse = sum(1 for c, rec in zip(job["calls"], recs) if c["op"] == "parse" and rec["ok"])
    last_defs = [rec.get("defs", []) for c, rec in zip(job["calls"], recs) if c["op"] == "parse"][-1]
    rep = obs["reports"][-1]["data"] if obs.get("reports") and obs["reports"][-1]["data"] is not None else {"parsed": {"idl": [], "external_types": []}, "generated": {}}
    return {"op": "c14.spec", "cwd": cwd_abs, "gens": obs["cfg"][0], "targets": meta["targets"][0], "clean": meta["purged"],
            "supportLib": obs["meta"][0]["supportLib"], "support": tables["support"], "defs": last_defs, "report": obs["meta"][0]["report"],
            "reads": [], "exts": [], "before": sorted(first),
            "expectIdl": [os.path.normpath(os.path.join(R, p)) for p in meta["reads"]] * nparse,
            "expectExt": [os.path.normpath(os.path.join(R, p)) for p in meta["exts"]] * nparse,
            "impl": {"log": [e[1] for rec in recs for e in rec["log"]], "created": sorted(touched & cur), "deleted": sorted(first - cur),
                     "report": {"idl": rep.get("parsed", {}).get("idl", []), "ext": rep.get("parsed", {}).get("external_types", []),
                                "generated": rep.get("generated", {})}}}


def describe_history(job):
    out = []
    for c in job["calls"]:
        if c["op"] == "parse":
            out.append("parse" + ("(IDL grown)" if c.get("write") else ""))
        elif c["op"] == "generate":
            out.append(f"generate({c['target']}{', clean' if c.get('clean') else ''})")
        elif c["op"] == "wipe":
            out.append("user removes " + ("some generated files" if c.get("sample") else "the output directories"))
        else:
            out.append(c["op"])
    return " -> ".join(out)


SIBLING_CORPUS = ["corpus/c14/sibling/0", "corpus/c14/sibling/1", "corpus/c14/sibling/2"]

CORPUS = [
    # witnesses of the two defects of the pinned tree (repaired by `fix:` commits): relative jni.out with loader + async, @extern file
    {"seed_key": "corpus/c14/relative-jni", "forced": {"targets": ["java"], "out_kind": "rel", "clean": False, "cwd": "."}},
    {"seed_key": "corpus/c14/split-jni", "forced": {"targets": ["java", "cpp"], "out_kind": "split", "clean": True, "cwd": "proj"}},
]


def run(ctx):
    ctx.coverage["rule"] = ("one case = program x configuration x working directory x report format x clean; distinct = distinct "
                            "(output spelling, cwd, idl spelling, report format+location, clean, target list, program feature set); "
                            "non-trivial = at least one generated file and a report")
    tables = sysgen.live_tables(ctx)
    n = ctx.n(120, 1500)
    cases = []
    for c in CORPUS:
        cases.append(make_case(c["seed_key"], ctx.quick, c["forced"]) + (c["seed_key"], c["forced"]))
    # systematic sweep of the spelling x cwd x format x clean grid on the java target (loader, async extras), then random
    i = 0
    for ok in sysgen.OUT_KINDS:
        for cwd in CWDS:
            key = f"{ctx.seed}/c14/grid/{ok}/{cwd}"
            forced = {"out_kind": ok, "cwd": cwd, "fmt": FORMATS[i % 4], "clean": i % 2 == 0, "targets": [["java"], ["java", "objc"], ["cpp", "java"]][i % 3]}
            cases.append(make_case(key, ctx.quick, forced) + (key, forced))
            i += 1
    for i in range(n):
        key = f"{ctx.seed}/c14/{i}"
        cases.append(make_case(key, ctx.quick) + (key, None))
    # sibling output directories (prefix-related names), every configuration with the target list in both orders
    for i in range(ctx.n(14, 150)):
        for rev in (False, True):
            key = f"{ctx.seed}/c14/sibling/{i}"
            cases.append(make_sibling_case(key, rev) + (key + ("/reversed" if rev else ""), {"stream": "sibling", "reverse": rev}))
    for c in SIBLING_CORPUS:
        for rev in (False, True):
            cases.append(make_sibling_case(c, rev) + (c + ("/reversed" if rev else ""), {"stream": "sibling", "reverse": rev}))
    # input files behind symbolic links: every layout once (seed-independent corpus of the class), then random
    for lay in LINK_LAYOUTS:
        key = f"corpus/c14/links/{lay}"
        cases.append(make_link_case(key, lay) + (key, {"stream": "links", "layout": lay}))
    for i in range(ctx.n(14, 200)):
        key = f"{ctx.seed}/c14/links/{i}"
        cases.append(make_link_case(key) + (key, {"stream": "links"}))
    # configuration file + overriding options (shape of `out` / of the file-name style changed by the override), API and real CLI
    for sh in OVERRIDE_SHAPES:
        for via in OVERRIDE_VIAS:
            key = f"corpus/c14/override/{sh}/{via}"
            cases.append(make_override_case(key, sh, via) + (key, {"stream": "override", "shape": sh, "via": via}))
    for i in range(ctx.n(14, 200)):
        key = f"{ctx.seed}/c14/override/{i}"
        cases.append(make_override_case(key) + (key, {"stream": "override"}))
    finish_override_cases(ctx, cases)
    mcases = []
    # generate -> purge -> generate on one context
    for pu in sorted(set(REGEN_PURGES)):
        key = f"corpus/c14/regen/{pu}"
        mcases.append(make_regen_case(key, pu) + (key,))
    for i in range(ctx.n(16, 200)):
        key = f"{ctx.seed}/c14/regen/{i}"
        mcases.append(make_regen_case(key) + (key,))
    for sh in MULTI_SHAPES:
        key = f"{ctx.seed}/c14/multi/shape/{sh}"
        mcases.append(make_multi_case(key, sh) + (key,))
    for i in range(ctx.n(45, 500)):
        key = f"{ctx.seed}/c14/multi/{i}"
        mcases.append(make_multi_case(key) + (key,))
    allres = sysgen.run_jobs(ctx, [c[0] for c in cases] + [c[0] for c in mcases], tag="c14")
    results, mresults = allres[:len(cases)], allres[len(cases):]
    breaks = []
    for (job, meta, key, forced), obs in zip(cases, results):
        if "fatal" in obs:
            raise RuntimeError(f"worker failed on {key}: {obs['fatal']}")
    evaluated = evaluate_many(ctx, [(job, meta, obs) for (job, meta, key, forced), obs in zip(cases, results)], tables)
    for (job, meta, key, forced), obs, (m, s, pyfails) in zip(cases, results, evaluated):
        nfiles = sum(len(c["log"]) for c in obs["calls"])
        ctx.count(key=json.dumps([meta["out_kind"], meta["cwd"], meta["idl_abs"], meta["fmt"], meta["report"], meta["clean"], meta["targets"], meta["features"]]),
                  nontrivial=nfiles > 1, sample={"targets": meta["targets"], "out": meta["out_kind"], "cwd": meta["cwd"], "files_written": nfiles})
        for k in ("out_kind", "cwd", "fmt", "clean"):
            ctx.stat(f"{k}={meta[k]}")
        if meta.get("stream"):
            ctx.stat("stream=" + meta["stream"])
            if meta["stream"] == "override":
                ctx.stat("override_via=" + meta["via"])
                for x in meta["shapes"]:
                    ctx.stat("override_shape=" + x)
            if meta["stream"] == "links":
                ctx.stat("links_layout=" + meta["layout"])
                ctx.stat("links_entries_with_dotdot", sum(1 for e in (obs["reports"][-1].get("inputs") or {}).get("idl", []) if "/../" in e["entry"]) if obs.get("reports") else 0)
        for t in meta["targets"]:
            ctx.stat("target=" + t)
        for f in meta["features"]:
            if f.startswith(("files:", "extern", "async")):
                ctx.stat("feature " + f)
        ctx.stat("files_written", nfiles)
        if not m.get("relNamesClean", True):
            ctx.stat("outside Dom: relNamesClean")
        replay = {"seed_key": key, "forced": forced, "job": job, "meta": meta}
        for f in override_side(job, meta, obs):
            ctx.report(f["key"], f"{f['key']}: {f['detail'][:400]}", {**replay, "failure": f})
        for f in s["fails"] + pyfails:
            ctx.report("files:" + f["key"], f"{f['key']}: {f['detail'][:200]}", {**replay, "failure": f, "spec": s})
        d = compare(job, meta, obs, m, s)
        if d:
            breaks.append({**replay, "differences": d})
    # ---- several contexts of one API object --------------------------------------------------------
    for (job, meta, key), obs in zip(mcases, mresults):
        if "fatal" in obs:
            raise RuntimeError(f"worker failed on {key}: {obs['fatal']}")
        fails, diffs = evaluate_multi(ctx, job, meta, obs, tables)
        ngen = sum(1 for c in job["calls"] if c["op"] == "generate")
        ctx.count(key=json.dumps(["multi", meta["shape"], meta["out_kinds"], meta["cwd"], meta["targets"], [(c["op"], c.get("ctx", c.get("gc")), c.get("clean")) for c in job["calls"]]]),
                  nontrivial=meta["stale_context_generates"] > 0,
                  sample={"shape": meta["shape"], "out": meta["out_kinds"], "cwd": meta["cwd"], "targets": meta["targets"], "calls": len(job["calls"])})
        ctx.stat("multi_streams")
        if meta.get("stream") == "regen":
            ctx.stat("regen_histories")
            ctx.stat("regen_purge=" + meta["purge"])
            ctx.stat("regen_rounds", meta["rounds"])
        ctx.stat("multi_shape=" + meta["shape"])
        ctx.stat("multi_calls", len(job["calls"]))
        ctx.stat("multi_generate_calls", ngen)
        ctx.stat("multi_generates_from_a_context_that_did_not_parse_last", meta["stale_context_generates"])
        ctx.stat("multi_clean_generates", sum(1 for c in job["calls"] if c.get("clean")))
        ctx.stat("multi_files_written", sum(len(c["log"]) for c in obs["calls"]))
        for kd in meta["out_kinds"]:
            ctx.stat("multi_out_kind=" + kd)
        replay = {"kind": "multi", "seed_key": key, "job": job, "meta": meta}
        for f in fails:
            ctx.report("multi:" + f["key"], f"{f['key']}: {f['detail'][:400]}", {**replay, "failure": f})
        if diffs:
            breaks.append({**replay, "differences": diffs})
    ctx.stats["correspondence_breaks"] = len(breaks)
    if breaks and not ctx.violations:
        ctx.report("correspondence", "path/report model and implementation disagree; the C14 specification holds on every sampled run",
                   {"correspondence": "c14.run vs API (write log, report, files on disk)", "first": breaks[0], "count": len(breaks)}, no_failing_input=True)
    elif breaks:
        ctx.stats["correspondence_first"] = json.dumps(breaks[0]["differences"][0])[:400]
    ctx.assumptions += [
        "file system: case-sensitive; symbolic links only on the input side (directories on the way to IDL / @extern / include files, one level: link targets are link-free), where an entry of the report stands for the file it denotes (`phys`); output directories, the report path and the working directory are link-free and `..` in them is resolved lexically (`resolve`)",
        "Dom relNamesClean: every relative name a generator passes consists of ordinary components (no '/', '.', '..'); true for names derived from IDL identifiers",
        "Dom outDirsDisjoint: the output directories of different generators are not nested in each other (otherwise `clean` of one removes files of another); directories *next to* each other are unrelated whatever their names (sibling stream)",
        "report_inputs_exact is about the reads the front end issues; that these are root ∪ transitive imports (each once) is C16's theorem, checked here against the import graph — by file identity: the harness's walk of the documented search order through the sandbox's links, `os.path.realpath` of every report entry, and the files opened during parse",
    ]


def replay(ctx, body):
    job, meta = body["job"], body["meta"]
    tables = sysgen.live_tables(ctx)
    if body.get("kind") == "multi":
        obs = sysgen.run_jobs(ctx, [job], workers=1, tag="c14r")[0]
        fails, diffs = evaluate_multi(ctx, job, meta, obs, tables)
        print(json.dumps({"failures": fails[:10], "model_vs_impl": diffs[:5]}, indent=1)[:4000])
        return not fails
    obs = sysgen.run_jobs(ctx, [job], workers=1, tag="c14r")[0]
    m, s, pyfails = evaluate(ctx, job, meta, obs, tables)
    ofails = override_side(job, meta, obs)
    print(json.dumps({"spec": s, "override": ofails, "python_side": pyfails, "model_vs_impl": compare(job, meta, obs, m, s)}, indent=1)[:4000])
    return s["holds"] and not pyfails and not ofails
