"""C14 — files land where configured and the processed-files report is exact.

Proof: `Props/C14.lean` over the models `Gen/Paths.lean` (pathlib join, `header/source` names of every
generator, the extra files of the JNI/Java/Objective-C generators, YAML) and `Sys/Files.lean`
(`FileReaderWriter` as a state machine, report, `clean`, one whole run).

Tie (every run): real `API` runs in fresh processes (`sysworker.py`) over generated programs x output
directory spellings (relative, `./x/`, nested, absolute, split header/source, mixed) x working
directories x IDL path spellings x report formats (yaml/yml/json/toml) x `clean` with pre-existing
files inside and outside the output directories. Observation: the `PYDJINNI_VERIF=1` write log,
the parsed report, directory snapshots before/after. Compared with the model's predicted log, report
and file set (`c14.run`, fed with the declarations as the real parser produced them and the
configuration as the real validation produced it).

Several contexts of one API object (the generator instances are shared): streams of interleaved
parse / generate (clean on/off) / report calls over two configurations with disjoint output directories
(relative / absolute / split spellings mixed), observed call by call (write log slice, snapshot diff).
Specification per call (`c14.callspec`, Lean) = the C14 statement for the context the call belongs to:
every write below the output directories of *that* context's generators of the target, the report at
*that* context's report path, nothing else created / changed / deleted, `clean` purges exactly these
directories; the model (`c14.run` for the one target, from the files present before the call) predicts
the call's write log and the files afterwards. `api_generate_lands_in_own_dirs` (Props/C14.lean) is the
theorem: from any state of the API object, `generate` writes `<directory of the generating context>/<name>`.

Specification on the implementation's observation (`c14.spec`, Lean): every write below a configured
output directory (not `<out>/<out>/…`), nothing else created/changed, deletions only by `clean` below
the cleaned directories, report == write log per generator with its directories, inputs == root ∪
transitive imports ∪ @extern files (from the import graph the harness built), report validates against
the published `API().processed_files_model` and parses in its format.
"""
from __future__ import annotations

import json
import os
import random

import sysgen

LEAN_MODULE = "PydjinniModel.Props.C14"
THEOREMS = [
    "Pydjinni.GenC.join_rel_parts",
    "Pydjinni.GenC.genRel_relative",
    "Pydjinni.GenC.writes_under_out",
    "Pydjinni.GenC.no_double_prefix",
    "Pydjinni.GenC.legacy_loader_doubled",
    "Pydjinni.SysC.norm_append_clean",
    "Pydjinni.SysC.resolve_under_out",
    "Pydjinni.SysC.run_header",
    "Pydjinni.SysC.run_source",
    "Pydjinni.SysC.report_eq_log",
    "Pydjinni.SysC.report_keys_exact",
    "Pydjinni.SysC.report_inputs_exact",
    "Pydjinni.SysC.log_exact",
    "Pydjinni.SysC.clean_only_out_dirs",
    "Pydjinni.SysC.genStep_preserves_outside",
    "Pydjinni.SysC.runTargets_preserves_outside",
    "Pydjinni.SysC.runTargets_creates_only_writes",
    "Pydjinni.SysC.generateGens_files",
    "Pydjinni.SysC.api_generate_lands_in_own_dirs",
    "Pydjinni.SysC.api_generate_under_own_out",
    "Pydjinni.SysC.legacy_generate_lands_in_foreign_dir",
]
LEVEL = "proof"
TRUSTED = ["sysworker.py adapter: dumps of the validated configuration and of the parser's declaration list are the model's inputs",
           "support-library file listing read from the implementation's own directories (copy order is os.scandir order: compared as sets)"]

FORMATS = ["yaml", "yml", "json", "toml"]
CWDS = [".", "proj", "work/deep"]


def dfs_order(root, imports):
    seen = [root]

    def go(u):
        for v in imports.get(u, []):
            if v not in seen:
                seen.append(v)
                go(v)
    go(root)
    return seen


def rootrel(cwd, spelled):
    """sandbox-root-relative location of a configured path"""
    if spelled.startswith("{ROOT}/"):
        return os.path.normpath(spelled[len("{ROOT}/"):])
    return os.path.normpath(os.path.join(cwd, spelled))


def out_dirs(cwd, opts):
    ds = []
    for k, c in opts["generate"].items():
        if isinstance(c, dict) and "out" in c:
            o = c["out"]
            ds += [rootrel(cwd, x) for x in ([o] if isinstance(o, str) else [o["header"], o["source"]])]
    return ds


def make_case(seed_key: str, tier_quick: bool, forced=None):
    r = random.Random(seed_key)
    forced = forced or {}
    multi = r.random() < 0.45
    ext = r.random() < 0.35
    pg = sysgen.ProgGen(r, stress=r.choice(["plain", "plain", "mixed"]), multi_file=multi, with_extern=ext, max_decls=r.choice([2, 4, 6]))
    prog = pg.program()
    cwd = forced.get("cwd", r.choice(CWDS))
    nt = r.choice([1, 1, 2, 3])
    targets = r.sample(sysgen.TARGETS, nt)
    if forced.get("targets"):
        targets = forced["targets"]
    fmt = forced.get("fmt", r.choice(FORMATS))
    rep_kind = r.choice(["rel", "sub", "abs"])
    report = {"rel": f"processed.{fmt}", "sub": f"reports/out/files.{fmt}", "abs": "{ROOT}/abs_report." + fmt}[rep_kind]
    out_kind = forced.get("out_kind", r.choice(sysgen.OUT_KINDS))
    inc = os.path.relpath("inc", cwd) if r.random() < 0.6 else "{ROOT}/inc"
    opts = sysgen.make_options(r, targets, out_kind=out_kind, naming=r.choice(["default", "default", "random"]), report=report, include_dirs=[inc])
    clean = forced.get("clean", r.random() < 0.5)
    idl = os.path.relpath(prog["root"], cwd) if r.random() < 0.6 else "{ROOT}/" + prog["root"]
    # pre-existing files: inside every output directory, next to them (sharing a name prefix), elsewhere
    pre = {"README.txt": "keep me", "proj/notes.txt": "keep me too", "gen/keep.txt": "outside"}
    for d in out_dirs(cwd, opts):
        pre[f"{d}/stale_{len(pre)}.hpp"] = "stale"
        pre[f"{d}/old/deep/stale.txt"] = "stale"
        pre[f"{d}x/sibling.txt"] = "sibling of an output directory"
        pre[f"{os.path.dirname(d)}/beside_{len(pre)}.txt"] = "beside"
    calls = [{"op": "parse", "ctx": 0, "idl": idl}] + [{"op": "generate", "gc": 0, "target": t, "clean": clean} for t in targets] + [{"op": "report", "gc": 0}]
    job = {"files": prog["files"], "pre": pre, "cwd": cwd, "contexts": [opts], "calls": calls, "snapshot": True}
    meta = {"out_kind": out_kind, "cwd": cwd, "fmt": fmt, "report": rep_kind, "clean": clean, "targets": targets, "idl_abs": idl.startswith("{ROOT}"),
            "features": prog["features"], "reads": dfs_order(prog["root"], prog["imports"]), "exts": prog["externs"]}
    return job, meta


def model_request(job, meta, obs, tables):
    R = obs["root"]
    parse = obs["calls"][0]
    cwd_abs = os.path.normpath(os.path.join(R, job["cwd"]))
    return {"op": "c14.run", "cwd": cwd_abs, "gens": obs["cfg"][0], "targets": meta["targets"], "clean": meta["clean"],
            "supportLib": obs["meta"][0]["supportLib"], "support": tables["support"], "defs": parse.get("defs", []),
            "report": obs["meta"][0]["report"],
            "reads": [os.path.join(R, p) for p in meta["reads"]], "exts": [os.path.join(R, p) for p in meta["exts"]],
            "before": sorted(obs["before"].keys())}


def impl_view(job, meta, obs):
    """the implementation's observation in the shape `c14.spec` reads"""
    before, after = obs["before"], obs["after"]
    created = sorted(p for p in after if p not in before or before[p] != after[p])
    deleted = sorted(p for p in before if p not in after)
    log = [e[1] for c in obs["calls"] for e in c["log"]]
    rep = obs["reports"][-1]["data"] if obs.get("reports") and obs["reports"][-1]["data"] is not None else {"parsed": {"idl": [], "external_types": []}, "generated": {}}
    return {"log": log, "created": created, "deleted": deleted,
            "report": {"idl": rep.get("parsed", {}).get("idl", []), "ext": rep.get("parsed", {}).get("external_types", []),
                       "generated": rep.get("generated", {})}}


def absn(cwd_abs, p):
    return os.path.normpath(p if os.path.isabs(p) else os.path.join(cwd_abs, p))


def compare(job, meta, obs, m):
    """model prediction vs implementation -> list of differences"""
    diffs = []
    R = obs["root"]
    cwd_abs = os.path.normpath(os.path.join(R, job["cwd"]))
    entries = [e for c in obs["calls"] for e in c["log"]]
    ilog = [e[1] for e in entries]
    if sorted(ilog) != sorted(m["log"]):
        only_i = sorted(set(ilog) - set(m["log"]))[:4]
        only_m = sorted(set(m["log"]) - set(ilog))[:4]
        diffs.append({"what": "write log (as a multiset of paths)", "only_impl": only_i, "only_model": only_m, "n_impl": len(ilog), "n_model": len(m["log"])})
    else:
        copies = set(e[1] for e in entries if e[0] == "copy")
        iw = [e[1] for e in entries if e[0] == "write"]
        mw = [p for p in m["log"] if p not in copies]
        if iw != mw:
            k = next((i for i, (a, b) in enumerate(zip(iw, mw)) if a != b), min(len(iw), len(mw)))
            diffs.append({"what": "order of rendered files", "at": k, "impl": iw[k:k + 3], "model": mw[k:k + 3]})
    if obs.get("reports") and obs["reports"][-1]["data"] is not None:
        rep = obs["reports"][-1]["data"]
        mg = m["report"]["generated"]
        ig = rep.get("generated", {})
        if sorted(mg) != sorted(ig):
            diffs.append({"what": "generators listed in the report", "impl": sorted(ig), "model": sorted(mg)})
        for k in mg:
            if k not in ig:
                continue
            for f in ("header", "source"):
                if sorted(ig[k].get(f, [])) != sorted(mg[k][f]):
                    diffs.append({"what": f"report generated.{k}.{f}", "impl": sorted(ig[k].get(f, []))[:5], "model": sorted(mg[k][f])[:5]})
            for f in ("include_dir", "source_dir"):
                if f in ig[k] and ig[k][f] != mg[k][f]:
                    diffs.append({"what": f"report generated.{k}.{f}", "impl": ig[k][f], "model": mg[k][f]})
        iidl = [absn(cwd_abs, p) for p in rep.get("parsed", {}).get("idl", [])]
        if iidl != m["report"]["idl"]:
            diffs.append({"what": "report parsed.idl (order of reads)", "impl": iidl, "model": m["report"]["idl"]})
        iext = [absn(cwd_abs, p) for p in rep.get("parsed", {}).get("external_types", [])]
        if iext != m["report"]["ext"]:
            diffs.append({"what": "report parsed.external_types", "impl": iext, "model": m["report"]["ext"]})
    else:
        diffs.append({"what": "report missing or unreadable", "impl": obs.get("reports")})
    if sorted(obs["after"].keys()) != sorted(m["after"]):
        diffs.append({"what": "files on disk afterwards", "only_impl": sorted(set(obs["after"]) - set(m["after"]))[:5],
                      "only_model": sorted(set(m["after"]) - set(obs["after"]))[:5]})
    return diffs


def requests(job, meta, obs, tables):
    req = model_request(job, meta, obs, tables)
    R = obs["root"]
    sreq = {**req, "op": "c14.spec", "impl": impl_view(job, meta, obs),
            "expectIdl": [os.path.normpath(os.path.join(R, p)) for p in meta["reads"]],
            "expectExt": [os.path.normpath(os.path.join(R, p)) for p in meta["exts"]]}
    return [req, sreq]


def python_side(job, obs):
    pyfails = []
    for c, rec in zip(job["calls"], obs["calls"]):
        if not rec["ok"] and not rec.get("skipped"):
            pyfails.append({"key": "run-failed:" + (rec["exc"] or {}).get("cls", "diagnostics"), "detail": json.dumps(rec.get("exc") or rec["diags"][:2])[:300]})
    if not obs.get("reports"):
        pyfails.append({"key": "report-not-written", "detail": ""})
    else:
        rp = obs["reports"][-1]
        if rp["data"] is None:
            pyfails.append({"key": "report-unreadable", "detail": str(rp["valid"])})
        elif rp["valid"] is not True:
            pyfails.append({"key": "report-schema", "detail": str(rp["valid"])})
    return pyfails


def evaluate_many(ctx, items, tables):
    """items: [(job, meta, obs)] -> [(model answer, spec answer, python-side failures)]; one driver process for all"""
    reqs = [q for job, meta, obs in items for q in requests(job, meta, obs, tables)]
    answers = ctx.driver.batch(reqs)
    for a in answers:
        if "error" in a:
            raise RuntimeError(f"driver error {a}")
    return [(answers[2 * i], answers[2 * i + 1], python_side(job, obs)) for i, (job, meta, obs) in enumerate(items)]


def evaluate(ctx, job, meta, obs, tables):
    """-> (model answer, spec answer, python-side failures)"""
    return evaluate_many(ctx, [(job, meta, obs)], tables)[0]


# ---------------------------------------------------------------------------------------------------
# several configured contexts of ONE API object (the generator instances are shared by all of them)
# ---------------------------------------------------------------------------------------------------

MULTI_SHAPES = ["AB.a.b", "AB.b.a", "A.a.B.a.b", "AB.b.A2.a.a2", "random"]


def make_multi_case(seed_key: str, shape: str | None = None):
    """one API object, two configurations with disjoint output directories (different spellings: relative / absolute /
    split mixes, different report files), two programs, an interleaved stream of parse / generate (with and without
    clean) / report calls; every call is observed on its own (write log slice, snapshot diff)."""
    r = random.Random(seed_key)
    pgp = sysgen.ProgGen(r, stress=r.choice(["plain", "plain", "mixed"]), multi_file=r.random() < 0.3, with_extern=r.random() < 0.2, max_decls=r.choice([2, 4]))
    p = pgp.program()
    pgq = sysgen.ProgGen(r, stress="plain", max_decls=r.choice([2, 3]))
    files = dict(p["files"])
    files["proj/q.pydjinni"] = pgq.body(pgq.max_decls)
    roots = [p["root"], "proj/q.pydjinni"]
    cwd = r.choice(CWDS)
    shared = r.choice(sysgen.TARGETS)                     # both contexts configure (at least) this target: same generator instances
    tlists = []
    for _ in range(2):
        ts = [shared] + [t for t in r.sample(sysgen.TARGETS, r.choice([0, 1, 2])) if t != shared]
        r.shuffle(ts)
        tlists.append(ts)
    kinds = r.sample(sysgen.OUT_KINDS, 2)
    inc = os.path.relpath("inc", cwd) if r.random() < 0.6 else "{ROOT}/inc"
    fa, fb = r.sample(FORMATS, 2)
    rep_a = r.choice([f"processed_a.{fa}", "{ROOT}/abs_report_a." + fa])
    rep_b = r.choice([f"reports/out/files_b.{fb}", "{ROOT}/abs_report_b." + fb])
    opt_a = sysgen.make_options(r, tlists[0], out_kind=kinds[0], out_root="genA", naming="default", report=rep_a, include_dirs=[inc])
    opt_b = sysgen.make_options(r, tlists[1], out_kind=kinds[1], out_root=r.choice(["genB", "elsewhere/genB"]), naming=r.choice(["default", "random"]),
                                report=rep_b, include_dirs=[inc])
    options = [opt_a, opt_b]
    spell = lambda f: os.path.relpath(f, cwd) if r.random() < 0.6 else "{ROOT}/" + f
    shape = shape or r.choice(MULTI_SHAPES)
    calls, origin = [], []          # origin[k] = (context, program) of parse result k

    def parse(c, prog):
        calls.append({"op": "parse", "ctx": c, "idl": spell(roots[prog])})
        origin.append((c, prog))
        return len(origin) - 1

    def gen(k, clean=None):
        calls.append({"op": "generate", "gc": k, "target": r.choice(tlists[origin[k][0]]), "clean": r.random() < 0.5 if clean is None else clean})

    def report(k):
        calls.append({"op": "report", "gc": k})
    if shape == "AB.a.b":
        a, b = parse(0, 0), parse(1, 1)
        gen(a), gen(a), gen(b), report(a), report(b)
    elif shape == "AB.b.a":
        a, b = parse(0, 0), parse(1, 1)
        gen(b), gen(a, clean=True), report(b), gen(b, clean=True), gen(a)
    elif shape == "A.a.B.a.b":
        a = parse(0, 0)
        gen(a)
        b = parse(1, r.choice([0, 1]))
        gen(a, clean=True), gen(b), gen(a), report(a)
    elif shape == "AB.b.A2.a.a2":
        a, b = parse(0, 0), parse(1, 1)
        gen(b)
        a2 = parse(0, 1)
        gen(a), gen(b, clean=True), gen(a2), report(b), report(a2)
    else:
        parse(r.choice([0, 1]), r.choice([0, 1]))
        for _ in range(r.choice([5, 7, 9])):
            x = r.random()
            if x < 0.3:
                parse(r.choice([0, 1]), r.choice([0, 1]))
            elif x < 0.42:
                report(r.randrange(len(origin)))
            else:
                gen(r.randrange(len(origin)))
    pre = {"README.txt": "keep me", "proj/notes.txt": "keep me too", "gen/keep.txt": "outside"}
    for o in options:
        for d in out_dirs(cwd, o):
            pre[f"{d}/stale_{len(pre)}.hpp"] = "stale"
            pre[f"{d}/old/deep/stale.txt"] = "stale"
            pre[f"{d}x/sibling.txt"] = "sibling of an output directory"
            pre[f"{os.path.dirname(d)}/beside_{len(pre)}.txt"] = "beside"
    job = {"files": files, "pre": pre, "cwd": cwd, "contexts": options, "calls": calls, "snapshot_calls": True}
    # a generate call whose context is not the one that parsed last
    last, stale = None, 0
    for c in calls:
        if c["op"] == "parse":
            last = c["ctx"]
        elif c["op"] == "generate" and origin[c["gc"]][0] != last:
            stale += 1
    meta = {"shape": shape, "out_kinds": kinds, "cwd": cwd, "targets": tlists, "origin": origin, "stale_context_generates": stale,
            "features": sorted(set(p["features"]) | pgq.features)}
    return job, meta


def evaluate_multi(ctx, job, meta, obs, tables):
    """per call: the C14 statement itself for the context the call belongs to (`c14.callspec`), and the model's
    prediction for that call alone (`c14.run` for one target from the files that were there before the call)"""
    R = obs["root"]
    cwd_abs = os.path.normpath(os.path.join(R, job["cwd"]))
    fails, diffs, sreqs, mreqs, idxs = [], [], [], [], []
    defs_of = {}
    k = -1
    for idx, (call, rec) in enumerate(zip(job["calls"], obs["calls"])):
        if call["op"] == "parse":
            k += 1
            defs_of[k] = rec.get("defs", [])
            c = call["ctx"]
        else:
            c = meta["origin"][call["gc"]][0]
        if not rec["ok"] and not rec.get("skipped"):
            fails.append({"key": "run-failed:" + (rec["exc"] or {}).get("cls", "diagnostics"), "call": idx,
                          "detail": f"call {idx} {call}: " + json.dumps(rec.get("exc") or rec["diags"][:2])[:300]})
        base = {"cwd": cwd_abs, "gens": obs["cfg"][c], "targets": [call["target"]] if call["op"] == "generate" else [],
                "clean": bool(call.get("clean")), "supportLib": obs["meta"][c]["supportLib"], "support": tables["support"],
                "defs": defs_of.get(call.get("gc"), []) if call["op"] == "generate" else [],
                "report": obs["meta"][c]["report"] if call["op"] == "report" else None, "reads": [], "exts": [], "before": rec["existing"]}
        sreqs.append({**base, "op": "c14.callspec", "impl": {"log": [e[1] for e in rec["log"]], "created": rec["created"], "deleted": rec["deleted"]}})
        mreqs.append({**base, "op": "c14.run"})
        idxs.append((idx, call, rec, c))
    answers = ctx.driver.batch(sreqs + mreqs)
    for a in answers:
        if "error" in a:
            raise RuntimeError(f"driver error {a}")
    for (idx, call, rec, c), sa, ma in zip(idxs, answers[:len(sreqs)], answers[len(sreqs):]):
        for f in sa["fails"]:
            fails.append({"key": f["key"], "call": idx,
                          "detail": f"call {idx} {call['op']}({call.get('target', '')}{', clean' if call.get('clean') else ''}) of context {c} "
                                    f"[calls before: {[(x['op'], x.get('ctx', x.get('gc'))) for x in job['calls'][:idx]]}]: {f['detail'][:200]}"})
        if call["op"] == "parse":
            continue
        ilog = sorted(e[1] for e in rec["log"])
        if ilog != sorted(ma["log"]):
            diffs.append({"call": idx, "what": "write log of the call (multiset of paths)", "only_impl": sorted(set(ilog) - set(ma["log"]))[:4],
                          "only_model": sorted(set(ma["log"]) - set(ilog))[:4]})
        after = sorted((set(rec["existing"]) - set(rec["deleted"])) | set(rec["created"]))
        if after != sorted(ma["after"]):
            diffs.append({"call": idx, "what": "files on disk after the call", "only_impl": sorted(set(after) - set(ma["after"]))[:4],
                          "only_model": sorted(set(ma["after"]) - set(after))[:4]})
    return fails, diffs


CORPUS = [
    # witnesses of the two defects of the pinned tree (repaired by `fix:` commits): relative jni.out with loader + async, @extern file
    {"seed_key": "corpus/c14/relative-jni", "forced": {"targets": ["java"], "out_kind": "rel", "clean": False, "cwd": "."}},
    {"seed_key": "corpus/c14/split-jni", "forced": {"targets": ["java", "cpp"], "out_kind": "split", "clean": True, "cwd": "proj"}},
]


def run(ctx):
    ctx.coverage["rule"] = ("one case = program x configuration x working directory x report format x clean; distinct = distinct "
                            "(output spelling, cwd, idl spelling, report format+location, clean, target list, program feature set); "
                            "non-trivial = at least one generated file and a report")
    tables = sysgen.live_tables(ctx)
    n = ctx.n(120, 1500)
    cases = []
    for c in CORPUS:
        cases.append(make_case(c["seed_key"], ctx.quick, c["forced"]) + (c["seed_key"], c["forced"]))
    # systematic sweep of the spelling x cwd x format x clean grid on the java target (loader, async extras), then random
    i = 0
    for ok in sysgen.OUT_KINDS:
        for cwd in CWDS:
            key = f"{ctx.seed}/c14/grid/{ok}/{cwd}"
            forced = {"out_kind": ok, "cwd": cwd, "fmt": FORMATS[i % 4], "clean": i % 2 == 0, "targets": [["java"], ["java", "objc"], ["cpp", "java"]][i % 3]}
            cases.append(make_case(key, ctx.quick, forced) + (key, forced))
            i += 1
    for i in range(n):
        key = f"{ctx.seed}/c14/{i}"
        cases.append(make_case(key, ctx.quick) + (key, None))
    mcases = []
    for sh in MULTI_SHAPES:
        key = f"{ctx.seed}/c14/multi/shape/{sh}"
        mcases.append(make_multi_case(key, sh) + (key,))
    for i in range(ctx.n(45, 500)):
        key = f"{ctx.seed}/c14/multi/{i}"
        mcases.append(make_multi_case(key) + (key,))
    allres = sysgen.run_jobs(ctx, [c[0] for c in cases] + [c[0] for c in mcases], tag="c14")
    results, mresults = allres[:len(cases)], allres[len(cases):]
    breaks = []
    for (job, meta, key, forced), obs in zip(cases, results):
        if "fatal" in obs:
            raise RuntimeError(f"worker failed on {key}: {obs['fatal']}")
    evaluated = evaluate_many(ctx, [(job, meta, obs) for (job, meta, key, forced), obs in zip(cases, results)], tables)
    for (job, meta, key, forced), obs, (m, s, pyfails) in zip(cases, results, evaluated):
        nfiles = sum(len(c["log"]) for c in obs["calls"])
        ctx.count(key=json.dumps([meta["out_kind"], meta["cwd"], meta["idl_abs"], meta["fmt"], meta["report"], meta["clean"], meta["targets"], meta["features"]]),
                  nontrivial=nfiles > 1, sample={"targets": meta["targets"], "out": meta["out_kind"], "cwd": meta["cwd"], "files_written": nfiles})
        for k in ("out_kind", "cwd", "fmt", "clean"):
            ctx.stat(f"{k}={meta[k]}")
        for t in meta["targets"]:
            ctx.stat("target=" + t)
        for f in meta["features"]:
            if f.startswith(("files:", "extern", "async")):
                ctx.stat("feature " + f)
        ctx.stat("files_written", nfiles)
        if not m.get("relNamesClean", True):
            ctx.stat("outside Dom: relNamesClean")
        replay = {"seed_key": key, "forced": forced, "job": job, "meta": meta}
        for f in s["fails"] + pyfails:
            ctx.report("files:" + f["key"], f"{f['key']}: {f['detail'][:200]}", {**replay, "failure": f, "spec": s})
        d = compare(job, meta, obs, m)
        if d:
            breaks.append({**replay, "differences": d})
    # ---- several contexts of one API object --------------------------------------------------------
    for (job, meta, key), obs in zip(mcases, mresults):
        if "fatal" in obs:
            raise RuntimeError(f"worker failed on {key}: {obs['fatal']}")
        fails, diffs = evaluate_multi(ctx, job, meta, obs, tables)
        ngen = sum(1 for c in job["calls"] if c["op"] == "generate")
        ctx.count(key=json.dumps(["multi", meta["shape"], meta["out_kinds"], meta["cwd"], meta["targets"], [(c["op"], c.get("ctx", c.get("gc")), c.get("clean")) for c in job["calls"]]]),
                  nontrivial=meta["stale_context_generates"] > 0,
                  sample={"shape": meta["shape"], "out": meta["out_kinds"], "cwd": meta["cwd"], "targets": meta["targets"], "calls": len(job["calls"])})
        ctx.stat("multi_streams")
        ctx.stat("multi_shape=" + meta["shape"])
        ctx.stat("multi_calls", len(job["calls"]))
        ctx.stat("multi_generate_calls", ngen)
        ctx.stat("multi_generates_from_a_context_that_did_not_parse_last", meta["stale_context_generates"])
        ctx.stat("multi_clean_generates", sum(1 for c in job["calls"] if c.get("clean")))
        ctx.stat("multi_files_written", sum(len(c["log"]) for c in obs["calls"]))
        for kd in meta["out_kinds"]:
            ctx.stat("multi_out_kind=" + kd)
        replay = {"kind": "multi", "seed_key": key, "job": job, "meta": meta}
        for f in fails:
            ctx.report("multi:" + f["key"], f"{f['key']}: {f['detail'][:400]}", {**replay, "failure": f})
        if diffs:
            breaks.append({**replay, "differences": diffs})
    ctx.stats["correspondence_breaks"] = len(breaks)
    if breaks and not ctx.violations:
        ctx.report("correspondence", "path/report model and implementation disagree; the C14 specification holds on every sampled run",
                   {"correspondence": "c14.run vs API (write log, report, files on disk)", "first": breaks[0], "count": len(breaks)}, no_failing_input=True)
    elif breaks:
        ctx.stats["correspondence_first"] = json.dumps(breaks[0]["differences"][0])[:400]
    ctx.assumptions += [
        "file system: case-sensitive, no symbolic links inside the sandbox; `..` is resolved lexically",
        "Dom relNamesClean: every relative name a generator passes consists of ordinary components (no '/', '.', '..'); true for names derived from IDL identifiers",
        "Dom outDirsDisjoint: the output directories of different generators are not nested in each other (otherwise `clean` of one removes files of another)",
        "report_inputs_exact is about the reads the front end issues; that these are root ∪ transitive imports (each once) is C16's theorem, checked here against the import graph",
    ]


def replay(ctx, body):
    job, meta = body["job"], body["meta"]
    tables = sysgen.live_tables(ctx)
    if body.get("kind") == "multi":
        obs = sysgen.run_jobs(ctx, [job], workers=1, tag="c14r")[0]
        fails, diffs = evaluate_multi(ctx, job, meta, obs, tables)
        print(json.dumps({"failures": fails[:10], "model_vs_impl": diffs[:5]}, indent=1)[:4000])
        return not fails
    obs = sysgen.run_jobs(ctx, [job], workers=1, tag="c14r")[0]
    m, s, pyfails = evaluate(ctx, job, meta, obs, tables)
    print(json.dumps({"spec": s, "python_side": pyfails, "model_vs_impl": compare(job, meta, obs, m)}, indent=1)[:4000])
    return s["holds"] and not pyfails
