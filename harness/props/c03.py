"""C03 — the AST delivered by parsing is a faithful image of the source text.

Tie: correspondence between the Lean lexer/parser/visitor model (`c03.parse`) and the real
`ConfiguredContext.parse` on generated programs rendered with random layouts (canonical AST with
positions), plus the exhaustive target-flag sequences. Specification evaluated on the
implementation's own observation: the AST (positions dropped) equals what the generator wrote, and
every recorded position delimits exactly the tokens of its construct.
"""
from __future__ import annotations

import itertools
import json
import random
from pathlib import Path

import front

LEAN_MODULE = "PydjinniModel.Props.C03All"
THEOREMS = [
    "Pydjinni.Front.mem_addIncludes_iff",
    "Pydjinni.Front.mem_evalTargets_iff",
    "Pydjinni.Front.evalTargets_nodup",
    "Pydjinni.Front.evalTargets_flag_set",
    "Pydjinni.Front.evalTargets_nil",
    "Pydjinni.Front.targetsOrAll_nil",
    "Pydjinni.Front.commentText_none_iff",
    "Pydjinni.Front.stripL_no_leading",
    "Pydjinni.Front.stripL_suffix",
    "Pydjinni.Front.spanLen_le",
    "Pydjinni.Front.idLen_le",
    "Pydjinni.Front.dataType_roundtrip",
    "Pydjinni.Front.dataType_roundtrip_length",
    "Pydjinni.Front.dataArgs_roundtrip",
    "Pydjinni.Front.typeRefL_roundtrip",
    "Pydjinni.Front.dataType_sound",
    "Pydjinni.Front.dataArgs_sound",
    "Pydjinni.Front.dataType_consumes_prefix",
    "Pydjinni.Front.dataType_is_data",
    "Pydjinni.Front.dataType_follow_necessary",
    "Pydjinni.Front.dataType_mono",
    "Pydjinni.Front.field_roundtrip",
    "Pydjinni.Front.lexOne_tok_bounds",
    "Pydjinni.Front.lexOne_skip_bounds",
    "Pydjinni.Front.lexAux_fuel",
    "Pydjinni.Front.lex_none_iff",
    "Pydjinni.Front.lexAux_ne_none",
    "Pydjinni.Front.lex_token_position",
    "Pydjinni.Front.lex_token_bounds",
    "Pydjinni.Front.lex_token_column",
    "Pydjinni.Front.lex_reconstruct",
    "Pydjinni.Front.lex_lengths",
    "Pydjinni.Front.scan_ws_run",
    "Pydjinni.Front.lex_ws_invariant",
    "Pydjinni.Front.decl_roundtrip",
    "Pydjinni.Front.enum_roundtrip",
    "Pydjinni.Front.flags_roundtrip",
    "Pydjinni.Front.record_roundtrip",
    "Pydjinni.Front.interface_roundtrip",
    "Pydjinni.Front.function_roundtrip",
    "Pydjinni.Front.errorDomain_roundtrip",
    "Pydjinni.Front.method_roundtrip",
    "Pydjinni.Front.property_roundtrip",
    "Pydjinni.Front.errCode_roundtrip",
    "Pydjinni.Front.content_roundtrip",
    "Pydjinni.Front.file_roundtrip",
    "Pydjinni.Front.text_roundtrip",
    "Pydjinni.Front.printFile_injective",
    "Pydjinni.Front.enum_sound",
    "Pydjinni.Front.flags_sound",
    "Pydjinni.Front.record_sound",
    "Pydjinni.Front.enum_parse_iff_print",
    "Pydjinni.Front.flags_parse_iff_print",
    "Pydjinni.Front.lexOne_wf",
    "Pydjinni.Front.lexOne_wf_iff",
    "Pydjinni.Front.lex_render",
    "Pydjinni.Front.lex_render_iff",
    "Pydjinni.Front.lex_iff_render",
    "Pydjinni.Front.lex_layout_independent",
    "Pydjinni.Front.lex_render_position",
    "Pydjinni.Front.FileShape.good_wf",
    "Pydjinni.Front.source_roundtrip",
    "Pydjinni.Front.source_roundtrip_good",
    "Pydjinni.Front.layout_independence",
    "Pydjinni.Front.source_injective",
    "Pydjinni.Front.lex_starts_increasing",
    "Pydjinni.Front.parseText_refPositionsDistinct",
    "Pydjinni.Front.interface_sound",
    "Pydjinni.Front.function_sound",
    "Pydjinni.Front.errorDomain_sound",
    "Pydjinni.Front.content_sound",
    "Pydjinni.Front.file_sound",
    "Pydjinni.Front.parseFile_iff_print",
    "Pydjinni.Front.parseText_iff_render",
    "Pydjinni.Front.spanPos_eq_tokSpan",
    "Pydjinni.Front.dataType_span",
    "Pydjinni.Front.dataType_span_first_last",
    "Pydjinni.Front.field_span",
    "Pydjinni.Front.typeDecl_span",
    "Pydjinni.Front.record_span",
    "Pydjinni.Front.interface_span",
    "Pydjinni.Front.parseFile_span",
    "Pydjinni.Front.lex_segment_text",
    "Pydjinni.Front.dataType_text_segment",
    "Pydjinni.Front.lex_ordered",
    "Pydjinni.Front.dataType_args_nest",
    "Pydjinni.Front.record_field_within_pos",
    "Pydjinni.Front.member_param_within_pos",
]
LEVEL = "proof"


def squash(s: str) -> str:
    return "".join(s.split())


def slice_text(text: str, p):
    lines = text.split("\n")
    sl, sc, el, ec = p
    if sl < 1 or el < sl or el > len(lines):
        return None
    if sl == el:
        return lines[sl - 1][sc:ec]
    return "\n".join([lines[sl - 1][sc:]] + lines[sl:el - 1] + [lines[el - 1][:ec]])


def position_failures(text, decls, impl_ast):
    """every recorded position delimits exactly the text of its construct (white space ignored)"""
    R = front.Render(None, 'min')
    bad = []

    def chk(what, p, toks):
        s = slice_text(text, p)
        exp = "".join(squash(t) for t in toks)
        if s is None or squash(s) != exp or (s and (s[0].isspace() or s[-1].isspace())):
            bad.append({"construct": what, "position": p, "slice": s, "expected_tokens": exp})

    def inside(what, parent, child):
        """positions nest like the constructs: a part lies within the span of the construct it is part of"""
        if parent is None or child is None:
            return
        if (child[0], child[1]) < (parent[0], parent[1]) or (child[2], child[3]) > (parent[2], parent[3]):
            bad.append({"construct": what, "position": child, "enclosing": parent, "why": "part lies outside the construct it belongs to"})

    def chk_type(t, it, what, parent=None):
        if it is None:
            return
        chk(what, it["p"], R.ty(t))
        inside(what, parent, it["p"])
        if 'fn' in t:
            f = t['fn']
            for (n, pt), ip in zip(f['params'], it["fn"]["params"]):
                chk(what + ".param", ip["p"], [n, ':'] + R.ty(pt))
                inside(what + ".param", it["p"], ip["p"])
                chk_type(pt, ip["t"], what + ".param.type", ip["p"])
            if f['ret']:
                chk_type(f['ret'], it["fn"]["ret"], what + ".ret", it["p"])
            for tt, itt in zip(f['throws'] or [], it["fn"]["throws"] or []):
                chk_type(tt, itt, what + ".throws", it["p"])
        else:
            for a, ia in zip(t['args'], it["a"]):
                chk_type(a, ia, what + ".arg", it["p"])

    def chk_sig(f, node, what, parent=None):
        for (n, pt), ip in zip(f['params'], node["params"]):
            chk(what + ".param", ip["p"], [n, ':'] + R.ty(pt))
            inside(what + ".param", parent, ip["p"])
            chk_type(pt, ip["t"], what + ".param.type", ip["p"])
        if f['ret']:
            chk_type(f['ret'], node["ret"], what + ".ret", parent)
        for tt, itt in zip(f['throws'] or [], node["throws"] or []):
            chk_type(tt, itt, what + ".throws", parent)

    for d, n in zip(decls, front.flatten_decls(impl_ast)):
        k = d['k']
        chk(k, n["p"], R.decl(d))
        if k == 'enum':
            for i, ii in zip(d['items'], n["items"]):
                chk("item", ii["p"], list(i['comment']) + [i['name'], ';'])
        elif k == 'flags':
            for i, ii in zip(d['items'], n["items"]):
                chk("flag", ii["p"], list(i['comment']) + [i['name']] + (['=', i['mod']] if i['mod'] is not None else []) + [';'])
        elif k == 'record':
            for f, fi in zip(d['fields'], n["fields"]):
                chk("field", fi["p"], list(f['comment']) + [f['name'], ':'] + R.ty(f['type']) + [';'])
                inside("field", n["p"], fi["p"])
                chk_type(f['type'], fi["t"], "field.type", fi["p"])
        elif k == 'interface':
            for m, mi in zip(d['methods'], n["methods"]):
                toks = list(m['comment']) + (['static'] if m['static'] else []) + (['const'] if m['const'] else []) + \
                       (['async'] if m['async'] else []) + [m['name']] + R.fn(m['sig']) + [';']
                chk("method", mi["p"], toks)
                inside("method", n["p"], mi["p"])
                chk_sig(m['sig'], mi, "method", mi["p"])
            for p, pi in zip(d['props'], n["props"]):
                chk("property", pi["p"], list(p['comment']) + ['property', p['name'], ':'] + R.ty(p['type']) + [';'])
                inside("property", n["p"], pi["p"])
                chk_type(p['type'], pi["t"], "property.type", pi["p"])
        elif k == 'function':
            chk_sig(d['sig'], n["fn"], "function", n["p"])
        elif k == 'error':
            for c, ci in zip(d['codes'], n["codes"]):
                toks = list(c['comment']) + [c['name']]
                if c['params'] is not None:
                    toks += ['(']
                    for (pn, pt) in c['params']:
                        toks += [pn, ':'] + R.ty(pt)
                    toks += [')']
                chk("error_code", ci["p"], toks + [';'])
                for (pn, pt), ip in zip(c['params'] or [], ci["params"]):
                    chk("error_code.param", ip["p"], [pn, ':'] + R.ty(pt))
                    inside("error_code.param", ci["p"], ip["p"])
                    chk_type(pt, ip["t"], "error_code.param.type", ip["p"])
    return bad


def spec_failures(text, decls, impl, keys, dd):
    """C03 specification on the implementation's observation. Returns a list of failures."""
    if impl["kind"] not in ("ok", "diags") or "ast" not in impl:
        return []
    got = front.strip_positions(front.flatten_decls(impl["ast"]))
    exp = front.expected_dump(decls, keys, dd)
    fails = []
    if got != exp:
        # first differing declaration
        for i, (g, e) in enumerate(zip(got, exp)):
            if g != e:
                diff = {k: (g.get(k), e.get(k)) for k in set(g) | set(e) if g.get(k) != e.get(k)}
                fails.append({"kind": "ast-differs-from-source", "decl": e.get("n"), "fields": diff})
                break
        else:
            fails.append({"kind": "ast-differs-from-source", "got_n": len(got), "expected_n": len(exp)})
        return fails
    pf = position_failures(text, decls, impl["ast"])
    if pf:
        fails.append({"kind": "position-does-not-delimit", "first": pf[0], "count": len(pf)})
    return fails


def one_case(ctx, rctx, sandbox: Path, case_id, decls, text, dd, keys, requests, cases):
    p = sandbox / "m.djinni"
    p.write_text(text, newline="")
    impl = front.real_parse(rctx[tuple(dd)], p, sandbox)
    impl.pop("result", None)
    requests.append({"op": "c03.parse", "text": text, "keys": keys, "defaultDeriving": list(dd)})
    cases.append((case_id, decls, text, dd, impl))


def classify(decls):
    kinds = sorted({d['k'] for d in decls})
    feats = set()
    for d in decls:
        if d.get('comment'):
            feats.add('c')
        if d['ns']:
            feats.add('ns%d' % len(d['ns']))
        for f in d.get('flags') or []:
            feats.add('fl')
    return ",".join(kinds) + "|" + ",".join(sorted(feats))


def run(ctx):
    keys = front.target_keys()
    ctx.coverage["rule"] = ("generated programs (all declaration kinds, namespaces, nested generics, inline function types, comments with "
                            "@deprecated/@param, target flags) rendered with random layouts; distinct = distinct program text; plus all "
                            "target-flag sequences up to the tier's length on three host declarations")
    ctx.assumptions += ["ANTLR error recovery on syntactically invalid text is not modelled (C06 covers outcome classes)",
                        "Markdown rendering (mistune) is outside the model; comment texts are drawn from a plain alphabet"]
    sandbox = ctx.tmp
    rctx = {(): front.make_context(), ("eq",): front.make_context(default_deriving=["eq"])}
    requests, cases = [], []

    # ---- 1. corpus + generated programs -------------------------------------------------------
    corpus = json.loads((Path(__file__).parent.parent / "corpus" / "c03.json").read_text()) if (Path(__file__).parent.parent / "corpus" / "c03.json").exists() else []
    for i, c in enumerate(corpus):
        one_case(ctx, rctx, sandbox, f"corpus{i}", None, c["text"], tuple(c.get("dd", ())), keys, requests, cases)

    n_prog = ctx.n(900, 8000)
    for i in range(n_prog):
        r = random.Random(f"{ctx.seed}/c03/{i}")
        g = front.Gen(r, p_bad=0.04, dup_names=False, max_decls=r.choice([1, 2, 4, 7]))
        decls = g.program()
        dd = r.choice([(), (), ("eq",)])
        for lay in range(2):
            rr = random.Random(f"{ctx.seed}/c03/{i}/{lay}")
            R = front.Render(rr, 'random' if lay else 'min')
            text = R.join(R.program(decls))
            one_case(ctx, rctx, sandbox, f"p{i}.{lay}", list(R.order), text, dd, keys, requests, cases)

    # ---- 1b. programs with an imported file: the result holds the imported declarations (each once, as written in
    #          their own file) followed by the file's own; the same paths are parsed again and again in this process
    imp_cases = []
    for i in range(ctx.n(120, 1500)):
        r = random.Random(f"{ctx.seed}/c03/imp/{i}")
        gl = front.Gen(r, p_bad=0.0, dup_names=False, max_decls=r.choice([1, 2, 3]))
        gl.well_typed = True
        lib = gl.program_with_visible([], prefix="l_")
        gm = front.Gen(r, p_bad=0.0, dup_names=False, max_decls=r.choice([1, 2, 4]))
        gm.well_typed = True
        main = gm.program_with_visible(lib, prefix="m_")
        Rl, Rm = front.Render(r, r.choice(['min', 'random'])), front.Render(r, r.choice(['min', 'random']))
        lib_text = Rl.join(Rl.program(lib))
        lib_order = list(Rl.order)
        body = Rm.join(Rm.program(main))
        lit = r.choice(["lib.djinni", "./lib.djinni", "sub/../lib.djinni"])
        main_text = f'@import "{lit}"' + r.choice(["\n", "\n\n", " \n"]) + body
        (sandbox / "sub").mkdir(exist_ok=True)
        (sandbox / "lib.djinni").write_text(lib_text, newline="")
        (sandbox / "m.djinni").write_text(main_text, newline="")
        impl = front.real_parse(rctx[()], sandbox / "m.djinni", sandbox, with_defs=True)
        impl.pop("result", None)
        imp_cases.append((i, lib_order, lib_text, list(Rm.order), main_text, impl))
    for (i, lib_order, lib_text, main_order, main_text, impl) in imp_cases:
        ctx.count(key="imp" + str(hash(main_text + lib_text)), sample={"text": main_text[:200], "lib": lib_text[:200], "impl_kind": impl["kind"]})
        ctx.stat("import_impl_" + impl["kind"])
        inp = {"m.djinni": main_text, "lib.djinni": lib_text}
        if impl["kind"] == "crash":
            ctx.report("internal-error", "parsing ended in an internal exception", {"input": inp, "impl": impl})
            continue
        if impl["kind"] != "ok":
            # the generator aims at well-typed programs; whether this one is, is the front-end model's call
            req = front.front_request({"/w/m.djinni": main_text, "/w/lib.djinni": lib_text, **({"/w/sub/x.djinni": ""} if "sub/" in main_text.split("\n")[0] else {})}, "/w/m.djinni")
            m = ctx.driver.one(req)
            ctx.stat("import_rejected_model_" + str(m.get("kind")))
            if m.get("kind") == "ok":
                ctx.report("ast-not-faithful:accepted-by-the-model-rejected-by-the-parser", "a two-file program the front-end model accepts is rejected",
                           {"input": inp, "impl": {k: v for k, v in impl.items() if k not in ("ast", "bindings")}})
            continue
        fails = spec_failures(main_text, main_order, impl, keys, ())
        got = {(tuple(d["ns"]), d["n"]): d for d in impl["defs_dump"]}
        if len(got) != len(impl["defs_dump"]):
            fails.append({"kind": "imported-declaration-twice", "names": sorted(".".join(list(k[0]) + [k[1]]) for k in got)})
        for d_exp, d_src in zip(front.expected_dump(lib_order, keys, ()), lib_order):
            g = got.get((tuple(d_exp["ns"]), d_exp["n"]))
            if g is None:
                fails.append({"kind": "imported-declaration-missing", "decl": d_exp["n"]})
                break
            if g["file"] != "/lib.djinni" or front.strip_positions({k: v for k, v in g.items() if k != "file"}) != d_exp:
                fails.append({"kind": "imported-declaration-differs-from-source", "decl": d_exp["n"], "file": g["file"]})
                break
        lib_ast = [{k: v for k, v in got[(tuple(d["ns"]), d["n"])].items() if k != "file"} for d in front.expected_dump(lib_order, keys, ()) if (tuple(d["ns"]), d["n"]) in got]
        if not fails and len(lib_ast) == len(lib_order):
            pf = position_failures(lib_text, lib_order, lib_ast)
            if pf:
                fails.append({"kind": "position-does-not-delimit", "file": "lib.djinni", "first": pf[0], "count": len(pf)})
        for f in fails:
            ctx.report("ast-not-faithful:" + f["kind"], "the delivered AST is not a faithful image of the source text (program with an imported file)",
                       {"input": inp, "failure": f})

    # ---- 2. exhaustive target-flag sequences --------------------------------------------------
    alphabet = [s + n for s in "+-" for n in ["cpp", "java", "objc", "cppcli", "yaml", "any", "zz"]]
    maxlen = ctx.n(2, 3)
    seqs = [list(s) for L in range(maxlen + 1) for s in itertools.product(alphabet, repeat=L)]
    if ctx.quick:
        r = random.Random(f"{ctx.seed}/c03/flags")
        seqs += [list(s) for s in r.sample(list(itertools.product(alphabet, repeat=3)), 250)]
    hosts = ["a = interface %s { m(); }\nb = interface { }", "a = record %s { f: i32; }\nb = interface { }",
             "a = function %s (x: i32);\nb = interface { }"]
    flag_cases = []
    for s in seqs:
        for h, host in enumerate(hosts):
            text = host % " ".join(s)
            flag_cases.append((s, h, text))
    for s, h, text in flag_cases:
        p = sandbox / "m.djinni"
        p.write_text(text)
        impl = front.real_parse(rctx[()], p, sandbox)
        impl.pop("result", None)
        requests.append({"op": "c03.parse", "text": text, "keys": keys, "defaultDeriving": []})
        cases.append((("flags", tuple(s), h), None, text, (), impl))

    answers = ctx.driver.batch(requests)

    # ---- 3. compare --------------------------------------------------------------------------
    corr_breaks = []
    for (cid, decls, text, dd, impl), m in zip(cases, answers):
        if "error" in m:
            raise RuntimeError(f"driver error {m}")
        is_flags = isinstance(cid, tuple)
        key = text if not is_flags else ("flags",) + cid[1:]
        ctx.count(key=front.__name__ + str(hash(key)), sample={"text": text[:300], "impl_kind": impl["kind"]} if not is_flags else None)
        ctx.stat("impl_" + impl["kind"])
        model_ok = m.get("lex") and m.get("parse")
        if impl["kind"] in ("ok", "diags") and "ast" in impl:
            syntax_diag = impl["kind"] == "diags" and any("ParsingException" == d["cls"] and d["p"][0:2] == d["p"][2:4] for d in impl["diags"])
            if not model_ok:
                if not syntax_diag:
                    corr_breaks.append({"case": str(cid), "text": text, "why": "model rejects syntax, implementation delivers an AST", "impl": impl["kind"]})
                continue
            if syntax_diag:
                corr_breaks.append({"case": str(cid), "text": text, "why": "implementation reports a syntax error, model parses", "impl": impl})
                continue
            mast = front.canon_model_ast(m["file"]["ast"])
            if mast != impl["ast"]:
                corr_breaks.append({"case": str(cid), "text": text, "why": "AST differs", "model": first_diff(mast, impl["ast"])})
            # specification on the implementation's observation
            if decls is not None:
                fails = spec_failures(text, decls, impl, keys, dd)
                for f in fails:
                    ctx.report("ast-not-faithful:" + f["kind"], "the delivered AST is not a faithful image of the source text",
                               {"input": {"m.djinni": text, "default_deriving": list(dd)}, "failure": f})
            elif is_flags:
                s, h = cid[1], cid[2]
                node = front.flatten_decls(impl["ast"])[0]
                got = node["fn"]["targets"] if h == 2 else node["targets"]
                exp = flag_spec(keys, list(s), or_all=(h != 1))
                other = front.flatten_decls(impl["ast"])[1]["targets"]
                if got != exp or other != sorted(keys):
                    ctx.report("targets-not-as-denoted", "target set differs from what the +/- flags denote (or leaks into a later declaration)",
                               {"input": {"m.djinni": text}, "flags": list(s), "got": got, "expected": exp, "later_interface_targets": other})
        elif impl["kind"] == "crash":
            corr_breaks.append({"case": str(cid), "text": text, "why": "implementation crashed", "impl": impl})
            ctx.report("internal-error", "parsing ended in an internal exception", {"input": {"m.djinni": text}, "impl": impl})
        elif impl["kind"] == "raised":
            ctx.stat("raised_skipped")

    ctx.stats["correspondence_breaks"] = len(corr_breaks)
    if corr_breaks and not ctx.violations:
        ctx.report("correspondence", "model and implementation disagree on the AST; the specification holds on every sampled input",
                   {"correspondence": "c03.parse vs ConfiguredContext.parse", "first": corr_breaks[0], "count": len(corr_breaks)},
                   no_failing_input=True)
    elif corr_breaks:
        ctx.stats["correspondence_first"] = corr_breaks[0]["why"]


def flag_spec(keys, flags, or_all):
    """set-theoretic reading of a flag sequence (independent of the implementation and the model)"""
    plus = [f[1:] for f in flags if f[0] == '+' and f != '+any']
    minus = {f[1:] for f in flags if f[0] == '-'}
    inc = set(plus) | (set(keys) if '+any' in flags else set())
    if not inc and minus:
        inc = set(keys)
    t = sorted(inc - minus)
    if or_all and not t:
        t = sorted(keys)
    return t


def first_diff(a, b, path=""):
    if type(a) != type(b):
        return {"path": path, "model": a, "impl": b}
    if isinstance(a, dict):
        for k in sorted(set(a) | set(b)):
            if a.get(k) != b.get(k):
                return first_diff(a.get(k), b.get(k), path + "/" + k)
    if isinstance(a, list):
        if len(a) != len(b):
            return {"path": path, "model_len": len(a), "impl_len": len(b)}
        for i, (x, y) in enumerate(zip(a, b)):
            if x != y:
                return first_diff(x, y, f"{path}[{i}]")
    return {"path": path, "model": a, "impl": b}


def replay(ctx, body):
    keys = front.target_keys()
    inp = body["input"]
    p = ctx.tmp / "m.djinni"
    p.write_text(inp["m.djinni"], newline="")
    if "lib.djinni" in inp:
        (ctx.tmp / "sub").mkdir(exist_ok=True)
        (ctx.tmp / "lib.djinni").write_text(inp["lib.djinni"], newline="")
    dd = tuple(inp.get("default_deriving", ()))
    impl = front.real_parse(front.make_context(default_deriving=list(dd)), p, ctx.tmp)
    impl.pop("result", None)
    print(json.dumps(impl, indent=1)[:3000])
    return impl["kind"] in ("ok", "diags")
