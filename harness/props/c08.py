"""C08 — enum and flag constants have the same numeric value in every target language.

Tie: the Lean model (`Gen/Flags.lean`: the counter loop of the three C-family flags templates, the filtered Java
constant list, enum emission, the JNI conversions; `Lang/EnumEval.lean`: sequential-scope evaluation of enumerator
initialisers) against the real generators: enums and flags with 0..8 items, `none`/`all` in every position and
multiplicity (exhaustive to length 4 quick / 5 thorough), commented and deprecated items — including documentation
texts that can interact with a target's comment syntax (`hazard_docs`: lines ending in backslash runs, comment
closers, backslash runs before `uXXXX`; the extractor applies C line splicing / javac unicode pre-translation before it
recognises comments, so an enumerator swallowed by a comment is missing from the observation) — identifier styles per
target. For every declaration and target the enumerator initialisers are extracted from the generated header with a
tokenizer, parsed, and evaluated *by the Lean evaluator* (`c08.eval`; a Python evaluator with the same rule is
cross-checked); the observation `(constant, value | undefined)` is compared with the model (`c08.model`) and the
specification (`c08.spec`) is evaluated on the implementation's values.
Regeneration stream: the constants are what a build reads *from disk after the tool ran*. A sample of the programs is
generated, then edited (`edit_decl`: two items change places, the list is reversed / rotated, two names change places
under the modifiers, a name is replaced by one of the same length, an item is added) and generated again into the same
output directories — by a new `API` object (a second CLI run) or by the same configured context — without `clean`;
the constants found on disk afterwards are extracted, evaluated and judged by `c08.spec` against the *edited*
declaration, exactly as for a fresh directory (keys `regenerate:…`). Most of these edits leave the rendered length
of every file unchanged.
History stream: the generator instances belong to the `API` object and are shared by every configuration made on it, so
the constants of one project must not depend on what the same `API` object did before or in between. Histories
(`history_specs`) run several *projects* (own IDL file, own output root — plain `out` directories or split
`out: {header, source}` ones —, own identifier styles; the later projects declare the same type names as the first with
the items edited by `edit_decl`) through one `API` object in every order of `HISTORY_ORDERS` (one after the other,
configure/parse of all before any generate, per-target interleaving, back to the first project after an edit, three
projects); afterwards the tree of *every* project is read from disk and each declaration is judged by `c08.spec`
against the declaration of its own project (keys `history:…`).
Target-order stream: all targets of one run are generated from ONE parse (one shared AST), so the constants of a target
must not depend on which targets were generated before it from the same parse. The orders `TARGET_ORDERS` (every
target first once, reversed, C++ in the middle, a target generated twice) are run as one-project histories over
`deprecation_decls` (enums / flags with every pattern of `@deprecated` items, i.e. deprecated items *before* ordinary
ones) with the generators' optional per-declaration outputs switched on (`cpp.string_serialization`: the C++ source
file with `to_string` is rendered); the constants of all targets are then evaluated together against the declaration
in IDL order (keys `history:…`, order names `targets:…`). Half of the projects of the other histories also render the
serialization source.
Judges (validation of the extraction and of `EnumEval`, never the verdict): a model-derived `static_assert`
translation unit compiled with g++ against the generated C++ headers (constants + the bit operators) and the
transplanted C++/CLI enum bodies, random enumerator lists with references for `EnumEval` itself, the ObjC headers with
an NS_ENUM/NS_OPTIONS shim (clang), and `Enum.values()` via a reflection driver (javac + java).
"""
from __future__ import annotations

import copy
import itertools
import json
import random
import re
from pathlib import Path

import glue

LEAN_MODULE = "PydjinniModel.Props.C08"
THEOREMS = [
    "Pydjinni.Gen.enum_values",
    "Pydjinni.Gen.flag_values",
    "Pydjinni.Gen.flag_none_zero",
    "Pydjinni.Gen.flag_all_mask",
    "Pydjinni.Gen.flag_ordinary_bit",
    "Pydjinni.Gen.mask_is_union",
    "Pydjinni.Gen.eval_defined",
    "Pydjinni.Gen.targets_agree",
    "Pydjinni.Gen.java_ordinal_eq_bit",
    "Pydjinni.Gen.javaConstants_length",
    "Pydjinni.Gen.jni_enum_roundtrip",
    "Pydjinni.Gen.jni_flags_fromCpp_toCpp",
    "Pydjinni.Gen.jni_flags_roundtrip",
    "Pydjinni.Gen.pinned_all_before_ordinary_undefined",
    "Pydjinni.Gen.pinned_all_without_ordinary_illformed",
]
LEVEL = "proof"
TRUSTED = (
    "C08: tokenizer/extractor of enumerator lists in harness/glue.py (strict; C line splicing and JLS 3.3 unicode pre-translation applied before comments are recognised; validated each run by the g++/clang/javac judges)",
    "C08: Lang/EnumEval.lean as the meaning of C/C++/ObjC/C++-CLI enumerator initialisers (validated each run against g++ static_asserts)",
    "C08: support library JniEnum/JniFlags (support.cpp) read once and modelled by jniEnum*/jniFlags*; not executed (no JVM embedding here)",
)

STYLES = ["none", "camelCase", "PascalCase", "snake_case", "TRAIN_CASE"]
WORDS = ["red", "green_light", "x1", "alpha_beta_gamma", "k", "v2_final", "Mixed_case", "low", "high_water", "z9",
         "on", "off_line", "read_write", "e", "f_g", "h_2", "item", "other_item"]


# ---------------------------------------------------------------------------------------------
# inputs
# ---------------------------------------------------------------------------------------------

def shapes_upto(n):
    for k in range(n + 1):
        yield from itertools.product("ona", repeat=k)


BS = "\\"


def hazard_docs():
    """Documentation texts (IDL spelling, possibly several lines) of the class *can interact with the comment syntax of
    a target before or while the compiler recognises the comment*: a line ending in a run of backslashes (C-family line
    splicing continues a `//` comment over the next generated line; Markdown halves the run, so IDL runs 1..8 give
    rendered runs of both parities), comment closers/openers, runs of backslashes before `u` (javac translates unicode
    escapes before it sees the comment: `*`+`/`, a line feed, a malformed escape), code spans (rendered verbatim)."""
    docs = []
    for m in range(1, 9):
        docs.append("path prefix " + BS * m)
    for m in (1, 2, 3, 4):
        docs.append("first line " + BS * m + "\nsecond line")
        docs.append("first line\nlast line " + BS * m)
        docs.append("span `a" + BS * m + "` " + BS * m)
    docs += ["closes */ early", "*/", "opens /* a block", "// line in a line", "ends with a slash /", "star at the end *"]
    for m in range(1, 7):
        docs.append("esc " + BS * m + "u002a/ after")
        docs.append("esc " + BS * m + "u000a after")
        docs.append("`" + BS * m + "u002a/` span")
    docs += ["C:" + BS + "users" + BS + "me", "C:" + BS * 2 + "users", BS * 3 + "uuu002a/", BS + "u005c" + BS + "u002a/"]
    return docs


def hazard_messages():
    """@deprecated messages of the same class (they become string literals in attributes)"""
    return ["keep " + BS, "keep " + BS * 2, 'say "no" ' + BS + '"', "a */ b", BS + "u002a/", BS * 3 + "u0022 x", "tab " + BS + "t and " + BS + "n"]


def doc_text(r: random.Random) -> str:
    k = r.random()
    if k < 0.45:
        return r.choice(["plain doc", "doc, with a comma", "two words = sign", "{braces} [x]"])
    if k < 0.85:
        return r.choice(hazard_docs())
    # free composition from the same alphabet
    parts = ["word", " ", BS, BS * 2, "u002a", "u000a", "*/", "/*", "//", "`", "*", "/", "u", ",", "\n", "x = 1", "}", ";"]
    return "".join(r.choice(parts) for _ in range(r.randint(1, 8))).strip() or "doc"


def make_decl(r: random.Random, idx: int, kind: str, shape, decorate: bool):
    names = r.sample(WORDS, len(shape))
    items = []
    for nm, k in zip(names, shape):
        it = {"name": nm, "all": k == "a", "none": k == "n", "comment": None, "dep": None}
        if decorate and r.random() < 0.35:
            it["comment"] = doc_text(r)
        if decorate and r.random() < 0.25:
            it["dep"] = r.choice(["", "use the other one", 'quoted "text", comma'] + hazard_messages())
        items.append(it)
    d = {"name": f"t{idx}_{'fl' if kind == 'flags' else 'en'}", "kind": kind, "items": items, "comment": None, "dep": None}
    if decorate and r.random() < 0.3:
        d["comment"] = doc_text(r)
    if decorate and r.random() < 0.15:
        d["dep"] = r.choice(["old type"] + hazard_messages())
    return d


def hazard_decls(start: int):
    """every hazard text once on a non-final item of an enum and on a flag followed by further flags (seed-independent):
    whatever the comment does to the next generated line shows in the number / values of the constants"""
    out, i = [], start
    docs, msgs = hazard_docs(), hazard_messages()
    for k, doc in enumerate(docs):
        kind = "enum" if k % 2 == 0 else "flags"
        msg = msgs[k % len(msgs)] if k % 5 == 0 else None
        names = [WORDS[(k + j) % len(WORDS)] for j in range(4)]
        shape = "oooo" if kind == "enum" else ("ooan", "oona", "onoa", "oooo")[k % 4]
        items = [{"name": nm, "all": c == "a", "none": c == "n", "comment": None, "dep": None} for nm, c in zip(names, shape)]
        items[0]["comment"] = doc if k % 3 == 0 else None
        items[1]["comment"] = doc
        items[1]["dep"] = msg
        items[3]["comment"] = doc if k % 4 == 0 else None
        out.append({"name": f"h{i}_{'fl' if kind == 'flags' else 'en'}", "kind": kind, "items": items,
                    "comment": doc if k % 2 == 0 else None, "dep": None})
        i += 1
    return out


def deprecation_decls(prefix: str = "d"):
    """enums with 2..4 items and flags (several none/all shapes) with *every* pattern of `@deprecated` items
    (seed-independent): a deprecated item before an ordinary one, after it, between two, all, none"""
    out = []
    msgs = ["", "use the other one", "old"]
    for kind, shapes in (("enum", ["oo", "ooo", "oooo"]), ("flags", ["ooo", "onoa", "aoon"])):
        for shape in shapes:
            for mask in itertools.product((False, True), repeat=len(shape)):
                k = len(out)
                items = [{"name": WORDS[(k + 3 * j) % len(WORDS)], "all": c == "a", "none": c == "n", "comment": "doc" if (k + j) % 5 == 0 else None,
                          "dep": msgs[(k + j) % len(msgs)] if dep else None} for j, (c, dep) in enumerate(zip(shape, mask))]
                out.append({"name": f"{prefix}{k}_{'fl' if kind == 'flags' else 'en'}", "kind": kind, "items": items, "comment": None,
                            "dep": "old type" if k % 11 == 10 else None})
    return out


def render(decls) -> str:
    out = []
    for d in decls:
        if d["comment"]:
            out += [f"# {line}" for line in d["comment"].split("\n")]
        if d["dep"] is not None:
            out.append(f"# @deprecated {d['dep']}".rstrip())
        out.append(f"{d['name']} = {d['kind']} {{")
        for it in d["items"]:
            if it["comment"]:
                out += [f"    # {line}" for line in it["comment"].split("\n")]
            if it["dep"] is not None:
                out.append(f"    # @deprecated {it['dep']}".rstrip())
            mod = " = all" if it["all"] else " = none" if it["none"] else ""
            out.append(f"    {it['name']}{mod};")
        out.append("}")
    return "\n".join(out) + "\n"


def options_for(out: Path, styles: dict) -> dict:
    def ident(t):
        s = styles.get(t)
        return {"identifier": {"enum": s}} if s else {}
    return glue.base_options(out, cpp=ident("cpp"), java=ident("java"), objc=ident("objc"), cppcli=ident("cppcli"))


def build_programs(ctx):
    """[{decls, styles}] — deterministic in ctx.seed"""
    r = random.Random(f"{ctx.seed}/c08/programs")
    exhaustive = list(shapes_upto(ctx.n(4, 5)))
    decls_spec = [("flags", s, False) for s in exhaustive]
    for n in range(0, 9):
        decls_spec.append(("enum", "o" * n, False))
    for _ in range(ctx.n(60, 600)):
        n = r.randint(0, 8)
        if r.random() < 0.3:
            decls_spec.append(("enum", "o" * n, True))
        else:
            decls_spec.append(("flags", tuple(r.choice("ooona") for _ in range(n)), r.random() < 0.7))
    # decorated copies of small exhaustive shapes
    for s in shapes_upto(3):
        decls_spec.append(("flags", s, True))
    r.shuffle(decls_spec)
    per_prog = ctx.n(20, 25)
    programs = []
    hz = hazard_decls(100000)
    for pi in range(0, len(hz), per_prog):
        programs.append({"decls": hz[pi:pi + per_prog], "styles": {}})
    for pi in range(0, len(decls_spec), per_prog):
        chunk = decls_spec[pi:pi + per_prog]
        styles = {}
        if (pi // per_prog) % 3 != 0:
            for t in ("cpp", "java", "objc", "cppcli"):
                if r.random() < 0.6:
                    styles[t] = r.choice(STYLES)
        decls = [make_decl(r, pi + j, k, s, dec) for j, (k, s, dec) in enumerate(chunk)]
        programs.append({"decls": decls, "styles": styles})
    return programs


def corpus_programs():
    f = Path(__file__).resolve().parent.parent.parent / "corpus" / "c08.json"
    if not f.exists():
        return []
    return [{"decls": e["decls"], "styles": e.get("styles", {}), "corpus": e.get("name")} for e in json.loads(f.read_text()) if "before" not in e and "history" not in e]


def corpus_regen():
    """corpus entries of the regeneration class: `before` (first run) and `decls` (after the edit)"""
    f = Path(__file__).resolve().parent.parent.parent / "corpus" / "c08.json"
    if not f.exists():
        return []
    return [e for e in json.loads(f.read_text()) if "before" in e]


def corpus_histories():
    """corpus entries of the history class: {"history": {"order", "projects": {name: {"versions", "styles", "split_out"}}}}"""
    f = Path(__file__).resolve().parent.parent.parent / "corpus" / "c08.json"
    if not f.exists():
        return []
    return [{**e["history"], "steps": HISTORY_ORDERS[e["history"]["order"]]} for e in json.loads(f.read_text()) if "history" in e]


# ---------------------------------------------------------------------------------------------
# observation of one generated declaration
# ---------------------------------------------------------------------------------------------

def find_enum(files: dict, type_name: str, java=False):
    """extract from the first file that defines the type; (items | None, error | None, path)"""
    last = None
    for path, text in sorted(files.items()):
        try:
            if java:
                return glue.extract_java_enum(text, type_name), None, path
            return glue.extract_c_enum(text, type_name), None, path
        except glue.TokenError as e:
            last = str(e)
            if "no enum definition" in last or "no Java enum" in last:
                continue
            return None, last, path
    return None, last or "no file", None


# matched on the header text with all white space removed
JNI_ENUM_TO = re.compile(r"return\(?static_cast<CppType>\(::pydjinni::JniClass<Type>::get\(\)\.ordinal\(jniEnv,j\)\)\)?;")
JNI_ENUM_FROM = re.compile(r"get\(\)\.create\(jniEnv,static_cast<jint>\(c\)\);")
JNI_FLAGS_TO = re.compile(r"return\(?static_cast<CppType>\(::pydjinni::JniClass<Type>::get\(\)\.flags\(jniEnv,j\)\)\)?;")
JNI_FLAGS_FROM = re.compile(r"get\(\)\.create\(jniEnv,static_cast<unsigned>\(c\),(\d+)\);")


def observe(info: dict, decl: dict):
    """-> (obs dict for c08.spec / comparison, enumerator lists to be evaluated by Lean, notes)"""
    tn = info.get("type_names", {})
    obs, pending, notes = {}, {}, {}
    for t, sub in (("cpp", "cpp"), ("objc", "objc"), ("cppcli", "cppcli")):
        if t in info["errors"]:
            obs[t] = None
            notes[t] = info["errors"][t]
            continue
        items, err, path = find_enum(info["files"].get(sub, {}), tn.get(t, ""))
        if items is None:
            obs[t] = None
            notes[t] = "extraction: " + str(err)
            continue
        pending[t] = [(n, None if toks is None else glue.parse_init(toks)) for n, toks in items]
        notes[t + "_text"] = [[n, None if toks is None else " ".join(x[1] for x in toks)] for n, toks in items]
        notes[t + "_file"] = path
    if "java" in info["errors"]:
        obs["java"] = None
        obs["jni"] = None
        notes["java"] = info["errors"]["java"]
    else:
        names, err, path = find_enum(info["files"].get("java", {}), tn.get("java", ""), java=True)
        obs["java"] = names
        if names is None:
            notes["java"] = "extraction: " + str(err)
        jni_text = re.sub(r"\s+", "", "\n".join(info["files"].get("jni", {}).values()))
        if decl["kind"] == "enum":
            obs["jni"] = {"castsByOrdinal": bool(JNI_ENUM_TO.search(jni_text) and JNI_ENUM_FROM.search(jni_text))}
        else:
            m = JNI_FLAGS_FROM.search(jni_text)
            obs["jni"] = {"castsByOrdinal": bool(JNI_FLAGS_TO.search(jni_text) and m), "bits": int(m.group(1)) if m else 0}
    return obs, pending, notes


def model_request(decl, info):
    names = info["names"]
    return {"kind": decl["kind"], "items": [{"all": it["all"], "none": it["none"]} for it in decl["items"]],
            "names": {t: names[t] for t in ("cpp", "objc", "cppcli", "java")},
            "objcType": info["type_names"]["objc"]}


# ---------------------------------------------------------------------------------------------
# regeneration after an edit
# ---------------------------------------------------------------------------------------------

EDITS = ["swap", "swap", "reverse", "rotate", "swap-names", "same-length-name", "add-item"]


def edit_decl(r: random.Random, decl: dict) -> tuple[dict, str]:
    """One edit of an enum / flags declaration as a user would make it between two runs of the generator. All but `add-item`
    keep the multiset of rendered lines (hence the size of every generated file); all but `add-item` on the last position
    change the value that at least one constant must have."""
    d = copy.deepcopy(decl)
    items = d["items"]
    if len(items) < 2:
        return d, "none"
    kind = r.choice(EDITS)
    i, j = sorted(r.sample(range(len(items)), 2))
    if kind == "swap":
        items[i], items[j] = items[j], items[i]
    elif kind == "reverse":
        items.reverse()
    elif kind == "rotate":
        items.append(items.pop(0))
    elif kind == "swap-names":
        # the modifiers, comments and deprecations stay where they are; the names change places
        items[i]["name"], items[j]["name"] = items[j]["name"], items[i]["name"]
    elif kind == "same-length-name":
        used = {it["name"] for it in items}
        k = r.randrange(len(items))
        cands = [w for w in WORDS if w not in used and len(w) == len(items[k]["name"]) and w.count("_") == items[k]["name"].count("_")]
        if not cands:
            items[i], items[j] = items[j], items[i]
            return d, "swap"
        # the new name takes the first place: every constant that stays gets another value
        it = items.pop(k)
        it["name"] = r.choice(cands)
        items.insert(0 if k else len(items), it)
    else:
        used = {it["name"] for it in items}
        items.insert(r.randrange(len(items) + 1), {"name": r.choice([w for w in WORDS if w not in used]), "all": False, "none": False, "comment": None, "dep": None})
    if [(x["name"], x["all"], x["none"]) for x in items] == [(x["name"], x["all"], x["none"]) for x in decl["items"]]:
        return d, "none"
    return d, kind


def regen_worker(args):
    """first run for `idl1`, then `idl2` written over the same file and a second run into the same output directories
    (`same_context`: the configured context of the first run parses again; otherwise a new API object, as a second CLI
    run). Returns the whole tree on disk afterwards and, per declaration of the second parse, the names the real
    marshalling objects give (as `glue.generate_per_decl` does)."""
    workdir, idl1, idl2, options, same_context = args
    import os
    import traceback
    from pydjinni import API
    from pydjinni.parser.ast import Enum, Flags
    workdir = Path(workdir)
    workdir.mkdir(parents=True, exist_ok=True)
    idl = workdir / "m.djinni"
    cwd = os.getcwd()
    os.chdir(workdir)
    try:
        idl.write_text(idl1)
        cctx = API().configure(options=options)
        g1 = cctx.parse(idl)
        for t in glue.TARGETS:
            g1.generate(t)
        idl.write_text(idl2)
        if not same_context:
            cctx = API().configure(options=options)
        g2 = cctx.parse(idl)
        errors = {}
        for t in glue.TARGETS:
            try:
                g2.generate(t)
            except Exception as e:
                errors[t] = type(e).__name__ + ": " + str(e)[:160]
        out_root = Path(options["generate"]["cpp"]["out"]).parent
        tree = {sub: glue.snapshot(out_root / sub) for sub in ("cpp", "java", "jni", "objc", "objcpp", "cppcli")}
        decls = []
        for d in g2.defs:
            info = {"name": str(d.name), "kind": type(d).__name__.lower(), "errors": dict(errors), "names": {}}
            if isinstance(d, (Enum, Flags)):
                items = d.items if isinstance(d, Enum) else d.flags
                info["names"] = {"cpp": [str(i.cpp.name) for i in items], "java": [str(i.java.name) for i in items],
                                 "objc": [str(i.objc.name) for i in items], "cppcli": [str(i.cppcli.name) for i in items]}
                info["type_names"] = {"cpp": str(d.cpp.name), "java": str(d.java.name), "objc": str(d.objc.name),
                                      "cppcli": str(d.cppcli.name), "jni": str(d.jni.name), "cpp_typename": str(d.cpp.typename)}
            decls.append(info)
        return {"parse": "ok", "decls": decls, "tree": tree}
    except Exception:
        return {"parse": "harness-error", "diags": [traceback.format_exc()[-1500:]], "decls": [], "tree": {}}
    finally:
        os.chdir(cwd)


def regenerate_many(base: Path, jobs):
    """jobs: [(idl1, idl2, options, same_context)] -> results shaped like `glue.generate_many`'s: every declaration sees
    the files on disk that mention its type"""
    import multiprocessing as mp
    import pydjinni  # noqa: F401
    args = [(str(base / f"r{i}"), a, b, o, sc) for i, (a, b, o, sc) in enumerate(jobs)]
    if not args:
        return []
    with mp.get_context("fork").Pool(max(1, min(12, len(args)))) as pool:
        results = pool.map(regen_worker, args, chunksize=1)
    for res in results:
        attach_files(res)
    return results


def regen_programs(ctx, programs):
    """a sample of the random programs with one edit per declaration: [(original, edited, same_context)]"""
    r = random.Random(f"{ctx.seed}/c08/regen")
    pool = [p for p in programs if not p.get("corpus") and not any(d["name"].startswith("h1") for d in p["decls"])]
    r.shuffle(pool)
    out = []
    for e in corpus_regen():
        for same in (False, True):
            out.append(({"decls": e["before"], "styles": e.get("styles", {})},
                        {"decls": e["decls"], "styles": e.get("styles", {}), "edits": e.get("edits", ["corpus"] * len(e["decls"])), "before": e["before"]}, same))
    for k, p in enumerate(pool[: ctx.n(6, 24)]):
        edited, kinds = [], []
        for d in p["decls"]:
            e, kind = edit_decl(r, d)
            edited.append(e)
            kinds.append(kind)
        out.append((p, {"decls": edited, "styles": p["styles"], "edits": kinds, "before": p["decls"]}, k % 2 == 1))
    return out


# ---------------------------------------------------------------------------------------------
# histories: several projects on one API object
# ---------------------------------------------------------------------------------------------

SUBDIRS = ("cpp", "java", "jni", "objc", "objcpp", "cppcli")


def attach_files(res):
    """every declaration sees the files on disk (of its own project's tree) that mention its type"""
    for info in res["decls"]:
        tn = info.get("type_names", {})
        key = {"cpp": tn.get("cpp"), "java": tn.get("java"), "jni": tn.get("jni"), "objc": tn.get("objc"), "objcpp": tn.get("objc"), "cppcli": tn.get("cppcli")}
        info["files"] = {sub: {p: t for p, t in files.items() if key[sub] and key[sub] in t} for sub, files in res["tree"].items()}
    return res


def decl_infos(gctx, errors):
    from pydjinni.parser.ast import Enum, Flags
    decls = []
    for d in gctx.defs:
        info = {"name": str(d.name), "kind": type(d).__name__.lower(), "errors": dict(errors), "names": {}}
        if isinstance(d, (Enum, Flags)):
            items = d.items if isinstance(d, Enum) else d.flags
            info["names"] = {"cpp": [str(i.cpp.name) for i in items], "java": [str(i.java.name) for i in items],
                             "objc": [str(i.objc.name) for i in items], "cppcli": [str(i.cppcli.name) for i in items]}
            info["type_names"] = {"cpp": str(d.cpp.name), "java": str(d.java.name), "objc": str(d.objc.name),
                                  "cppcli": str(d.cppcli.name), "jni": str(d.jni.name), "cpp_typename": str(d.cpp.typename)}
            info["idl_items"] = [str(i.name) for i in items]
        decls.append(info)
    return decls


def idl_item_order(gctx) -> dict:
    """{declaration: [item names]} as the parser delivered them (read right after `parse`, before any generator ran)"""
    from pydjinni.parser.ast import Enum, Flags
    return {str(d.name): [str(i.name) for i in (d.items if isinstance(d, Enum) else d.flags)] for d in gctx.defs if isinstance(d, (Enum, Flags))}


def names_in_idl_order(infos, order0):
    """The converted constant names are read from the marshalling objects after the generators ran; they are aligned with
    the item order the *parser* delivered (should a generator have reordered the shared item list, the names still belong
    to the IDL positions and the reordering shows in the generated constants, not in the expectation)."""
    for info in infos:
        cur, want = info.get("idl_items"), order0.get(info["name"])
        if cur and want and cur != want and sorted(cur) == sorted(want) and len(set(cur)) == len(cur):
            perm = [cur.index(n) for n in want]
            info["names"] = {t: [v[k] for k in perm] for t, v in info["names"].items()}
            info["ast_items_reordered"] = {"after_parse": want, "after_generate": cur}
    return infos


HISTORY_ORDERS = {
    # [op, project(, targets)] — `edit` makes the project's next program version current (written by the next `parse`)
    "sequential": [["configure", "A"], ["parse", "A"], ["generate", "A"], ["configure", "B"], ["parse", "B"], ["generate", "B"]],
    "parse-all-first": [["configure", "A"], ["parse", "A"], ["configure", "B"], ["parse", "B"], ["generate", "A"], ["generate", "B"]],
    "configure-all-first": [["configure", "A"], ["configure", "B"], ["parse", "A"], ["parse", "B"], ["generate", "B"], ["generate", "A"]],
    "by-target": [["configure", "A"], ["parse", "A"], ["configure", "B"], ["parse", "B"]]
                 + [["generate", p, [t]] for t in glue.TARGETS for p in ("A", "B")],
    "return-after-edit": [["configure", "A"], ["parse", "A"], ["generate", "A"], ["configure", "B"], ["parse", "B"], ["generate", "B"],
                          ["edit", "A"], ["parse", "A"], ["generate", "A"]],
    "reconfigure-return": [["configure", "A"], ["parse", "A"], ["generate", "A"], ["configure", "B"], ["parse", "B"], ["generate", "B"],
                           ["edit", "A"], ["configure", "A"], ["parse", "A"], ["generate", "A"]],
    "three-projects": [["configure", "A"], ["parse", "A"], ["generate", "A"], ["configure", "B"], ["parse", "B"], ["generate", "B"],
                       ["configure", "C"], ["parse", "C"], ["generate", "C"]],
}


def _target_orders():
    ts = list(glue.TARGETS)
    orders = {}
    for k, t in enumerate(ts):                      # every target is the first one once
        orders[f"targets:{t}-first"] = ts[k:] + ts[:k]
    orders["targets:reversed"] = ts[::-1]
    orders["targets:cpp-in-the-middle"] = [ts[1], ts[0]] + ts[2:] if len(ts) > 2 else ts
    orders["targets:cpp-last"] = ts[1:] + ts[:1]
    orders["targets:twice"] = [ts[0], ts[1], ts[0]] + ts[2:] + [ts[1]]
    return orders


# orders in which the targets of ONE parse are generated (one project, one `generate` call per target)
TARGET_ORDERS = _target_orders()
for _name, _ts in TARGET_ORDERS.items():
    HISTORY_ORDERS[_name] = [["configure", "A"], ["parse", "A"]] + [["generate", "A", [t]] for t in _ts]


def history_options(root: Path, proj: dict) -> dict:
    """options of one project: its own output root; `split_out`: the C-family targets get `out: {header, source}`"""
    opts = options_for(root / "out", proj.get("styles", {}))
    if proj.get("split_out"):
        for t in ("cpp", "jni", "objc", "objcpp", "cppcli"):
            o = opts["generate"][t]["out"]
            opts["generate"][t]["out"] = {"header": o + "/include", "source": o + "/src"}
    if proj.get("serialization"):
        # the optional per-declaration outputs are rendered too (C++ `to_string` source); nothing is compiled in this stream
        opts["generate"]["cpp"]["string_serialization"] = True
    return opts


def history_worker(args):
    """runs one history on ONE `API` object; returns per project the tree on disk at the end and the names the real
    marshalling objects of its last parse give"""
    workdir, hist = args
    import os
    import traceback
    from pydjinni import API
    workdir = Path(workdir)
    workdir.mkdir(parents=True, exist_ok=True)
    cwd = os.getcwd()
    os.chdir(workdir)
    out = {}
    try:
        api = API()
        cctx, gctx, version, errors, infos, order0 = {}, {}, {}, {}, {}, {}
        for step in hist["steps"]:
            op, pn = step[0], step[1]
            proj = hist["projects"][pn]
            root = workdir / pn
            root.mkdir(exist_ok=True)
            if op == "configure":
                cctx[pn] = api.configure(options=history_options(root, proj))
            elif op == "edit":
                version[pn] = version.get(pn, 0) + 1
            elif op == "parse":
                (root / "m.djinni").write_text(render(proj["versions"][version.get(pn, 0)]))
                gctx[pn] = cctx[pn].parse(root / "m.djinni")
                errors[pn] = {}
                order0[pn] = idl_item_order(gctx[pn])
            elif op == "generate":
                for t in (step[2] if len(step) > 2 else glue.TARGETS):
                    try:
                        gctx[pn].generate(t)
                    except Exception as e:
                        errors[pn][t] = type(e).__name__ + ": " + str(e)[:160]
                infos[pn] = names_in_idl_order(decl_infos(gctx[pn], errors[pn]), order0[pn])
        for pn in hist["projects"]:
            tree = {sub: glue.snapshot(workdir / pn / "out" / sub) for sub in SUBDIRS}
            out[pn] = attach_files({"parse": "ok", "decls": infos.get(pn, []), "tree": tree})
            del out[pn]["tree"]
        return out
    except Exception:
        return {pn: {"parse": "harness-error", "diags": [traceback.format_exc()[-1500:]], "decls": []} for pn in hist["projects"]}
    finally:
        os.chdir(cwd)


def history_many(base: Path, hists):
    import multiprocessing as mp
    import pydjinni  # noqa: F401
    args = [(str(base / f"h{i}"), h) for i, h in enumerate(hists)]
    if not args:
        return []
    with mp.get_context("fork").Pool(max(1, min(12, len(args)))) as pool:
        return pool.map(history_worker, args, chunksize=1)


def final_version(hist, pn):
    return hist["projects"][pn]["versions"][sum(1 for s in hist["steps"] if s[0] == "edit" and s[1] == pn)]


def restrict_history(hist, name):
    """the same history with only the declaration `name` in every project version (replay input)"""
    return {**hist, "projects": {pn: {**pr, "versions": [[d for d in v if d["name"] == name] for v in pr["versions"]]} for pn, pr in hist["projects"].items()}}


def history_specs(ctx, programs):
    """one history per order (thorough: several): project A is one of the random programs, every further project
    declares the same type names with one edit per declaration (so equally named files of two projects differ in the
    values their constants must have), its own styles and its own kind of `out` configuration"""
    r = random.Random(f"{ctx.seed}/c08/history")
    pool = [p for p in programs if not p.get("corpus") and not any(d["name"].startswith("h1") for d in p["decls"])]
    r.shuffle(pool)
    out = corpus_histories()
    for k in range(ctx.n(1, 4) * len(HISTORY_ORDERS)):
        order = list(HISTORY_ORDERS)[k % len(HISTORY_ORDERS)]
        steps = HISTORY_ORDERS[order]
        base = pool[k % len(pool)]
        decls = base["decls"][: ctx.n(10, 25)]
        target_order = order in TARGET_ORDERS
        if target_order:
            # every deprecation pattern (quick: a rotating half) + a few random declarations
            dd = deprecation_decls()
            if ctx.n(0, 1) == 0:
                off = r.randrange(2)
                dd = [d for j, d in enumerate(dd) if (j + off) % 2 == 0 or d["kind"] == "enum" and len(d["items"]) == 3]
            decls = dd + base["decls"][: ctx.n(4, 12)]
        projects = {}
        prev = decls
        for pn in dict.fromkeys(s[1] for s in steps):
            n_versions = 1 + sum(1 for s in steps if s[0] == "edit" and s[1] == pn)
            versions = []
            for _ in range(n_versions):
                prev = [edit_decl(r, d)[0] for d in prev] if (projects or versions) else prev
                versions.append(prev)
            styles = dict(base["styles"]) if (pn == "A" or r.random() < 0.5) else {t: r.choice(STYLES) for t in ("cpp", "java", "objc", "cppcli") if r.random() < 0.6}
            projects[pn] = {"versions": versions, "styles": styles, "split_out": r.random() < 0.4,
                            "serialization": target_order or r.random() < 0.5}
        out.append({"order": order, "steps": steps, "projects": projects})
    return out


def evaluate_histories(ctx, hists):
    results = history_many(ctx.tmp / "hist", hists)
    programs, pre = [], []
    for hist, res in zip(hists, results):
        for pn in hist["projects"]:
            programs.append({"decls": final_version(hist, pn), "styles": hist["projects"][pn]["styles"]})
            pre.append({"result": res[pn], "history": hist, "project": pn})
            ctx.stat("history_order_" + hist["order"])
            ctx.stat("history_projects")
    return evaluate_programs(ctx, programs, judges=False, pre=pre)


# ---------------------------------------------------------------------------------------------
# judges
# ---------------------------------------------------------------------------------------------

FOUNDATION_SHIM = """#pragma once
typedef unsigned long NSUInteger;
typedef long NSInteger;
#define NS_ENUM(_type, _name) enum _name : _type _name; enum _name : _type
#define NS_OPTIONS(_type, _name) enum _name : _type _name; enum _name : _type
#define NS_SWIFT_NAME(x)
#define DEPRECATED_MSG_ATTRIBUTE(s) __attribute__((deprecated(s)))
#define DEPRECATED_ATTRIBUTE __attribute__((deprecated))
"""


def cpp_tu(prog_dir: Path, cases) -> tuple[str, list]:
    """model-derived static_asserts over the generated C++ headers and the transplanted C++/CLI bodies"""
    lines, tags = ['#include <cstdint>'], []
    for ci, (decl, info, model, notes) in enumerate(cases):
        if "cpp" in info["errors"] or "cpp_file" not in notes:
            continue
        if any(v is None for _, v in model["cpp"]):
            continue
        lines.append(f'#include "{notes["cpp_file"]}"')
    for ci, (decl, info, model, notes) in enumerate(cases):
        if "cpp" in info["errors"] or "cpp_file" not in notes or any(v is None for _, v in model["cpp"]):
            continue
        T = info["type_names"]["cpp_typename"]
        under = "unsigned" if decl["kind"] == "flags" else "int"
        for name, v in model["cpp"]:
            lines.append(f'static_assert(static_cast<{under}>({T}::{name}) == {v}u, "case{ci} value {name}");')
            tags.append(ci)
        if decl["kind"] == "flags" and model["cpp"]:
            cs = model["cpp"]
            pairs = [(cs[0], cs[-1])] + ([(cs[0], cs[len(cs) // 2])] if len(cs) > 2 else [])
            for (a, va), (b, vb) in pairs:
                lines.append(f'static_assert(static_cast<unsigned>({T}::{a} | {T}::{b}) == {va | vb}u, "case{ci} operator|");')
                lines.append(f'static_assert(static_cast<unsigned>({T}::{a} & {T}::{b}) == {va & vb}u, "case{ci} operator&");')
                lines.append(f'static_assert(static_cast<unsigned>({T}::{a} ^ {T}::{b}) == {va ^ vb}u, "case{ci} operator^");')
                lines.append(f'static_assert(static_cast<unsigned>(~{T}::{a}) == {(~va) & 0xFFFFFFFF}u, "case{ci} operator~");')
        # C++/CLI body transplanted into a plain scoped enum
        if "cppcli_text" in notes and decl["items"] and all(v is not None for _, v in model["cppcli"]):
            body = ", ".join(n if e is None else f"{n} = {e}" for n, e in notes["cppcli_text"])
            lines.append(f"namespace cli{ci} {{ enum class E : unsigned {{ {body} }};")
            for name, v in model["cppcli"]:
                lines.append(f'static_assert(static_cast<unsigned>(E::{name}) == {v}u, "case{ci} cppcli {name}");')
            lines.append("}")
    return "\n".join(lines) + "\n", tags


def objc_tu(cases) -> str:
    lines = []
    for ci, (decl, info, model, notes) in enumerate(cases):
        if "objc_file" not in notes or not decl["items"] or any(v is None for _, v in model["objc"]):
            continue
        lines.append(f'#import "{notes["objc_file"]}"')
        for name, v in model["objc"]:
            lines.append(f'_Static_assert({name} == {v}, "case{ci} objc {name}");')
    return "\n".join(lines) + "\n"


def judge_program(args):
    """g++ on the C++/C++-CLI TU, clang on the ObjC TU; returns list of (judge, ok, detail)"""
    pdir, cases, want_java = args
    pdir = Path(pdir)
    res = []
    for ci, (decl, info, model, notes) in enumerate(cases):
        for sub in ("cpp", "objc", "java"):
            glue.write_tree(pdir / sub, info["files"].get(sub, {}))
    tu, _ = cpp_tu(pdir, cases)
    (pdir / "check.cpp").write_text(tu)
    rc, out, err = glue.run_cmd(["g++", "-std=c++20", "-fsyntax-only", "-w", "-I", str(pdir / "cpp")] + glue.cpp_support_includes() + [str(pdir / "check.cpp")], timeout=180)
    res.append(("g++ static_assert", rc == 0, err[-1500:]))
    shim = pdir / "shim" / "Foundation"
    shim.mkdir(parents=True, exist_ok=True)
    (shim / "Foundation.h").write_text(FOUNDATION_SHIM)
    (pdir / "check.m").write_text(objc_tu(cases))
    rc, out, err = glue.run_cmd(["clang", "-x", "objective-c", "-fsyntax-only", "-w", "-I", str(pdir / "shim"), "-I", str(pdir / "objc"), str(pdir / "check.m")], timeout=180)
    res.append(("clang objc static_assert", rc == 0, err[-1500:]))
    ords = None
    if want_java:
        classes = []
        for ci, (decl, info, model, notes) in enumerate(cases):
            if "java" not in info["errors"] and info["files"].get("java"):
                classes.append((ci, "vf.pkg." + info["type_names"]["java"]))
        drv = ["public class Driver { public static void main(String[] a) throws Exception {",
               " for (String n : a) { String[] p = n.split(\"=\"); Class<?> c = Class.forName(p[1]); StringBuilder sb = new StringBuilder(p[0]);",
               "  for (Object o : c.getEnumConstants()) { Enum<?> e = (Enum<?>) o; sb.append(' ').append(e.name()).append(':').append(e.ordinal()); }",
               "  System.out.println(sb); } } }"]
        (pdir / "java" / "Driver.java").write_text("\n".join(drv))
        srcs = [str(p) for p in (pdir / "java").rglob("*.java")]
        rc, out, err = glue.run_cmd(["javac", "-nowarn", "-d", str(pdir / "classes")] + srcs, timeout=300)
        res.append(("javac", rc == 0, err[-1500:]))
        if rc == 0:
            rc, out, err = glue.run_cmd(["java", "-cp", str(pdir / "classes"), "Driver"] + [f"{ci}={c}" for ci, c in classes], timeout=120)
            res.append(("java reflection", rc == 0, err[-800:]))
            if rc == 0:
                ords = {}
                for line in out.splitlines():
                    parts = line.split()
                    ords[int(parts[0])] = [[x.rsplit(":", 1)[0], int(x.rsplit(":", 1)[1])] for x in parts[1:]]
    return res, ords


def validate_enumeval(ctx):
    """EnumEval vs g++ on random enumerator lists with references, `|`, `<<`, implicit values and forward references"""
    r = random.Random(f"{ctx.seed}/c08/enumeval")
    lists = []
    for li in range(ctx.n(40, 300)):
        n = r.randint(1, 6)
        names = [f"E{li}_{i}" for i in range(n)]
        items = []
        for i in range(n):
            k = r.random()
            pool = names[:i] if r.random() < 0.85 else names   # sometimes a forward / self reference
            def atom():
                return {"ref": r.choice(pool)} if pool and r.random() < 0.5 else {"lit": r.randint(0, 9)}
            if k < 0.25:
                init = None
            elif k < 0.5:
                init = {"shl": [{"lit": 1}, {"lit": r.randint(0, 12)}]}
            elif k < 0.8:
                init = {"or": [atom(), atom()]}
            else:
                init = {"or": [{"or": [{"lit": 0}, atom()]}, {"shl": [atom(), {"lit": r.randint(0, 3)}]}]}
            items.append((names[i], init))
        lists.append(items)
    answers = ctx.driver.batch([{"op": "c08.eval", "enumerators": [{"name": n, "init": e} for n, e in items]} for items in lists])

    def show(e):
        if "lit" in e:
            return str(e["lit"]) + "u"
        if "ref" in e:
            return e["ref"]
        op = "<<" if "shl" in e else "|"
        a, b = e.get("shl") or e.get("or")
        return f"({show(a)} {op} {show(b)})"
    good, bad = [], []
    for li, (items, ans) in enumerate(zip(lists, answers)):
        vals = ans["values"]
        py = glue.eval_enumerators(items)
        if py != vals:
            ctx.report("correspondence", "Python enumerator evaluator and Lang.evalEnum disagree", {"enumerators": items, "lean": vals, "python": py}, no_failing_input=True)
        body = ", ".join(n if e is None else f"{n} = {show(e)}" for n, e in items)
        src = f"enum class L{li} : unsigned {{ {body} }};\n"
        if all(v is not None for _, v in vals):
            src += "".join(f'static_assert(static_cast<unsigned>(L{li}::{n}) == {v}u, "list{li} {n}");\n' for n, v in vals)
            good.append(src)
        else:
            bad.append((li, src))
    d = ctx.tmp / "enumeval"
    d.mkdir(exist_ok=True)
    (d / "good.cpp").write_text("".join(good))
    jobs = [("good", ["g++", "-std=c++20", "-fsyntax-only", "-w", str(d / "good.cpp")])]
    for li, src in bad[:ctx.n(4, 40)]:
        (d / f"bad{li}.cpp").write_text(src)
        jobs.append((f"bad{li}", ["g++", "-std=c++20", "-fsyntax-only", "-w", str(d / f"bad{li}.cpp")]))
    results = glue.parallel(lambda j: (j[0], glue.run_cmd(j[1])), jobs)
    for name, (rc, out, err) in results:
        ok = (rc == 0) if name == "good" else (rc != 0 and "not declared" in err or "was not declared" in err or "undeclared" in err)
        ctx.obligation(f"EnumEval agrees with g++ ({name})", ok, kind="validation", detail=err[-300:])
        ctx.stat("enumeval_" + ("defined_lists" if name == "good" else "undefined_lists"), len(good) if name == "good" else 1)
        if not ok:
            ctx.report("correspondence", f"Lang.evalEnum and g++ disagree on enumerator list ({name})",
                       {"judge": "g++", "stderr": err[-1500:], "file": name}, no_failing_input=True)


# ---------------------------------------------------------------------------------------------
# the check
# ---------------------------------------------------------------------------------------------

def shape_of(decl):
    return decl["kind"] + ":" + "".join("a" if i["all"] else "n" if i["none"] else "o" for i in decl["items"])


def evaluate_programs(ctx, programs, judges=True, regen=None, pre=None):
    """`regen`: [(original program, same_context)] aligned with `programs` (the edited ones): the observation is the tree
    on disk after original -> edit -> second run; keys get the prefix `regenerate:`.
    `pre`: [{"result", "history", "project"}] aligned with `programs` (the final program version of one project of a
    history): the observation is that project's tree on disk after the whole history; keys get the prefix `history:`"""
    jobs = []
    tag = "regenerate:" if regen is not None else "history:" if pre is not None else ""
    if pre is not None:
        jobs = [(render(p["decls"]), None) for p in programs]
        results = [e["result"] for e in pre]
    elif regen is None:
        for pi, p in enumerate(programs):
            jobs.append((render(p["decls"]), options_for(ctx.tmp / f"p{pi}" / "out", p["styles"])))
        results = glue.generate_many(ctx.tmp, jobs)
    else:
        rjobs = []
        for pi, (p, (orig, same)) in enumerate(zip(programs, regen)):
            jobs.append((render(p["decls"]), None))
            rjobs.append((render(orig["decls"]), render(p["decls"]), options_for(ctx.tmp / f"r{pi}" / "out", p["styles"]), same))
        results = regenerate_many(ctx.tmp, rjobs)
    breaks, all_cases = [], []
    for pi, (p, res) in enumerate(zip(programs, results)):
        if res["parse"] != "ok" or len(res["decls"]) != len(p["decls"]):
            raise RuntimeError(f"generated program rejected by the front end: {res.get('parse')} {res.get('diags')}\n{jobs[pi][0][:600]}")
        # 1. observations; the enumerator lists are evaluated by the Lean evaluator
        pend_reqs, slots, per = [], [], []
        for decl, info in zip(p["decls"], res["decls"]):
            obs, pending, notes = observe(info, decl)
            per.append((decl, info, obs, notes))
            for t, items in pending.items():
                slots.append((len(per) - 1, t, items))
                pend_reqs.append({"op": "c08.eval", "enumerators": [{"name": n, "init": e} for n, e in items]})
        for (k, t, items), ans in zip(slots, ctx.driver.batch(pend_reqs)):
            if "error" in ans:
                raise RuntimeError(f"driver error {ans}")
            per[k][2][t] = ans["values"]
            py = glue.eval_enumerators(items)
            if py != ans["values"]:
                breaks.append({"why": "Python evaluator and Lang.evalEnum disagree", "items": items, "lean": ans["values"], "python": py})
        # 2. model and specification
        mreqs = [{**model_request(d, info), "op": "c08.model"} for d, info, _, _ in per]
        sreqs = [{**model_request(d, info), "op": "c08.spec", "impl": obs} for d, info, obs, _ in per]
        models, specs = ctx.driver.batch(mreqs), ctx.driver.batch(sreqs)
        cases = []
        for (decl, info, obs, notes), m, s in zip(per, models, specs):
            if "error" in m or "error" in s:
                raise RuntimeError(f"driver error {m} {s}")
            sh = shape_of(decl)
            di = len(cases)
            if regen is not None:
                edit = p["edits"][di]
                ctx.count(key=("regenerate", edit, sh, bool(p["styles"])), nontrivial=edit != "none",
                          sample={"before": render([p["before"][di]]), "after": render([decl]), "edit": edit, "cpp": obs.get("cpp")})
                ctx.stat("regenerate_edit_" + edit)
                ctx.stat("regenerate_" + ("same_context" if regen[pi][1] else "new_api_object"))
            elif pre is not None:
                h = pre[pi]["history"]
                ctx.count(key=("history", h["order"], pre[pi]["project"], sh, bool(p["styles"]), bool(h["projects"][pre[pi]["project"]].get("split_out"))),
                          nontrivial=len(decl["items"]) > 1, sample={"order": h["order"], "project": pre[pi]["project"], "idl": render([decl]), "cpp": obs.get("cpp")})
            else:
                ctx.count(key=(sh, bool(p["styles"])), nontrivial=len(decl["items"]) > 0,
                          sample={"idl": render([decl]), "cpp": obs.get("cpp"), "java": obs.get("java")})
            ctx.stat("kind_" + decl["kind"])
            ctx.stat("items_%d" % len(decl["items"]))
            if any(i["comment"] or i["dep"] is not None for i in decl["items"]):
                ctx.stat("decorated_items")
            if any(BS in (i["comment"] or "").split("\n")[-1][-1:] for i in decl["items"][:-1]):
                ctx.stat("item_comment_ends_in_backslash")
            if any(re.search(r"\\+u[0-9a-f]{4}", i["comment"] or "") for i in decl["items"]):
                ctx.stat("item_comment_with_unicode_escape")
            diffs = []
            for t in ("cpp", "objc", "cppcli"):
                if obs.get(t) != m[t]:
                    diffs.append(t)
            if obs.get("java") != m["java"]:
                diffs.append("java")
            if decl["kind"] == "flags" and (obs.get("jni") or {}).get("bits") != m["jniBits"]:
                diffs.append("jni")
            if diffs:
                breaks.append({"why": "observation differs from the model for " + ",".join(diffs), "idl": render([decl]), "styles": p["styles"],
                               "impl": obs, "model": {k: m[k] for k in ("cpp", "objc", "cppcli", "java")}, "notes": {k: v for k, v in notes.items() if not k.endswith("_text")}})
            if not s["holds"]:
                for f in s["failures"]:
                    key = f"{decl['kind']}:{f['target']}:" + re.sub(r"[^a-z]+", "-", f["why"].split("(")[0].lower()).strip("-")
                    if s["clauses"] and f["target"] in ("cpp", "objc", "cppcli") and "undefined" in f["why"]:
                        key = f"flags:{s['clauses'][0]}"
                    if obs.get(f["target"]) is None and f["target"] in info["errors"]:
                        key = f"{decl['kind']}:{f['target']}:generation-failed"
                    extra = {} if regen is None else {"before": [p["before"][di]], "same_context": regen[pi][1]}
                    where = "" if regen is None else f" — in the files on disk after generating, editing the declaration ({p['edits'][di]}) and generating again into the same directory"
                    if pre is not None:
                        extra = {"history": restrict_history(pre[pi]["history"], decl["name"]), "project": pre[pi]["project"]}
                        where = (f" — in the output tree of project {pre[pi]['project']} after the history '{pre[pi]['history']['order']}' "
                                 f"({' / '.join(' '.join(map(str, st[:2])) + (' ' + ','.join(st[2]) if len(st) > 2 else '') for st in pre[pi]['history']['steps'])}) on one API object")
                    if pre is not None:      # one stale directory shows in every declaration: three replays per shape are enough
                        seen = ctx.stats.setdefault("history_reported_by_key", {})
                        seen[tag + key] = seen.get(tag + key, 0) + 1
                        if seen[tag + key] > 3:
                            continue
                    ctx.report(tag + key, f"{f['target']}: {f['why']}" + where,
                               {"input": {"decls": [decl], "styles": p["styles"], **extra}, "idl": render([decl]), "failure": f, "clauses": s["clauses"],
                                "impl": obs, "notes": {k: v for k, v in notes.items()}, "expected": m["spec"]})
            cases.append((decl, info, m, notes))
        all_cases.append(cases)
    # 3. judges
    if judges:
        n_java = ctx.n(1, len(programs))
        jargs = [(str(ctx.tmp / f"p{pi}" / "judge"), cases, pi < n_java) for pi, cases in enumerate(all_cases)]
        for pi, (jres, ords) in enumerate(glue.parallel(judge_program, jargs)):
            for name, ok, detail in jres:
                ctx.stat("judge " + name + (" ok" if ok else " FAILED"))
                if not ok and name == "g++ static_assert":
                    # the property names the operators: a failed operator assertion is a concrete failing input
                    for mm in list(re.finditer(r"case(\d+) (operator\S)", detail))[:3]:
                        decl = all_cases[pi][int(mm.group(1))][0]
                        ctx.report("flags:cpp:operator-not-bitwise", f"generated C++ {mm.group(2)} is not the bitwise operation on the underlying value",
                                   {"input": {"decls": [decl], "styles": programs[pi]["styles"]}, "idl": render([decl]), "judge": "g++ static_assert", "stderr": detail[-800:]})
                if not ok:
                    m = re.search(r"case(\d+)", detail)
                    first = all_cases[pi][int(m.group(1))] if m else None
                    breaks.append({"why": f"judge {name} rejects the model-derived assertions", "detail": detail[-1200:],
                                   "idl": render([first[0]]) if first else None, "styles": programs[pi]["styles"]})
            if ords is not None:
                for ci, (decl, info, m, notes) in enumerate(all_cases[pi]):
                    if ci not in ords:
                        continue
                    s = ctx.driver.one({**model_request(decl, info), "op": "c08.spec", "impl": {"javaOrdinals": ords[ci]}})
                    ctx.stat("java_values_checked")
                    if not s["holds"]:
                        ctx.report(f"{decl['kind']}:java:values-order", "Enum.values() order differs from the bit indices / item positions",
                                   {"input": {"decls": [decl], "styles": programs[pi]["styles"]}, "javaOrdinals": ords[ci], "failure": s["failures"]})
    return breaks


def run(ctx):
    ctx.coverage["rule"] = ("enums with 0..8 items and flags with none/all in every position and multiplicity (exhaustive to length 4 quick / 5 thorough, "
                            "random to length 8), commented/deprecated items incl. every comment-syntax hazard text (backslash runs at line end, before uXXXX, comment closers) on non-final items, identifier styles; distinct = distinct (kind, none/all shape, styled?); "
                            "non-trivial = at least one item; every declaration is observed in cpp, objc, cppcli, java and jni; regeneration stream: distinct = distinct (edit, shape, styled?), "
                            "non-trivial = the edit changes the item list; history stream: every order of HISTORY_ORDERS with 2-3 projects (equal type names, edited item lists, own out roots, "
                            "half of them with the C++ serialization source rendered; target-order stream: every order of TARGET_ORDERS of the targets of one parse over every pattern of deprecated items, "
                            "plain or split header/source dirs) on one API object, every project's tree judged against its own declarations; distinct = distinct (order, project, shape, styled?, split?)")
    ctx.assumptions += [
        "at most 32 ordinary flags (1u << 32 is outside the model's unbounded naturals; generator uses <= 8 items)",
        "C++/CLI has no compiler here: its enum bodies are evaluated by the extractor and transplanted into a g++ translation unit",
        "JNI conversion is by ordinal / bit position as written in the support library (read, modelled by jniFlagsToCpp/jniFlagsFromCpp; not executed)",
        "identifier conversion of constant names is taken from the real marshalling objects (property C02)",
    ]
    programs = corpus_programs() + build_programs(ctx)
    breaks = evaluate_programs(ctx, programs)
    rp = regen_programs(ctx, programs)
    breaks += [{**b, "stream": "regenerate"} for b in
               evaluate_programs(ctx, [e for _, e, _ in rp], judges=False, regen=[(o, same) for o, _, same in rp])]
    ctx.stats["regenerate_programs"] = len(rp)
    import time
    t0 = time.time()
    hs = history_specs(ctx, programs)
    breaks += [{**b, "stream": "history"} for b in evaluate_histories(ctx, hs)]
    ctx.stats["histories"] = len(hs)
    ctx.stats["t_histories_s"] = round(time.time() - t0, 1)
    validate_enumeval(ctx)
    ctx.stats["correspondence_breaks"] = len(breaks)
    ctx.stats["programs"] = len(programs)
    if breaks and not ctx.violations:
        ctx.report("correspondence", "flags/enum model and generated constants disagree; the value specification holds on every sampled declaration",
                   {"correspondence": "c08.model vs generated headers (cpp, objc, cppcli, java, jni)", "first": breaks[0], "count": len(breaks)},
                   no_failing_input=True)
    elif breaks:
        ctx.stats["correspondence_first"] = breaks[0]["why"]


def replay(ctx, body):
    inp = body["input"]
    before = len(ctx.violations) + sum(ctx.known_hits.values())
    if "history" in inp:
        breaks = evaluate_histories(ctx, [inp["history"]])
    elif "before" in inp:
        breaks = evaluate_programs(ctx, [{"decls": inp["decls"], "styles": inp.get("styles", {}), "edits": ["replay"], "before": inp["before"]}], judges=False,
                                   regen=[({"decls": inp["before"], "styles": inp.get("styles", {})}, bool(inp.get("same_context")))])
    else:
        breaks = evaluate_programs(ctx, [{"decls": inp["decls"], "styles": inp.get("styles", {})}], judges=True)
    print(json.dumps({"breaks": breaks[:2], "violations": ctx.violations}, indent=1)[:3000])
    return len(ctx.violations) + sum(ctx.known_hits.values()) == before and not breaks
