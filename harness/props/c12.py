"""C12 — IDL comments only ever become documentation; they cannot alter generated code.

Theorems (Lean, `Props/C12.lean`): for *every* rendered comment text the wrapper produced by `comment_filter`
(with any indentation added by Jinja's `indent`) lexes — in the C family with phase-2 line splicing, in Java with
unicode-escape translation — to comment tokens only and hands the lexer back in its initial state; the deprecation
message literal is exactly one well-formed string token that decodes to the message.

Tie to /repo, every run:
  G  generated obligations (kernel `decide`): the live generators' comment styles are the modelled ones; every
     template expression that can carry comment text is a test, passes `comment` (then at most `indent`), or is one
     of the modelled `deprecated` builders (Jinja ASTs of all templates, classified in Lean by `sinkOk`).
  K1 function level: the registered Jinja filter `comment` of every generator (+ `indent`), and the three
     `deprecated` builders, against the model on strings over the adversarial alphabet — exact strings.
     Besides random texts, a seed-independent grid: runs of 1..6 backslashes x every continuation a compiler gives a
     meaning to (`u002a/`, `u000a`, `uuu002a/`, a malformed escape, end of line [+ white space], `*/`, `"`) x position,
     for the comment filter of every generator and for the deprecation builders.
     Two further seed-independent grids: every invisible / later-removable character (`INVISIBLE`: U+FEFF, zero-width and
     bidi format characters, soft hyphen, NUL and other C0/C1 controls, DEL, non-characters, lone CR) *between the two halves*
     of every sequence the filter neutralises or the escaper escapes (`*`|`/`, backslash|`u002a/`, backslash|end of line, backslash|`"` …), alone,
     doubled and paired; and length as a dimension of its own: 7 … 1000 occurrences (around every power of two) of what has
     to be neutralised / escaped, as runs, separated by words, one per line, at the very end.
     Every text goes through the real `FileReaderWriter` into a file; the specification `S` is evaluated on the *bytes of
     that file* (model: `Gen.Comment.written` = the rendered text).
  K2 file level: a closed-world program generated for all targets without comments and with adversarial comments
     on every commentable construct (incl. the rotation programs: every construct of the full program carries every
     IDL spelling of a backslash run 1..6 before `u002a/` / `u000a`, in ordinary text and in code spans; the `split` programs:
     every construct carries every (invisible character x split sequence) line; the `length` programs: every construct is
     deprecated with a message of the length grid; the `sinks` programs: every comment sink *class* of every construct — the
     description, a `@param` line for every parameter of the error code / method / function the comment stands on, `@returns`,
     `@throws`, `@deprecated <reason>` — carries each text of `SINK_TEXTS` (ends in a backslash run of either parity, `*/`, `/*`,
     `//`, unicode-escape closer / line feed, quotes, code spans, line-break characters, markup), with and without a deprecation
     annotation next to it, in two line orders); the first failing program of a shape is reduced (`shrink_program`) to the
     comment line and the declarations that matter; the files are read back from disk as bytes; token streams (own tokenizer `ctok12`, cross-checked against the Lean fragment)
     must be equal after dropping comments and deprecation annotations; every deprecation literal decodes to a message
     of the AST. Compilers as judges: g++ -fsyntax-only / javac on the commented variant (corpus witnesses + 2 programs in
     the quick tier, 40 in the thorough tier); g++ -E / javac as judges of the lexing fragment itself (every run).
  S  specification on the implementation's observation: `c12.spec.comment` / `c12.spec.deprecated` (Lean lexers run on
     the *implementation's* output between probe texts), and the token-stream equality of K2.
"""
from __future__ import annotations

import json
import random
import re
import shutil
import subprocess
from pathlib import Path

import common
import ctok12
import genrun_f as genrun

LEAN_MODULE = "PydjinniModel.Props.C12"
THEOREMS = [
    "Pydjinni.C12.run_append",
    "Pydjinni.C12.lexFrom_append_clean",
    "Pydjinni.C12.neutralise_noCloser",
    "Pydjinni.C12.neutralise_noBU",
    "Pydjinni.C12.neutralise_noPending",
    "Pydjinni.C12.neutralise_noBreak",
    "Pydjinni.C12.block_comment_contained",
    "Pydjinni.C12.block_comment_lexC",
    "Pydjinni.C12.line_comment_contained",
    "Pydjinni.C12.line_comment_lexC",
    "Pydjinni.C12.java_unicode_identity",
    "Pydjinni.C12.java_comment_wellformed",
    "Pydjinni.C12.deprecated_literal_wellformed",
    "Pydjinni.C12.deprecated_literal_lexC",
    "Pydjinni.C12.deprecated_literal_decodes",
    "Pydjinni.C12.deprecatedCpp_wellformed",
    "Pydjinni.C12.deprecatedObjc_wellformed",
    "Pydjinni.C12.deprecatedCppCli_wellformed",
    "Pydjinni.C12.deprecated_one_line",
    "Pydjinni.C12.indent_commentFilter",
    "Pydjinni.C12.old_block_closer_counterexample",
    "Pydjinni.C12.old_line_backslash_counterexample",
    "Pydjinni.C12.old_java_backslash_u_counterexample",
    "Pydjinni.C12.old_indent_line_break_counterexample",
    "Pydjinni.C12.old_deprecated_backslash_counterexample",
    "Pydjinni.C12.old_deprecated_quote_counterexample",
    "Pydjinni.C12.written_block_comment_lexC",
    "Pydjinni.C12.written_line_comment_lexC",
    "Pydjinni.C12.erase_before_filter_contained",
    "Pydjinni.C12.erase_after_filter_block_counterexample",
    "Pydjinni.C12.erase_after_filter_line_counterexample",
    "Pydjinni.C12.erase_after_filter_java_counterexample",
    "Pydjinni.C12.escDepN_enough",
    "Pydjinni.C12.limited_escape_wellformed",
    "Pydjinni.C12.limited_escape_counterexample",
]
LEVEL = "proof"
TRUSTED = (
    "Lang/CLex.lean: hand-written fragment of C-family (phase-2 splicing incl. the g++/clang backslash-space-newline rule, "
    "comments, string/char literals) and Java (JLS 3.3 unicode escapes) lexing; validated against g++ -E and javac on samples each run",
    "mistune (Markdown rendering) is not modelled: the theorems quantify over every rendered string",
    "harness/ctok12.py: tokenizer used for the file-level comparison (cross-checked against Lang/CLex on every generated file)",
)

GEN_KEYS = ["cpp", "java", "jni", "objc", "objcpp", "cppcli", "yaml"]
COMMENT_ATTRS = {"comment", "constructor_comment", "deprecated", "attributes"}

# ---------------------------------------------------------------------------------------------------------
# adversarial texts
# ---------------------------------------------------------------------------------------------------------

PIECES = ["*/", "/*", "//", '"', "\\", "\n", "@", "{", "}", "<", ">", "&", "`", "\\u", "\\u002a\\u002f", "\\u000a", "\\uuu0041",
          "*", "/", " ", "  ", "\t", "\x0c", "\x0b", "\u2028", "\u2029", "\x85", "\x1c", "\x1d", "\x1e", "\x1f", "\xa0", "\u3000",
          "word", "x", "u", "n", "users", "C:\\users", "```", "**b**", "[l](http://u)", "> q", "# h", "- item", "1. one",
          "@param a", "@deprecated", "@deprecated old", "@returns r", "@throws e", "\\param a", "&#42;", "--", "'", "%", "??/",
          "$", ";", "int x;", "#define", "\\\n", "\\ \n", "\\\t", "*\\", "*\\\n/", "\\\\", "\\\"", "é", "€", "\U0001F600", "\0"]
# pieces that cannot occur in one IDL comment line (lexer rule '#' ~[\r\n]*), and NUL which g++ treats specially
NO_IDL = {"\n", "\\\n", "\\ \n", "*\\\n/", "\0"}
CR_PIECES = ["\r", "\r\n", "x\ry"]


# Characters that a human reader does not see and that a *later stage* (a writer that "cleans" the rendered file, an editor,
# a transport) may delete or a compiler may skip: byte order mark / zero width no-break space, zero width and bidirectional
# format characters, soft hyphen, variation selector, combining grapheme joiner, NUL and other C0 controls, DEL, C1 controls,
# non-characters — and a lone CR. Standing *between the two halves* of a sequence the comment filter neutralises
# (`*`|`/`, `\`|`u`, `\`|end of line) or `string_literal` escapes (`\`|`"`), they must keep the halves apart all the way
# to the bytes on disk.
INVISIBLE = ["\ufeff", "\u200b", "\u200c", "\u200d", "\u200e", "\u200f", "\u2060", "\u2061", "\xad", "\u034f", "\u061c", "\u180e",
             "\u202a", "\u202e", "\u2066", "\u2069", "\ufe0f", "\ufffe", "\uffff", "\0", "\x01", "\x07", "\x08", "\x0e", "\x1a", "\x1b", "\x7f",
             "\x80", "\x9f", "\r"]
# ... of which an IDL comment line can carry all but CR (lexer rule '#' ~[\r\n]*)
IDL_INVISIBLE = [z for z in INVISIBLE if z != "\r"]
# (first half, second half, what follows) of every sequence that is given a meaning before / while a comment is recognised
SPLIT_COMMENT = [("*", "/", " int injected; /*"), ("\\", "u002a/", " int injected; /*"), ("\\", "u000a", " int injected;"),
                 ("\\u002a\\", "u002f", " int injected; /*"), ("\\", "", ""), ("\\", " \t", ""), ("/", "*", " x"), ("\\", "\n", "next line")]
SPLIT_MESSAGE = [("\\", '"', ");int injected;("), ("\\", "", ""), ("\\", "\\", '"'), ("\\", "n", ""), ("\\", "u0022", " + x"), ('"', '"', "")]


def split_piece(r: random.Random, idl: bool) -> str:
    a, b, tail = r.choice(SPLIT_COMMENT[:4] + [("\\", '"', "")])
    z = r.choice(IDL_INVISIBLE if idl else INVISIBLE)
    return a + z * r.choice([1, 1, 2]) + b + tail


def repeat_piece(r: random.Random) -> str:
    """length as a dimension of its own: many occurrences of one thing the filter / the escaper has to treat"""
    unit = r.choice(["*/", "\\u002a/", '"', "\\", '\\"', '", "', "\\u", "*/ x ", "d\\", "\u2028", "\x1d"])
    return unit * r.choice([15, 16, 17, 18, 31, 32, 33, 64, 65, 100, 129])


def text(r: random.Random, cr: bool = False, maxlen: int = 9) -> str:
    n = r.choice([0, 1, 1, 2, 3, 4, 6, maxlen, maxlen, 20, 40])
    pool = PIECES + INVISIBLE[:8] + (CR_PIECES if cr else [])
    out = []
    for _ in range(n):
        k = r.random()
        out.append(split_piece(r, idl=False) if k < 0.06 else repeat_piece(r) if k < 0.075 else r.choice(pool))
    return "".join(out)


def idl_line(r: random.Random) -> str:
    n = r.choice([1, 1, 2, 3, 5, 7, 12])
    pool = [p for p in PIECES if p not in NO_IDL] + IDL_INVISIBLE[:8]
    out = []
    for _ in range(n):
        k = r.random()
        out.append(split_piece(r, idl=True) if k < 0.08 else repeat_piece(r) if k < 0.1 else r.choice(pool))
    return "".join(out).replace("\n", " ").replace("\r", " ")


BS = "\\"
# what can follow a run of backslashes and be given a meaning by a compiler *before* / *while* it recognises the comment
# or literal: javac translates `\\uXXXX` iff the run before `u` is odd (JLS 3.3; `*`+`/`, a line feed, a backslash, a
# malformed escape), the C family splices lines at backslash [white space] newline whatever precedes the backslash
AFTER_RUN_COMMENT = ["u002a/ int injected; /*", "u000a int injected;", "u002a" + BS + "u002f int injected; /*", "uuu002a/ x", "u005cu002a/", "users", "u", "u00",
                     "", " ", " \t", "\nnext line", "\r\nnext line", "\x0cnext", "*/ int injected; /*", "n", '"']
AFTER_RUN_MESSAGE = ["", '"', "n", "u0022 + x + " + BS + "u0022", "u000a", " ", "\n", "\r", "0", "x", '");int injected;("']
RUN_CONTEXTS = [("", ""), ("C:", " tail\nlast line")]
RUN_LENGTHS = range(1, 7)


def run_grid_comments():
    """every run length 1..6 x every continuation x position in the text (seed-independent)"""
    return [pre + BS * m + a + post for m in RUN_LENGTHS for a in AFTER_RUN_COMMENT for pre, post in RUN_CONTEXTS]


def run_grid_messages():
    return [pre + BS * m + a for m in RUN_LENGTHS for a in AFTER_RUN_MESSAGE for pre in ("", "use ")]


def split_grid_comments():
    """every invisible character between the halves of every sequence x position in the text (seed-independent); also two of
    them, and two different ones"""
    out = []
    for k, z in enumerate(INVISIBLE):
        z2 = INVISIBLE[(k + 7) % len(INVISIBLE)]
        for a, b, tail in SPLIT_COMMENT:
            for pre, post in RUN_CONTEXTS:
                out.append(pre + a + z + b + tail + post)
            out.append("x " + a + z + z + b + tail)
            out.append("x " + a + z + z2 + b + tail + "\nlast " + a + z2)
    return out


def split_grid_messages():
    out = []
    for k, z in enumerate(INVISIBLE):
        z2 = INVISIBLE[(k + 7) % len(INVISIBLE)]
        for a, b, tail in SPLIT_MESSAGE:
            out += ["use " + a + z + b + tail, a + z + z2 + b + tail + a + z]
    return out


# _STRING_LITERAL_ESCAPES' keys, the two that matter most first
ESCAPABLE = ["\\", '"', "\n", "\r", "\x0b", "\x0c", "\x1c", "\x1d", "\x1e", "\x85", "\u2028", "\u2029"]


def counts(quick: bool):
    """how many times: around every power of two up to 256 (a `count`/buffer limit is a small power of two or near it), 100, 1000"""
    if quick:
        return [7, 8, 9, 15, 16, 17, 18, 31, 32, 33, 63, 64, 65, 100, 128, 129, 256, 257, 1000]
    return sorted(set(range(1, 70)) | {2 ** k + d for k in range(6, 13) for d in (-1, 0, 1)} | {100, 1000, 3000})


def length_grid_messages(quick: bool):
    """deprecation messages with n characters that need an escape sequence: runs, separated by words, at the very end, quoted
    words, a path, all escapable characters in turn, and the n-th one followed by code"""
    out = []
    for j, n in enumerate(counts(quick)):
        c = ESCAPABLE[2 + j % (len(ESCAPABLE) - 2)]
        out += ['"' * n, BS * n, c * n, ('"' + BS) * (n // 2) + '"' * (n % 2),
                " ".join("w" + '"' for _ in range(n)), "plain words first " * 3 + BS * n,
                "use " + ", ".join('"%s"' % chr(97 + i % 26) for i in range(n // 2)) + (' or "' if n % 2 else ""),
                "see C:" + "".join(BS + "d%d" % i for i in range(n - 1)) + BS,
                "".join(ESCAPABLE[i % len(ESCAPABLE)] for i in range(n)),
                ("q" + '"') * (n - 1) + '");int injected;("',
                "a" * n + '"', "a" * (40 * n if n <= 100 else n) + BS]
    return out


def length_grid_comments(quick: bool):
    """comment texts with n occurrences of what the filter neutralises: on one line, one per line, at the ends of n lines"""
    out = []
    for n in [c for c in counts(quick) if c <= (300 if quick else 1100)]:
        out += ["*/" * n, "*/ x " * n, (BS + "u002a/ ") * n, (BS + "u") * n + "002a/", "a " + BS + "\n" * n, ("a" + BS + " \n") * n,
                "*/\n" * n, ("w " * n) + "*/ int injected; /*", ("line\n" * n) + "ends " + BS, "*" * n + "/", BS * n + "u002a/", BS * n]
    return out


def idl_split_variants():
    """IDL documentation lines with an invisible character between the halves (three lines per character: block closer, unicode
    escape, backslash at the end of the line) — the rotation puts them in this order, so that a window of 3k lines ends in a
    line-ending backslash"""
    out = []
    for k, z in enumerate(IDL_INVISIBLE):
        out.append("x *" + z + "/ int injected; /*" if k % 2 else "code `*" + z + "/ int injected; /*` span")
        out.append("y " + BS + z + "u002a/ int injected; /*" if k % 3 else "y " + BS + "u002a" + BS + z + "u002f int injected; /*")
        out.append("tail " + BS + z)
    return out


def idl_length_variants(quick: bool):
    """IDL deprecation messages / documentation lines with many characters to escape resp. many sequences to neutralise"""
    msgs = [m for m in length_grid_messages(quick) if not any(c in m for c in "\n\r") and len(m) < 1500]
    docs = [d for d in length_grid_comments(quick) if not any(c in d for c in "\n\r") and len(d) < 1500]
    return msgs, docs


def idl_run_variants():
    """IDL spellings of documentation lines with a backslash run before `u002a/` resp. `u000a`: Markdown halves a run in
    ordinary text (IDL runs 1..12 render to runs 1..6 of both parities) and keeps it verbatim in a code span (1..6)."""
    out = []
    for payload in ("u002a/ int injected; /*", "u000a int injected;"):
        for m in range(1, 13):
            out.append("x " + BS * m + payload)
        for m in range(1, 7):
            out.append("code `" + BS * m + payload + "` span")
    return out


# ---------------------------------------------------------------------------------------------------------
# G: translator
# ---------------------------------------------------------------------------------------------------------

def lean_lit(s: str) -> str:
    out = ['"']
    for ch in s:
        o = ord(ch)
        if ch == '"':
            out.append('\\"')
        elif ch == "\\":
            out.append("\\\\")
        elif ch == "\n":
            out.append("\\n")
        elif ch == "\t":
            out.append("\\t")
        elif 32 <= o < 127:
            out.append(ch)
        else:
            out.append("\\u{%x}" % o)
    out.append('"')
    return "".join(out)


def generators():
    from pydjinni import API
    api = API()
    return [g for t in api.generation_targets.values() for g in t.generator_instances]


def template_sinks(gens) -> list[dict]:
    from jinja2 import nodes

    def chain(n):
        out = []
        while isinstance(n, nodes.Getattr):
            out.append(n.attr)
            n = n.node
        out.append(n.name if isinstance(n, nodes.Name) else "<" + type(n).__name__ + ">")
        return list(reversed(out))

    def desc(n, field):
        k = type(n).__name__
        if isinstance(n, (nodes.Filter, nodes.Test)):
            k += ":" + n.name
        if isinstance(n, nodes.Call):
            k += ":" + ".".join(chain(n.node))
        if isinstance(n, nodes.Macro):
            k += ":" + n.name
        return k + "." + field

    sinks = []

    def walk(n, path, emit, names):
        if isinstance(n, nodes.Getattr) and n.attr in COMMENT_ATTRS:
            emit(path, chain(n), n.lineno)
            return
        if isinstance(n, nodes.Name) and n.name in names and n.ctx == "load":
            emit(path, ["<macro-param>", "macro:" + n.name], n.lineno)
            return
        if isinstance(n, nodes.Filter) and n.name == "map":
            for kw in n.kwargs:
                if kw.key == "attribute" and isinstance(kw.value, nodes.Const) and kw.value.value in COMMENT_ATTRS:
                    emit(path + [desc(n, "attribute")], ["<map>", kw.value.value], n.lineno)
        inner = names
        if isinstance(n, nodes.Macro) and n.name == "disable_deprecation_warnings":
            inner = names | {a.name for a in n.args}
        for field, val in n.iter_fields():
            for x in (val if isinstance(val, list) else [val]):
                if isinstance(x, nodes.Node):
                    walk(x, path + [desc(n, field)], emit, inner)

    count = 0
    for g in gens:
        tdir = g._generator_directory / "templates"
        if not tdir.exists():
            continue
        for f in sorted(tdir.rglob("*")):
            if not f.is_file():
                continue
            count += 1
            rel = f.relative_to(tdir)
            ast = g._jinja_env.parse(g.template_preprocessing(rel))

            def emit(path, ch, line, g=g, rel=rel):
                root = ch[-2] if len(ch) >= 2 and ch[-2] in GEN_KEYS else ""
                sinks.append({"gen": g.key, "tmpl": str(rel), "line": line or 0, "root": root, "attr": ch[-1],
                              "path": [p for p in path if not p.startswith("Template.")]})

            walk(ast, [], emit, frozenset())
    return sinks, count


def obligations(ctx, gens):
    styles = []
    for g in gens:
        styles.append((g.key, g.comment_start_string, g.comment_line_prefix, g.comment_end_string))
    sinks, ntemplates = template_sinks(gens)
    ctx.stats["templates"] = ntemplates
    ctx.stats["comment_sinks"] = len(sinks)
    ctx.stats["comment_sinks_filtered"] = sum(1 for s in sinks if any(p == "Filter:comment.node" for p in s["path"]))

    def opt(s):
        return "none" if s is None else f"(some {lean_lit(s)}.toList)"

    src = ["import PydjinniModel.Props.C12", "open Pydjinni.C12 Pydjinni.Gen.Comment", "",
           "/-- comment style properties of the live generator instances (key, start, line prefix, end) -/",
           "def liveStyles : List (String × Style) := ["]
    src.append(",\n".join(f"  ({lean_lit(k)}, ⟨{opt(a)}, {lean_lit(p)}.toList, {opt(e)}⟩)" for k, a, p, e in styles))
    src += ["]", "",
            "/-- every live generator uses one of the two modelled styles: `///` lines for objc, the `/** */` block otherwise -/",
            "theorem styles_modelled : liveStyles.all (fun (k, st) => st == (if k == \"objc\" then lineStyle else blockStyle)) = true := by decide",
            "",
            "def sinks : List Sink := ["]
    src.append(",\n".join(
        "  ⟨{}, {}, {}, {}, {}, [{}]⟩".format(lean_lit(s["gen"]), lean_lit(s["tmpl"]), s["line"], lean_lit(s["root"]), lean_lit(s["attr"]),
                                           ", ".join(lean_lit(p) for p in s["path"])) for s in sinks))
    src += ["]", "",
            "/-- every template expression that can carry comment text is a test, is wrapped by `comment` (then only `indent`), or is a modelled builder -/",
            "theorem sinks_contained : sinks.all sinkOk = true := by decide +kernel", ""]
    ok, out = common.lean_check_file("\n".join(src), "C12_tables")
    # attribute an elaboration error to the theorem whose source lines contain it
    lines = "\n".join(src).split("\n")
    l_styles = next(i for i, l in enumerate(lines) if l.startswith("theorem styles_modelled")) + 1
    l_sinks = next(i for i, l in enumerate(lines) if l.startswith("theorem sinks_contained")) + 1
    errs = [int(m) for m in re.findall(r"\.lean:(\d+):\d+: error", out)]
    ctx.obligation("C12_tables.styles_modelled", ok or (bool(errs) and l_styles not in errs), kind="generated", detail=out)
    ctx.obligation("C12_tables.sinks_contained", ok or (bool(errs) and l_sinks not in errs), kind="generated", detail=out)
    if not ok and not (set(errs) & {l_styles, l_sinks}):
        ctx.obligation("C12_tables.elaborates", False, kind="generated", detail=out)
    bad = [s for s in sinks if not py_sink_ok(s)]
    return ok, bad, styles


def py_sink_ok(s) -> bool:
    """Python twin of `sinkOk` — only used to *name* the offending template expression when the obligation fails"""
    path = s["path"]
    if any(p.endswith(".test") or p == "Call:disable_deprecation_warnings.args" for p in path):
        return True
    if "Output.nodes" not in path:
        return False
    inner = path[path.index("Output.nodes") + 1:]
    if s["attr"] in ("comment", "constructor_comment"):
        return s["root"] != "" and inner[-1:] == ["Filter:comment.node"] and all(p == "Filter:indent.node" for p in inner[:-1])
    if s["attr"] == "deprecated":
        return s["root"] in ("cpp", "cppcli", "objc", "jni") and all(p in ("Concat.nodes", "Filter:indent.node") for p in inner)
    if s["attr"] == "attributes":
        return s["root"] in ("objc", "objcpp") and all(p in ("Concat.nodes", "Filter:indent.node", "Filter:concat.node", "Filter:join.node") for p in inner)
    return False


def report(ctx, key, what, replay_body):
    """at most four replays per failure shape (the runner keeps 25 replay files per run), so that one defect seen by the
    function-level grid does not crowd out the file-level witnesses; every hit is counted in stats['violation_hits']"""
    hits = ctx.stats.setdefault("violation_hits", {})
    hits[key] = hits.get(key, 0) + 1
    if hits[key] <= 4 or getattr(ctx, "is_probe", False):
        ctx.report(key, what, replay_body)


# ---------------------------------------------------------------------------------------------------------
# K1: function level
# ---------------------------------------------------------------------------------------------------------

PROBES = [("int y;\n", "\nint x;\n"), ("struct S {\n    ", "\n    int x;\n};\n"), ("", "\n")]


def style_name(g) -> str:
    return "line" if g.comment_start_string is None else "block"


def real_deprecated(target: str, dep, pre: str, post: str) -> str:
    from pydjinni.parser.base_models import BaseCommentModel
    decl = BaseCommentModel(deprecated=dep)
    if target == "cpp":
        from pydjinni.generator.cpp.cpp.type import deprecated
        return deprecated(decl, prefix=pre, postfix=post)
    if target == "objc":
        from pydjinni.generator.objc.objc.type import ObjcBaseCommentModel
        return ObjcBaseCommentModel.model_construct(decl=decl, config=None).deprecated
    if target == "cppcli":
        from pydjinni.generator.cppcli.cppcli.type import CppCliBaseCommentModel
        return CppCliBaseCommentModel.model_construct(decl=decl, config=None).deprecated
    raise ValueError(target)


def through_writer(ctx, contents: list[str]) -> list[str]:
    """Every text goes through the real `FileReaderWriter` (the one place through which generated files reach the disk, by
    its two entry points in turn) into a file of its own; returned is what the *bytes of that file* say — read without
    newline translation, the way a compiler reads them."""
    from pydjinni.file.file_reader_writer import FileReaderWriter
    d = ctx.tmp / "disk"
    shutil.rmtree(d, ignore_errors=True)
    d.mkdir(parents=True)
    writer = FileReaderWriter()
    out = []
    for k, content in enumerate(contents):
        f = d / f"d{k // 500}" / f"f{k}.txt"
        (writer.write_header if k % 2 else writer.write_source)(key="cpp", filename=f, content=content, append=False)
        out.append(f.read_bytes().decode("utf-8", errors="surrogateescape"))
    shutil.rmtree(d, ignore_errors=True)
    ctx.stats["texts_through_file_writer"] = ctx.stats.get("texts_through_file_writer", 0) + len(contents)
    return out


def function_level(ctx, gens, corpus):
    breaks = []
    n = ctx.n(260, 6000)
    cases = []          # (kind, payload)
    for c in corpus:
        if c.get("kind") == "filter":
            for g in gens:
                cases.append(("filter", g, c["text"], c.get("indent")))
        elif c.get("kind") == "deprecated":
            for t in ("cpp", "objc", "cppcli"):
                cases.append(("deprecated", t, c["dep"], c.get("pre", ""), c.get("post", " ")))
    for k, t in enumerate(run_grid_comments()):
        for g in gens:
            cases.append(("filter", g, t, [None, 4][k % 2]))
    for k, t in enumerate(run_grid_messages()):
        for tg in ("cpp", "objc", "cppcli"):
            cases.append(("deprecated", tg, t, ["", " "][k % 2], " "))
    # an invisible / later-removed character between the halves of every sequence; length as a dimension
    for k, t in enumerate(split_grid_comments() + length_grid_comments(ctx.quick)):
        for g in (gens if not ctx.quick else [x for x in gens if x.key in ("cpp", "java", "objc")] + [gens[k % len(gens)]]):
            cases.append(("filter", g, t, [None, 4][k % 2]))
    for k, t in enumerate(split_grid_messages() + length_grid_messages(ctx.quick)):
        for tg in ("cpp", "objc", "cppcli"):
            cases.append(("deprecated", tg, t, ["", " "][k % 2], " "))
    for i in range(n):
        r = random.Random(f"{ctx.seed}/c12/f/{i}")
        t = text(r, cr=True)
        if i % 5 == 4:        # a run of backslashes spliced into a random text
            cut = r.randrange(len(t) + 1)
            t = t[:cut] + BS * r.choice(list(RUN_LENGTHS)) + r.choice(AFTER_RUN_COMMENT) + t[cut:]
        g = gens[i % len(gens)]
        cases.append(("filter", g, t, r.choice([None, None, 4, 8, 1])))
    for i in range(ctx.n(150, 3000)):
        r = random.Random(f"{ctx.seed}/c12/d/{i}")
        dep = r.choice([False, True, "", "x"]) if i % 10 == 0 else text(r, cr=True)
        cases.append(("deprecated", ["cpp", "objc", "cppcli"][i % 3], dep, r.choice(["", " "]), r.choice(["", " "])))

    # what the filters / builders return ...
    outs = []
    for c in cases:
        if c[0] == "filter":
            _, g, t, ind = c
            out = g._jinja_env.filters["comment"](t)
            if ind is not None:
                out = g._jinja_env.filters["indent"](out, ind)
        else:
            _, target, dep, pre, post = c
            out = real_deprecated(target, dep, *((pre, post) if target == "cpp" else ("", "")))
        outs.append(out)
    # ... and what the real file writer puts on disk for it: the specification is evaluated on the *bytes of the file*
    disks = through_writer(ctx, outs)
    reqs, metas = [], []
    ondisk = {}
    for k, (c, rendered, out) in enumerate(zip(cases, outs, disks)):
        ondisk[id(c)] = (k % 2, rendered, out)
        if c[0] == "filter":
            _, g, t, ind = c
            st = style_name(g)
            rq = {"op": "c12.filter", "style": st, "text": t}
            if ind is not None:
                rq["indent"] = ind
            reqs.append(rq)
            metas.append(("filter.model", c, rendered))
            langs = ["c"] if g.key != "java" else ["java"]
            if g.key == "yaml":
                langs = []
            for lang in langs:
                for pi, (pre, suf) in enumerate(PROBES):
                    reqs.append({"op": "c12.spec.comment", "lang": lang, "pre": pre, "out": out, "suf": suf})
                    metas.append(("filter.spec", c, out, lang, pi))
        else:
            _, target, dep, pre, post = c
            if target != "cpp":
                pre, post = "", ""
            reqs.append({"op": "c12.deprecated", "target": target, "dep": dep, "pre": pre, "post": post})
            metas.append(("dep.model", c, rendered))
            reqs.append({"op": "c12.spec.deprecated", "target": target, "dep": dep, "out": out, "pre": pre, "post": post})
            metas.append(("dep.spec", c, out))
    answers = ctx.driver.batch(reqs)
    for m, a in zip(metas, answers):
        if "error" in a:
            raise common.Infra(f"driver error {a} for {m[0]}")
        kind, c, out = m[0], m[1], m[2]
        if kind == "filter.model":
            _, g, t, ind = c
            ctx.count(key=("filter", style_name(g), ind is not None, shape_of(t)), nontrivial=bool(t),
                      sample={"generator": g.key, "text": t[:300], "indent": ind, "out": out[:400]})
            ctx.stat("filter_" + g.key)
            if a["out"] != out:
                breaks.append({"what": "comment_filter", "generator": g.key, "text": t, "indent": ind, "impl": out, "model": a["out"]})
            elif a["disk"] != ondisk[id(c)][2]:
                breaks.append({"what": "file writer (Gen.Comment.written)", "generator": g.key, "text": t, "indent": ind, "rendered": out,
                               "on_disk": ondisk[id(c)][2], "model": a["disk"]})
        elif kind == "filter.spec":
            _, g, t, ind = c
            if not a["holds"]:
                report(ctx, f"comment:{style_name(g)}:{m[3]}:{cause_of(t, style_name(g), m[3], ind)}",
                           "comment text escapes the generated documentation comment",
                           {"input": {"kind": "filter", "generator": g.key, "text": t, "indent": ind, "probe": m[4], "lang": m[3], "entry": ondisk[id(c)][0]},
                            "rendered": ondisk[id(c)][1], "impl_output": out, "written_verbatim": ondisk[id(c)][1] == out, "tokens": a.get("tokens")})
        elif kind == "dep.model":
            _, target, dep, pre, post = c
            ctx.count(key=("dep", target, type(dep).__name__, shape_of(dep) if isinstance(dep, str) else ""),
                      nontrivial=isinstance(dep, str), sample={"target": target, "deprecated": dep[:300] if isinstance(dep, str) else dep, "out": out[:400]})
            ctx.stat("deprecated_" + target)
            if a["out"] != out:
                breaks.append({"what": "deprecated builder", "target": target, "dep": dep, "impl": out, "model": a["out"]})
            elif a["disk"] != ondisk[id(c)][2]:
                breaks.append({"what": "file writer (Gen.Comment.written)", "target": target, "dep": dep, "rendered": out,
                               "on_disk": ondisk[id(c)][2], "model": a["disk"]})
        elif kind == "dep.spec":
            _, target, dep, pre, post = c
            if not a["holds"]:
                report(ctx, f"deprecated:{target}:{dep_cause(dep)}",
                           "deprecation message does not stay one well-formed string literal that decodes to the message",
                           {"input": {"kind": "deprecated", "target": target, "dep": dep, "pre": pre if target == "cpp" else "",
                                      "post": post if target == "cpp" else "", "entry": ondisk[id(c)][0]},
                            "rendered": ondisk[id(c)][1], "impl_output": out, "written_verbatim": ondisk[id(c)][1] == out, "spec": a})
    return breaks


def shape_of(t: str) -> str:
    """which adversarial features a text has (coverage key)"""
    feats = []
    for name, pat in (("closer", r"\*/"), ("bs-eol", r"\\[ \t\x0b\x0c]*(\n|$)"), ("bs-u", r"\\u"), ("quote", '"'), ("nl", "\n"),
                      ("cr", "\r"), ("brk", "[\x0b\x0c\x1c-\x1e\x85\u2028\u2029]"), ("bs", r"\\"), ("md", r"[`*\[>#-]"), ("cmd", r"[@\\](param|deprecated|returns|throws)"),
                      ("invisible", _INVISIBLE_RE.pattern)):
        if re.search(pat, t):
            feats.append(name)
    # a sequence that exists only once the invisible characters are taken out; length classes of what has to be escaped
    e = erased(t)
    if e != t and (("*/" in e and "*/" not in t) or (re.search(r"\\u", e) and not re.search(r"\\u", t)) or
                   (re.search(r"\\\s*$", e, flags=re.M) and not re.search(r"\\\s*$", t, flags=re.M)) or ('\\"' in e and '\\"' not in t)):
        feats.append("split")
    n = len(re.findall(r'\*/|\\|"|\n', t))
    if n > 8:
        feats.append("x%d" % (1 << (n - 1).bit_length()))
    return "+".join(feats)


_INVISIBLE_RE = re.compile("[" + "".join(re.escape(z) for z in INVISIBLE) + "]")


def erased(t: str) -> str:
    return _INVISIBLE_RE.sub("", t)


def long_class(t: str, pat: str) -> str:
    """length class of a text: how often the pattern occurs (shape signatures stay stable under the exact number)"""
    n = len(re.findall(pat, t))
    return "" if n <= 8 else ":many"


def cause_of(t: str, style: str, lang: str, ind) -> str:
    """shape signature of a comment that escapes: the first feature (in a fixed order) that is known to matter; if none is
    there, the first that is there once the invisible characters are taken out (`split-…`)"""
    c = cause_of1(t, style, lang, ind)
    if c == "other" and erased(t) != t:
        c2 = cause_of1(erased(t), style, lang, ind)
        return "split-" + c2 if c2 != "other" else "other"
    return c + (long_class(t, r"\*/|\\u|\\\s*$|\n") if c != "other" else "")


def cause_of1(t: str, style: str, lang: str, ind) -> str:
    if lang == "java" and re.search(r"\\u", t):
        return "backslash-u"
    if style == "block" and "*/" in t:
        return "block-closer"
    if style == "line" and re.search(r"\\[ \t\x0b\x0c]*(\n|$)", t):
        return "line-ending-backslash"
    if style == "line" and ind is not None and re.search("[\x0b\x0c\x1c-\x1e\x85\u2028\u2029]", t):
        return "line-break-character"
    if style == "line" and "\r" in t:
        return "carriage-return"
    return "other"


def dep_cause(dep) -> str:
    if not isinstance(dep, str):
        return "other"
    many = long_class(dep, "[" + "".join(re.escape(c) for c in ESCAPABLE) + "]")
    if "\\" in dep:
        return "backslash" + many
    if re.search("[\n\r\x0b\x0c\x1c-\x1e\x85\u2028\u2029]", dep):
        return "line-break-character" + many
    if '"' in dep:
        return "quote" + many
    return "other"


# ---------------------------------------------------------------------------------------------------------
# K2: file level
# ---------------------------------------------------------------------------------------------------------

# closed feature set: these declarations (all six kinds, every commentable construct), in this order, with these
# member shapes; the generator varies which declarations are present, which constructs carry a comment and the text.
DECLS = [
    ("e", [], "{C}e = enum {\n{C1}    a;\n{C2}    b;\n}\n"),
    ("f", [], "{C}f = flags {\n{C1}    x;\n{C2}    y;\n    n = none;\n{C3}    z = all;\n}\n"),
    ("r", ["e"], "{C}r = record {\n{C1}    v: i32;\n{C2}    s: string;\n    l: list<i32>;\n{C3}    k: e;\n}\n"),
    ("err", [], "{C}err = error {\n{C1}    c1;\n{C2}    c2(code: i32 flag: bool);\n}\n"),
    ("fn", [], "{C}fn = function (a: i32) -> bool;\n"),
    ("i", ["r", "err"], "{C}i = interface +cpp {\n{C1}    m(a: i32, b: string) -> i32;\n{C2}    static c() -> i;\n    n();\n"
                         "{C3}    const k() -> string;\n{C4}    t(q: r) throws err -> i32;\n}\n"),
    ("j", ["e", "f"], "{C}j = interface +java +objc +cppcli {\n{C1}    on(v: e, w: f);\n}\n"),
    ("r2", ["r"], "namespace ns {\n{C}    r2 = record {\n{C1}        inner: r;\n{C2}        o: i32?;\n    }\n}\n"),
]
PARAMS = {"err": ["code", "flag"], "i": ["a", "b", "q"], "j": ["v", "w"]}
NSLOTS = sum(1 for _, _, tmpl in DECLS for slot in ("{C}", "{C1}", "{C2}", "{C3}", "{C4}") if slot in tmpl)   # commentable constructs


def comment_block(r: random.Random, indent: str, owner: str, adversarial: bool) -> str:
    """a comment (1–4 '#' lines) for one construct"""
    lines = []
    for _ in range(r.choice([1, 1, 2, 3, 4])):
        k = r.random()
        if k < 0.15:
            lines.append("@deprecated" + (" " + (idl_line(r) if adversarial else "use something else") if r.random() < 0.8 else ""))
        elif k < 0.3 and owner in PARAMS:
            lines.append("@param " + r.choice(PARAMS[owner]) + " " + (idl_line(r) if adversarial else "the value"))
        elif k < 0.36:
            lines.append("@returns " + (idl_line(r) if adversarial else "the result"))
        elif k < 0.4:
            lines.append("@throws err " + (idl_line(r) if adversarial else "when it fails"))
        else:
            lines.append(idl_line(r) if adversarial else r.choice(["plain text", "some *emphasis* and `code`", "- a list item", "a longer description."]))
    return "".join(f"{indent}# {l}\n" for l in lines)


def program(r: random.Random, mode: str) -> tuple[str, str]:
    """-> (IDL without comments, IDL with comments); mode: 'plain' (harmless Markdown) | 'adv' (adversarial)"""
    present = set()
    for name, deps, _ in DECLS:
        if r.random() < 0.7 and all(d in present for d in deps):
            present.add(name)
    if not present:
        present = {"e"}
    bare, commented = [], []
    p_comment = r.choice([0.3, 0.6, 1.0])
    for name, deps, tmpl in DECLS:
        if name not in present:
            continue
        b = c = tmpl
        for slot in ("{C}", "{C1}", "{C2}", "{C3}", "{C4}"):
            if slot not in tmpl:
                continue
            # indentation of the slot = the white space of the line it stands on
            m = re.search(r"^" + re.escape(slot) + r"( *)", c, flags=re.M)
            indent = m.group(1) if m else ""
            block = comment_block(r, indent, name, mode == "adv") if r.random() < p_comment else ""
            b = b.replace(slot, "")
            c = c.replace(slot, block)
        bare.append(b)
        commented.append(c)
    return "".join(bare), "".join(commented)


def rotation_programs(nprog: int, variants=None, per=None, tagtexts=None, always_deprecated=False, first=0, stride=1):
    """The full closed-world program (every declaration of `DECLS`), every commentable construct commented; over the
    `nprog` programs every construct carries every line of `variants` (default `idl_run_variants()`) once (`per` = 36 / nprog
    lines per comment), plus a rotating tag line (@deprecated / @param / @returns / @throws; `always_deprecated`: @deprecated
    on every construct, each message of `tagtexts` once per `len(tagtexts) / NSLOTS` programs) with such a text (or one of `tagtexts`).
    The window of construct number `i` in program `k` starts at line `i * stride + k * per`. Seed-independent (`first` = number of
    the first program)."""
    variants = variants or idl_run_variants()
    tagtexts = tagtexts or variants
    per = per or max(1, len(variants) // nprog)
    out = []
    for k in range(first, first + nprog):
        bare, commented, sidx = [], [], 0
        for name, deps, tmpl in DECLS:
            b = c = tmpl
            for slot in ("{C}", "{C1}", "{C2}", "{C3}", "{C4}"):
                if slot not in tmpl:
                    continue
                m = re.search(r"^" + re.escape(slot) + r"( *)", c, flags=re.M)
                indent = m.group(1) if m else ""
                lines = [variants[(sidx * stride + k * per + j) % len(variants)] for j in range(per)]
                tagtext = tagtexts[(sidx + k * NSLOTS) % len(tagtexts)] if always_deprecated else tagtexts[(sidx + 7 * k + 3) % len(tagtexts)]
                tag = 0 if always_deprecated else (sidx + k) % 5
                if tag == 0:
                    lines.append("@deprecated " + tagtext)
                elif tag == 1 and name in PARAMS:
                    lines.append("@param " + PARAMS[name][(sidx + k) % len(PARAMS[name])] + " " + tagtext)
                elif tag == 2:
                    lines.append("@returns " + tagtext)
                elif tag == 3:
                    lines.append("@throws err " + tagtext)
                b = b.replace(slot, "")
                c = c.replace(slot, "".join(f"{indent}# {l}\n" for l in lines))
                sidx += 1
            bare.append(b)
            commented.append(c)
        out.append(("".join(bare), "".join(commented)))
    return out


# Texts for the `sinks` programs: each is one IDL documentation line that a compiler gives a meaning to if it reaches *any*
# kind of comment (block, `//` line, trailing `///<` line, Javadoc) or string literal without the treatment of its sink.
# Seed-independent; the text that ends in a backslash must stay the last thing on its line.
SINK_TEXTS = [
    ("bs-eol", "listed in docs" + BS + "errors" + BS),
    ("closer", "ends */ int injected; /* here"),
    ("bs-eol-run", "share C:" + BS * 2 + "a" + BS * 4),                     # Markdown halves the run: both parities reach the sinks
    ("bs-u-closer", "x " + BS + "u002a/ int injected; /* y"),
    ("bs-u-newline", "x " + BS + "u000a int injected;"),
    ("opener", "starts /* and // never ends"),
    ("quote", 'say "hi" ' + BS + '" );int injected;(" or ' + "'c'"),
    ("code-closer", "code `*/ int injected; /*` span"),
    ("code-bs-u", "code `" + BS + "u002a/ int injected; /*` span and a path C:" + BS + "users" + BS),
    ("line-break", "a\x0cint b; int c;\x85int d;\x1dint e; " + BS),
    ("markup", "<b>&#42;/ &amp; **/ __x__ [l](http://u/*/) {@code */} " + BS + "param z */"),
    ("bs-eol-3", "odd run at the end x" + BS * 3),
]


def slot_params(tmpl: str, slot: str) -> list[str]:
    """names of the parameters of the construct a comment slot stands on (error code / method / function parameters)"""
    m = re.search(re.escape(slot) + r"[^\n]*?\(([^)\n]*)\)", tmpl)
    return re.findall(r"(\w+)\s*:", m.group(1)) if m else []


def sink_programs(which=None, orders=(0, 1)):
    """Every comment *sink class* of every construct of the full closed-world program populated at once with one adversarial
    text of `SINK_TEXTS`: the description itself, a `@param <name> <text>` line for *every* parameter of the construct the
    comment stands on (error code, method and function parameters: the only way such a parameter gets a comment) and for a
    name that is no parameter, `@returns <text>`, `@throws err <text>`, and `@deprecated <text>` on every other construct
    (which ones: parity of construct number + program number, so that every sink is seen with and without a deprecation
    annotation next to it). Two line orders: description first / tag lines first. One program per (text, order):
    the failure key names the text class. Seed-independent."""
    out = []
    for t, (tname, txt) in enumerate(SINK_TEXTS):
        if which is not None and t not in which:
            continue
        for order in orders:
            bare, commented, sidx = [], [], 0
            for name, deps, tmpl in DECLS:
                b = c = tmpl
                for slot in ("{C}", "{C1}", "{C2}", "{C3}", "{C4}"):
                    if slot not in tmpl:
                        continue
                    m = re.search(r"^" + re.escape(slot) + r"( *)", c, flags=re.M)
                    indent = m.group(1) if m else ""
                    tags = ["@param %s %s" % (p, txt) for p in slot_params(tmpl, slot) + ["nosuch"]]
                    tags += ["@returns " + txt, "@throws err " + txt]
                    if (sidx + t + order) % 2 == 0:
                        tags.insert((sidx // 2) % (len(tags) + 1), "@deprecated " + txt)
                    lines = [txt] + tags if order == 0 else tags + ["", txt]
                    b = b.replace(slot, "")
                    c = c.replace(slot, "".join((f"{indent}# {l}" if l else f"{indent}#") + "\n" for l in lines))
                    sidx += 1
                bare.append(b)
                commented.append(c)
            out.append((tname, "".join(bare), "".join(commented)))
    return out


def file_lang(path: str):
    if path.endswith(".java"):
        return "java"
    if path.endswith((".hpp", ".cpp", ".h", ".m", ".mm")):
        return "c"
    if path.endswith(".yaml"):
        return "yaml"
    return None


def skeleton(path: str, textv: str):
    lang = file_lang(path)
    if lang == "yaml":
        import yaml
        docs = [d for d in yaml.safe_load_all(textv) if d is not None]
        for d in docs:
            d.pop("comment", None)
            d.pop("deprecated", None)
        return ("yaml", json.dumps(docs, sort_keys=True)), [], []
    toks = ctok12.tokens(textv, java=(lang == "java"))
    # the banner names the input file, which is the same for both variants
    sk, msgs, problems = ctok12.strip_docs(toks, java=(lang == "java"))
    return sk, msgs, problems


def hook_raw(job, gctx, jobdir):
    """observer inside the generating worker: the generated files whose *bytes* differ from what a reader with universal
    newlines sees (a CR on disk) — decoded without newline translation, the way a compiler reads them"""
    out = {}
    root = Path(jobdir) / job.get("out_dir", "out")
    for f in sorted(root.rglob("*")) if root.exists() else []:
        if f.is_file() and ("pydjinni" not in f.relative_to(root).parts[1:] or f.suffix == ".java"):
            raw = f.read_bytes()
            if b"\r" in raw:
                out[str(f.relative_to(root))] = raw.decode("utf-8", errors="surrogateescape")
    return out


def on_disk(res) -> dict:
    """{path: text} of a generation result, byte-exact"""
    return {**res["files"], **(res.get("extra") or {})}


def file_level(ctx, corpus):
    breaks = []
    n = ctx.n(26, 400)
    jobs, metas = [], []
    for c in corpus:
        if c.get("kind") == "program":
            jobs.append({"files": {"main.djinni": c["bare"]}, "root": "main.djinni"})
            jobs.append({"files": {"main.djinni": c["commented"]}, "root": "main.djinni", "want": ["dep"]})
            metas.append({"mode": "corpus", "bare": c["bare"], "commented": c["commented"], "judge": bool(c.get("judge"))})
    if n:
        families = [("runs", rotation_programs(ctx.n(12, 36)))]
        # every construct carries every (invisible character x split sequence) line: windows of 3k lines, aligned to the triples
        sv = idl_split_variants()
        per = ctx.n(18, 6)
        families.append(("split", rotation_programs(-(-len(sv) // per), variants=sv, per=per, stride=3)))
        # every construct is deprecated with a message of the length grid and documented with a line of the length grid
        msgs, docs = idl_length_variants(ctx.quick)
        random.Random("c12/length").shuffle(msgs)
        nlen = ctx.n(4, -(-len(msgs) // NSLOTS))
        families.append(("length", rotation_programs(nlen, variants=docs, per=1, tagtexts=msgs, always_deprecated=True, stride=5,
                                                     first=(ctx.seed * nlen) % max(1, -(-len(msgs) // NSLOTS)))))
        # every sink class (description, @param of every parameter, @returns, @throws, @deprecated) of every construct carries
        # each text of `SINK_TEXTS` (quick: one line order per text, alternating with the seed; thorough: both)
        families.append(("sinks", [(b, c) for t in range(len(SINK_TEXTS))
                                   for _, b, c in sink_programs({t}, orders=((t + ctx.seed) % 2,) if ctx.quick else (0, 1))]))
        for mode, progs in families:
            for bare, commented in progs:
                jobs.append({"files": {"main.djinni": bare}, "root": "main.djinni"})
                jobs.append({"files": {"main.djinni": commented}, "root": "main.djinni", "want": ["dep"]})
                metas.append({"mode": mode, "bare": bare, "commented": commented})
    for i in range(n):
        r = random.Random(f"{ctx.seed}/c12/p/{i}")
        mode = "plain" if i % 4 == 0 else "adv"
        bare, commented = program(r, mode)
        jobs.append({"files": {"main.djinni": bare}, "root": "main.djinni"})
        jobs.append({"files": {"main.djinni": commented}, "root": "main.djinni", "want": ["dep"]})
        metas.append({"mode": mode, "bare": bare, "commented": commented})
    for j in jobs:
        j["hook"] = "props.c12:hook_raw"
    # identical inputs (the comment-free variant of the rotation programs) are generated once
    uniq, index = [], {}
    for j in jobs:
        key = json.dumps(j, sort_keys=True)
        if key not in index:
            index[key] = len(uniq)
            uniq.append(j)
    uresults = genrun.run_many(ctx.tmp / "gen", uniq, timeout=60)
    results = [uresults[index[json.dumps(j, sort_keys=True)]] for j in jobs]
    lexreqs, lexmeta = [], []
    judged = []
    for k, meta in enumerate(metas):
        r0, r1 = results[2 * k], results[2 * k + 1]
        inp = {"kind": "program", "bare": meta["bare"], "commented": meta["commented"]}
        if not r0["ok"]:
            raise common.Infra(f"closed-world program without comments is not accepted/generated: {r0} \n{meta['bare']}")
        if not r1["ok"]:
            ctx.count(key=("program", meta["mode"], "fails"), sample={"stage": r1["stage"]})
            report(ctx, "program:generation-fails:" + r1["stage"] + ":" + r1["cls"],
                       "adding comments makes generation fail", {"input": inp, "impl": r1})
            continue
        f0, f1 = on_disk(r0), on_disk(r1)
        if set(f0) != set(f1):
            ctx.report("program:file-set", "adding comments changes the set of generated files",
                       {"input": inp, "only_bare": sorted(set(f0) - set(f1)), "only_commented": sorted(set(f1) - set(f0))})
            continue
        differing = []
        feats = set()
        for path in sorted(f0):
            if file_lang(path) is None:
                if f0[path] != f1[path]:
                    differing.append({"file": path, "why": "unknown file kind differs"})
                continue
            if getattr(ctx, "is_probe", False) and f0[path] == f1[path]:
                continue        # (candidates of the reduction: only the files the comment reaches are read)
            s0, m0, p0 = skeleton(path, f0[path])
            s1, m1, p1 = skeleton(path, f1[path])
            if p0 or m0:
                raise common.Infra(f"comment-free output has deprecation/lexical artefacts: {path}: {p0} {m0}")
            why = None
            if p1:
                why = "; ".join(sorted(set(p1)))
            elif s0 != s1:
                why = "token streams differ after removing comments and deprecation annotations"
                first = next((j for j, (a, b) in enumerate(zip(s0, s1)) if a != b), min(len(s0), len(s1)))
                why += f" (token {first}: {s0[first:first + 3]} vs {s1[first:first + 3]})"
            else:
                for lit in m1:
                    val = ctok12.c_unescape(lit)
                    if val is None or val not in r1.get("dep", []):
                        why = f"deprecation literal {lit!r} does not decode to a message of the AST"
                        break
            if why:
                differing.append({"file": path, "why": why})
            if file_lang(path) in ("c", "java") and f0[path] != f1[path]:
                lexreqs.append({"op": "c12.lex", "lang": file_lang(path), "text": f1[path]})
                lexmeta.append((path, f1[path]))
            feats.add((path.split("/")[0], bool(m1)))
        ctx.count(key=("program", meta["mode"], tuple(sorted(feats)), shape_of(meta["commented"])), nontrivial=meta["bare"] != meta["commented"],
                  sample={"idl": meta["commented"][:600], "files": len(f1)})
        ctx.stat("programs_" + meta["mode"])
        if differing:
            targets = sorted({d["file"].split("/")[0] for d in differing})
            key = "program:" + program_cause(meta["commented"], differing) + ":" + "+".join(targets)
            body = {"input": inp, "differing": differing[:8]}
            # the first program of a failure shape is reduced to the comment line(s) and declaration(s) that matter
            seen = ctx.stats.setdefault("violation_hits", {})
            if not getattr(ctx, "is_probe", False) and key not in seen and ctx.stats.get("shrink_rounds", 0) < 3:
                small = shrink_program(ctx, inp)
                if small is not None:
                    seen.setdefault(key, 0)
                    key, body = small[0], dict(small[1], reduced_from={"key": key, "commented": meta["commented"], "differing": differing[:3]})
            report(ctx, key, "comments change generated code (not only documentation / deprecation annotations)", body)
        else:
            judged.append((meta, f1))
    # the tokenizer used above against the Lean fragment, on the real generated files
    if lexreqs:
        step = 200
        for a0 in range(0, len(lexreqs), step):
            ans = ctx.driver.batch(lexreqs[a0:a0 + step])
            for (path, txt), a in zip(lexmeta[a0:a0 + step], ans):
                mine = ctok12.coarse(txt, java=path.endswith(".java"))
                lean = None if a["tokens"] is None else [t for t in a["tokens"] if t not in ("c ", "c\n", "c\t", "c\x0b", "c\x0c", "c\r")]
                ctx.stat("files_cross_lexed")
                if mine != lean:
                    breaks.append({"what": "ctok12 vs Lang/CLex on a generated file", "file": path, "text": txt[:2000]})
    return breaks, judged


class Probe:
    """a context for `file_level` that generates and judges candidate programs without reporting or counting them"""
    is_probe = True

    def __init__(self, ctx, tmp):
        self._ctx, self.tmp, self.hits, self.stats = ctx, tmp, [], {}

    def n(self, quick, thorough):
        return 0

    def report(self, key, what, body, **kw):
        self.hits.append((key, body))

    def count(self, **kw):
        pass

    def stat(self, *a, **kw):
        pass

    def __getattr__(self, name):
        return getattr(self._ctx, name)


def is_comment_line(line: str) -> bool:
    return line.lstrip().startswith("#")


def probe_programs(ctx, pairs):
    """-> for every (bare, commented): None if the comments leave the code alone, else (key, replay body)"""
    ctx.stats["shrink_rounds"] = ctx.stats.get("shrink_rounds", 0) + 1
    probe = Probe(ctx, ctx.tmp / ("shrink%d" % ctx.stats["shrink_rounds"]))
    try:
        file_level(probe, [{"kind": "program", "bare": b, "commented": c} for b, c in pairs])
    except common.Infra:
        return [None] * len(pairs)
    finally:
        shutil.rmtree(probe.tmp, ignore_errors=True)
    out = []
    for b, c in pairs:
        hit = [(k, body) for k, body in probe.hits if body.get("input", {}).get("commented") == c and body["input"].get("bare") == b]
        out.append(hit[0] if hit else None)
    return out


def shrink_program(ctx, inp):
    """Reduce a program whose comments change the code: (1) to the comment of one construct, (2) to one line of it, (3) to
    the declarations that comment needs (the declaration it stands in and what that one refers to). Each step keeps a
    candidate only if the real generators, run on it, still fail the token-stream comparison. -> (key, body) | None"""
    bare, commented = inp["bare"], inp["commented"]
    lines = commented.split("\n")
    if "\n".join(l for l in lines if not is_comment_line(l)) != bare:
        return None
    best = None

    def keep_only(keep):
        return "\n".join(l for i, l in enumerate(lines) if not is_comment_line(l) or i in keep)

    # (1) runs of consecutive comment lines = the comment of one construct
    blocks, cur = [], []
    for i, l in enumerate(lines):
        if is_comment_line(l):
            cur.append(i)
        elif cur:
            blocks.append(cur)
            cur = []
    if cur:
        blocks.append(cur)
    res = probe_programs(ctx, [(bare, keep_only(set(blk))) for blk in blocks])
    found = next(((blk, r) for blk, r in zip(blocks, res) if r), None)
    if found is None:
        return None
    blk, best = found
    # (2) one line of that comment
    if len(blk) > 1:
        res = probe_programs(ctx, [(bare, keep_only({i})) for i in blk])
        one = next(((i, r) for i, r in zip(blk, res) if r), None)
        if one is not None:
            blk, best = [one[0]], one[1]
    # (3) the declaration the comment stands in + what it depends on
    chunks = [(name, deps, re.sub(r"\{C\d?\}", "", tmpl)) for name, deps, tmpl in DECLS]
    present = [(name, deps, ch) for name, deps, ch in chunks if ch in bare]
    if "".join(ch for _, _, ch in present) == bare:
        j = sum(1 for l in lines[:blk[0]] if not is_comment_line(l))      # the comment stands before line j of `bare`
        start, owner = 0, None
        for name, deps, ch in present:
            nl = ch.count("\n")
            if start <= j < start + nl:
                owner, rel = name, j - start
                break
            start += nl
        if owner:
            deps_of = {name: deps for name, deps, _ in chunks}
            need, todo = set(), [owner]
            while todo:
                x = todo.pop()
                if x not in need:
                    need.add(x)
                    todo += deps_of[x]
            if len(need) < len(present):
                kept = [(name, ch) for name, _, ch in present if name in need]
                b2 = "".join(ch for _, ch in kept)
                at = sum(ch.count("\n") for name, ch in kept[:[name for name, _ in kept].index(owner)]) + rel
                l2 = b2.split("\n")
                c2 = "\n".join(l2[:at] + [lines[i] for i in blk] + l2[at:])
                r = probe_programs(ctx, [(b2, c2)])[0]
                if r:
                    best = r
    return best


def program_cause(idl: str, differing) -> str:
    whys = " ".join(d["why"] for d in differing)
    if "decode" in whys or "malformed" in whys:
        return "deprecation-literal"
    comments = "\n".join(l.strip()[1:] for l in idl.split("\n") if l.strip().startswith("#"))

    def features(comments):
        feats = []
        if "*/" in comments:
            feats.append("block-closer")
        if re.search(r"\\u", comments):
            feats.append("backslash-u")
        if re.search(r"\\\s*$", comments, flags=re.M):
            feats.append("line-ending-backslash")
        if re.search("[\x0b\x0c\x1c-\x1e\x85\u2028\u2029]", comments):
            feats.append("line-break-character")
        return feats

    feats = features(comments)
    # sequences that exist only once the invisible characters are taken out
    feats += ["split-" + f for f in features(erased(comments)) if f not in feats]
    return "|".join(feats) or "other"


# ---------------------------------------------------------------------------------------------------------
# judges: compilers on the commented variant; the lexing fragment against g++ -E and javac
# ---------------------------------------------------------------------------------------------------------

def judge_programs(ctx, judged):
    """g++ -fsyntax-only on every generated C++ header, javac on all Java files of the commented variant"""
    import concurrent.futures as cf
    n = ctx.n(2, 40)
    # corpus programs marked for the compilers always, then the first n generated ones
    work = [j for j in judged if j[0].get("judge")] + [j for j in judged if not j[0].get("judge")][:n]
    if not work:
        return

    def one(k_meta_files):
        k, (meta, files) = k_meta_files
        d = ctx.tmp / f"judge{k}"
        shutil.rmtree(d, ignore_errors=True)
        for path, txt in files.items():
            p = d / path
            p.parent.mkdir(parents=True, exist_ok=True)
            p.write_text(txt, encoding="utf-8")
        msgs = []
        hdrs = sorted(p for p in files if p.startswith("cpp/") and p.endswith(".hpp"))
        if hdrs:
            tu = d / "tu.cpp"
            tu.write_text("".join(f'#include "{h[4:]}"\n' for h in hdrs))
            inc = common.SRC / "pydjinni/generator/cpp/cpp/support_lib/include"
            inc2 = common.SRC / "pydjinni/generator/support_lib/include"
            r = subprocess.run(["g++", "-std=c++20", "-fsyntax-only", "-w", "-I", str(d / "cpp"), "-I", str(inc), "-I", str(inc2), str(tu)],
                               capture_output=True, text=True, timeout=120)
            if r.returncode != 0:
                msgs.append("g++: " + r.stderr[:600])
        jfiles = sorted(str(d / p) for p in files if p.endswith(".java"))
        if jfiles:
            (d / "cls").mkdir(exist_ok=True)
            r = subprocess.run(["javac", "-nowarn", "-proc:none", "-d", str(d / "cls")] + jfiles, capture_output=True, text=True, timeout=180)
            if r.returncode != 0:
                msgs.append("javac: " + (r.stdout + r.stderr)[:600])
        shutil.rmtree(d, ignore_errors=True)
        return meta, msgs

    with cf.ThreadPoolExecutor(max_workers=8) as ex:
        for meta, msgs in ex.map(one, enumerate(work)):
            ctx.stat("programs_compiled")
            if msgs:
                ctx.report("program:compiler-rejects", "the commented variant is rejected by the compiler although its token stream equals the comment-free one",
                           {"input": {"kind": "program", "bare": meta["bare"], "commented": meta["commented"]}, "judge": msgs})


def validate_fragment(ctx):
    """Lang/CLex against the real tools: g++ -E (comment removal after splicing) and javac (unicode escapes in comments)"""
    breaks = []
    n = ctx.n(120, 1500)
    texts = []
    alphabet = ["/", "*", "\\", "\n", " ", "\t", '"', "a", "b", ";", "//", "/*", "*/", "\\\n", "\\ \n", "x", "'", "\r", "\x0c", "\\\r\n", "\\\r"]
    # ... and characters a reader does not see: no compiler skips them between `*` and `/`, `\` and the end of the line
    # (NUL is left out: g++ counts it as horizontal white space, clang does not — see the assumptions)
    unseen = [z for z in INVISIBLE if z not in "\0\r"]
    for i in range(n):
        r = random.Random(f"{ctx.seed}/c12/v/{i}")
        pool = alphabet + ([r.choice(unseen)] * 4 if i % 3 == 0 else [])
        texts.append("".join(r.choice(pool) for _ in range(r.choice([2, 4, 6, 9, 14]))))
    for k, z in enumerate(unseen):      # seed-independent: each of them between the halves, in a comment position
        texts += ["/* a *" + z + "/ b; /* */ c;", "// a \\" + z + "\nb;"][k % 2: k % 2 + 1] if ctx.quick else ["/* a *" + z + "/ b; /* */ c;", "// a \\" + z + "\nb;"]
    ans = ctx.driver.batch([{"op": "c12.lex", "lang": "c", "text": t + "\n"} for t in texts])
    usable = []
    for t, a in zip(texts, ans):
        toks = a["tokens"]
        # g++ -E is only a judge for units that lex without error and without literals (it re-spells literals) and '#'
        # ... and has the unseen characters in comments only (in a code position g++ re-spells or rejects them)
        if "err" in toks or any(x.startswith(("str", "chr")) or (x[0] == "c" and x[1:] in unseen) for x in toks):
            continue
        usable.append((t, toks))
    d = ctx.tmp / "frag"
    d.mkdir(exist_ok=True)
    import concurrent.futures as cf

    def gpp(k_t):
        k, (t, _) = k_t
        f = d / f"u{k}.cpp"
        f.write_text(t + "\n", newline="")
        r = subprocess.run(["g++", "-std=c++20", "-E", "-P", "-w", str(f)], capture_output=True, text=True, timeout=60)
        return r.returncode, r.stdout

    with cf.ThreadPoolExecutor(max_workers=12) as ex:
        outs = list(ex.map(gpp, enumerate(usable)))
    for (t, toks), (rc, seen) in zip(usable, outs):
        code = "".join(x[1:] for x in toks if x.startswith("c") and x != "comment" and not x[1:].isspace())
        # g++ -E re-spells a character outside the basic set that stands in a code position as a universal character name
        gpp_code = re.sub(r"\\U([0-9a-fA-F]{8})", lambda m: chr(int(m.group(1), 16)), re.sub(r"\s+", "", seen))
        ctx.stat("fragment_gpp")
        if rc != 0 or code != gpp_code:
            breaks.append({"what": "Lang/CLex vs g++ -E", "text": t, "lean_code": code, "gpp_code": gpp_code, "rc": rc})
    # javac: a block comment with the text inside a class body compiles iff the fragment says "one comment"
    m = ctx.n(10, 80)
    jt = []
    for i in range(m):
        r = random.Random(f"{ctx.seed}/c12/vj/{i}")
        jt.append("".join(r.choice(["\\", "u", "\\u", "0041", "002a", "002f", "\\u002a\\u002f", "*", "/", " ", "x", "\\\\", "\n", "00", "zz"] + ([r.choice(IDL_INVISIBLE)] * 3 if i % 2 else []))
                          for _ in range(r.choice([1, 2, 3, 5, 7]))))
    for k, z in enumerate(IDL_INVISIBLE):
        if not ctx.quick or k % 3 == ctx.seed % 3:
            jt += ["a *" + z + "/ int injected; /*", "b \\" + z + "u002a/ int injected; /*"]
    m = len(jt)
    pre, suf = "class K%d {\n", "\n int f; }\n"
    reqs = [{"op": "c12.spec.comment", "lang": "java", "pre": pre % k, "out": "/* " + t + " */", "suf": suf} for k, t in enumerate(jt)]
    ans = ctx.driver.batch(reqs)
    jd = ctx.tmp / "fragj"
    jd.mkdir(exist_ok=True)
    files = []
    for k, t in enumerate(jt):
        p = jd / f"K{k}.java"
        p.write_text(pre % k + "/* " + t + " */" + suf, newline="")
        files.append(str(p))
    (jd / "cls").mkdir(exist_ok=True)
    r = subprocess.run(["javac", "-nowarn", "-proc:none", "-d", str(jd / "cls")] + files, capture_output=True, text=True, timeout=180)
    errfiles = set(re.findall(r"(K\d+)\.java:\d+: error", r.stdout + r.stderr))
    for k, (t, a) in enumerate(zip(jt, ans)):
        ctx.stat("fragment_javac")
        if a["holds"] != (f"K{k}" not in errfiles):
            breaks.append({"what": "Lang/CLex (Java) vs javac", "text": t, "lean_holds": a["holds"], "javac_ok": f"K{k}" not in errfiles})
    return breaks


# ---------------------------------------------------------------------------------------------------------

def load_corpus():
    p = common.VERIF / "corpus" / "c12.json"
    return json.loads(p.read_text()) if p.exists() else []


def run(ctx):
    ctx.coverage["rule"] = ("function level: distinct = (style, indented?, set of adversarial features in the text) resp. (builder, value kind, features); "
                            "function level also: grid of backslash runs 1..6 x continuations (unicode escapes, line ends, closers, quotes) x position for every generator / builder; "
                            "function level also: grid of 30 invisible / later-removable characters between the halves of every neutralised / escaped sequence; grid of lengths 7..1000 (thorough: 1..69, 2^k±1 up to 4096) x 12 shapes; every text is judged as the bytes the real file writer puts on disk; "
                            "file level: distinct = (mode, targets with deprecation literals, features of the comments); 12 (36) rotation programs put every backslash-run spelling on every commentable construct, 5 (15) `split` programs every invisible-character line, 4 (all) `length` programs the length grid of deprecation messages, 12 (24) `sinks` programs every text of SINK_TEXTS on every sink class (description, @param of every parameter, @returns, @throws, @deprecated) of every construct; non-trivial = non-empty text / a program whose commented variant differs")
    ctx.assumptions += [
        "no assumption on the rendered comment text or the deprecation message: the theorems hold for every string (the comment filter splits at '\\r' and every other line boundary, string_literal escapes them)",
        "closed feature set of the file-level generator: the eight declarations of `DECLS` (enum, flags with none/all last, record of i32/string/list<i32>/enum, "
        "error domain with value parameters, named function, +cpp interface with static/const/throws methods, +java+objc+cppcli interface, namespaced record with optional field); "
        "default identifier styles; comments on every commentable construct",
        "NUL: the lexing fragment follows clang (NUL is an ordinary character inside a comment); g++ counts NUL as horizontal white space, so backslash NUL newline "
        "is a line splice for g++ only — harmless inside the `/** */` comments of the C++ / JNI / Objective-C++ files; the `///` comments exist in Objective-C headers only",
        "the file writer is compared as a function of the content (fresh file names): `written content = content`",
    ]
    corpus = load_corpus()
    gens = generators()
    ok, bad_sinks, styles = obligations(ctx, gens)
    breaks = function_level(ctx, gens, corpus)
    b2, judged = file_level(ctx, corpus)
    breaks += b2
    breaks += validate_fragment(ctx)
    if not ctx.violations or not ctx.quick:
        judge_programs(ctx, judged)
    if bad_sinks and not ctx.violations:
        # a comment-carrying expression that is not contained: build the input that exercises it
        s = bad_sinks[0]
        ctx.report("sink:" + s["gen"] + ":" + s["tmpl"], "a template expression carries comment text without the comment filter",
                   {"sink": s}, no_failing_input=True)
    ctx.stats["correspondence_breaks"] = len(breaks)
    keys = {}
    for v in ctx.violations:
        keys[v["key"]] = keys.get(v["key"], 0) + 1
    if keys:
        ctx.stats["violation_keys"] = keys
    if breaks and not ctx.violations:
        ctx.report("correspondence", "model and implementation disagree; the specification holds on every sampled input",
                   {"first": breaks[0], "count": len(breaks)}, no_failing_input=True)
    elif breaks:
        ctx.stats["correspondence_first"] = breaks[0]


def replay(ctx, body):
    inp = body.get("input", {})
    gens = generators()
    if inp.get("kind") == "filter":
        g = next(x for x in gens if x.key == inp["generator"])
        rendered = g._jinja_env.filters["comment"](inp["text"])
        if inp.get("indent") is not None:
            rendered = g._jinja_env.filters["indent"](rendered, inp["indent"])
        out = through_writer(ctx, [rendered, rendered])[inp.get("entry", 0) % 2]
        pre, suf = PROBES[inp.get("probe", 0)]
        a = ctx.driver.one({"op": "c12.spec.comment", "lang": inp.get("lang", "c"), "pre": pre, "out": out, "suf": suf})
        print(json.dumps({"rendered": rendered, "impl_output": out, "spec": a}, indent=1)[:3000])
        return bool(a["holds"])
    if inp.get("kind") == "deprecated":
        rendered = real_deprecated(inp["target"], inp["dep"], inp.get("pre", ""), inp.get("post", ""))
        out = through_writer(ctx, [rendered, rendered])[inp.get("entry", 0) % 2]
        a = ctx.driver.one({"op": "c12.spec.deprecated", "target": inp["target"], "dep": inp["dep"], "out": out,
                            "pre": inp.get("pre", ""), "post": inp.get("post", "")})
        print(json.dumps({"rendered": rendered, "impl_output": out, "spec": a}, indent=1)[:3000])
        return bool(a["holds"])
    if inp.get("kind") == "program":
        n0 = len(ctx.violations)
        file_level_one(ctx, inp)
        return len(ctx.violations) == n0 and not ctx.known_hits
    print("replay without a concrete input (obligation / correspondence):", json.dumps(body, indent=1)[:2000])
    return False


def file_level_one(ctx, inp):
    saved = ctx.n
    try:
        ctx.n = lambda q, t: 0
        _, judged = file_level(ctx, [{"kind": "program", "bare": inp["bare"], "commented": inp["commented"], "judge": True}])
        judge_programs(ctx, judged)
    finally:
        ctx.n = saved
