"""C07 — JNI glue and generated Java agree on every class, member and native symbol.

Ties (every run):
* translator: for every built-in row `jni.type_signature = desc(java.typename)`, `jni.boxed_type_signature =
  desc(java.boxed)`, `jni.typename` = JNI C type of `java.typename` (generated Lean file, `decide`);
* function level: the JNI marshalling attributes (`type_signature`, `boxed_type_signature`, `class_descriptor`,
  `jni_prefix`, `header`, `get_typename`, method `type_signature` / `return_type_spec`) against the Lean model;
* file level: java + jni are generated for valid programs; the lookups (`jniFindClass/jniGetMethodID/…/JniEnum/
  JniInterface` literals with their class context) and `JNIEXPORT` prototypes extracted from the generated JNI
  files, and the classes / members of the generated Java (`javac` + `javap -s -p`; source-level extraction with
  descriptors from `Lang/JavaDesc` when javac fails) against the model's `jniLookups` / `jniExports` / `javaMembers`.
Streams: `gen` (random programs; every second one with identifiers of all character-class shapes and inline function types over
user types), `anon` (interfaces whose methods take inline function types over user types with such identifiers: the class name of an
anonymous function is computed from the spelling of its signature by the Java and by the JNI generator), `hist` (ONE `API` object,
2-3 successive configure → parse → generate rounds with other packages / support-types packages / identifier styles and programs
with `async` methods; each round's glue is checked against that round's javap output), `tgt` (records, interfaces and named function
types whose target lists walk the whole lattice of lists over the supported keys cpp / cppcli / java / objc / yaml — lists with
neither cpp nor java, one of them, both — in every spelling (`+a +b`, `-c -d`, `+any -c`, `+a +c -c`, repetitions), referred to from
each other's fields, parameters, results and inline function types: which Java class, proxy class and natives exist and which
lookups / exports the glue has are both functions of the list), corpus.
Specification on the implementation's observations (`c07.spec`): every looked-up (class, member, descriptor)
exists in the Java classes (superclasses searched, static-ness respected); every `native` method has exactly one
export with the mangled name and the C types of its Java signature; no orphan `Java_…` export.
"""
from __future__ import annotations

import json
import multiprocessing
import os
import random
import shutil
import subprocess
import time
from pathlib import Path

import common
import ctok
import gen_api
from props import c02

LEAN_MODULE = "PydjinniModel.Props.C07"
THEOREMS = [
    "Pydjinni.Gen.jniRefSig_eq_desc",
    "Pydjinni.Gen.jniMethodSig_eq",
    "Pydjinni.Gen.ctorSig_eq",
    "Pydjinni.Gen.jniClass_eq_javaClass",
    "Pydjinni.Gen.lookups_resolve",
    "Pydjinni.Gen.mangle_append",
    "Pydjinni.Gen.jniPrefix_eq",
    "Pydjinni.Gen.jniGetTypename_eq",
    "Pydjinni.Gen.exports_are_natives",
    "Pydjinni.Gen.natives_exported_once",
    "Pydjinni.Gen.natives_exported_exactly_once",
    "Pydjinni.Gen.c_types_correspond",
    "Pydjinni.Gen.support_lookups_resolve",
    "Pydjinni.Gen.support_exports_are_natives",
    "Pydjinni.Gen.history_free",
    "Pydjinni.Gen.history_rounds_agree",
]
LEVEL = "proof"
TRUSTED = (
    "JNI literal / JNIEXPORT extractor and javap parser in harness/ctok.py; javac/javap 17 as judges of what the JVM sees",
    "support-library lookups behind JniEnum/JniFlags/JniInterface(\"…\") (values()/ordinal(), <init>(J)V, nativeRef) are expanded by the harness as read from support.cpp",
)

JDK = ["java.lang.Object", "java.lang.Enum", "java.lang.Throwable", "java.lang.Exception", "java.lang.RuntimeException"]
C07_TABLE_CHECKS = [("jni_signatures_are_java_descriptors", "jniOK")]


def expand_lookups(raw: list[dict]) -> list[dict]:
    out = []
    for l in raw:
        if l["kind"] != "support":
            out.append({k: l[k] for k in ("cls", "kind", "name", "sig")})
        elif l["name"] in ("JniEnum", "JniFlags"):
            c = l["cls"]
            out += [{"cls": c, "kind": "class", "name": "", "sig": ""}, {"cls": c, "kind": "static", "name": "values", "sig": f"()[L{c};"},
                    {"cls": c, "kind": "method", "name": "ordinal", "sig": "()I"}]
        elif l["name"] == "JniInterface":
            c = l["cls"]
            out += [{"cls": c, "kind": "class", "name": "", "sig": ""}, {"cls": c, "kind": "method", "name": "<init>", "sig": "(J)V"},
                    {"cls": c, "kind": "field", "name": "nativeRef", "sig": "J"}]
    return out


def norm_exports(raw: list[dict]) -> list[dict]:
    out = []
    for e in raw:
        p = [x.replace(" ", "") for x in e["params"]]
        out.append({"symbol": e["symbol"], "ret": e["ret"].replace(" ", ""), "recv": p[1] if len(p) > 1 else "", "params": p[2:], "all_params": p})
    return out


# --------------------------------------------------------------------------------------------------------
# Java side
# --------------------------------------------------------------------------------------------------------

def java_type_json(src_type: str, pkg: str, known: dict):
    """canonical Java source type (tokens joined by blanks) -> JType JSON; annotations dropped;
    simple names: nested/sibling classes of the compilation unit (`known`), else java.lang"""
    toks = src_type.split(" ")
    # drop annotations: '@' Name ('.' Name)*
    out, i = [], 0
    while i < len(toks):
        if toks[i] == "@":
            i += 2
            while i + 1 < len(toks) and toks[i] == ".":
                i += 2
            continue
        out.append(toks[i])
        i += 1
    s = "".join(out)
    j = gen_api.parse_java_type(s)

    def fix(t):
        if "prim" in t:
            return t
        if "arr" in t:
            return {"arr": fix(t["arr"])}
        t = {"pkg": t["pkg"], "name": t["name"], "args": [fix(a) for a in t["args"]]}
        if t["pkg"] == ["java", "lang"] and t["name"] in known:
            b = known[t["name"]].split("/")
            t["pkg"], t["name"] = b[:-1], b[-1]
        elif t["pkg"] and t["pkg"][0] in known and t["pkg"] != ["java", "lang"]:
            # `Outer.Inner` with `Outer` imported / declared in this file
            b = known[t["pkg"][0]].split("/")
            t["pkg"], t["name"] = b[:-1], "$".join([b[-1]] + t["pkg"][1:] + [t["name"]])
        return t
    return fix(j)


def flatten_classes(jf: dict) -> list[dict]:
    out = []

    def walk(c):
        out.append(c)
        for n in c["nested"]:
            walk(n)
    for c in jf["classes"]:
        walk(c)
    return out


def source_members(java_files: dict[str, str]):
    """source-level extraction of every class of the generated Java; descriptors are computed later by the driver.
    Returns (classes: [{name, extends, members:[{kind,name,static,native,params:[JType],ret:JType|None}]}])"""
    parsed = [ctok.java_file(t) for t in java_files.values()]
    classes = []
    for jf in parsed:
        pkg = jf["package"]
        flat = flatten_classes(jf)
        known = {**jf.get("imports", {}), **{c["simple"]: c["name"] for c in flat}}
        for c in flat:
            ext = c["extends"]
            if c["kind"] == "enum":
                ext_b = "java/lang/Enum"
            elif ext is None:
                ext_b = "java/lang/Object" if c["kind"] == "class" else None
            elif ext in known:
                ext_b = known[ext]
            else:
                ext_b = "java/lang/" + ext
            members = []
            tj = lambda t: java_type_json(t, pkg, known)
            for f in c["fields"]:
                members.append({"kind": "field", "name": f["name"], "static": "static" in f["mods"], "native": False, "params": [], "ret": tj(f["type"])})
            for k in c["ctors"]:
                members.append({"kind": "ctor", "name": "<init>", "static": False, "native": False, "params": [tj(p[0]) for p in k["params"]], "ret": None})
            for m in c["methods"]:
                members.append({"kind": "method", "name": m["name"], "static": "static" in m["mods"], "native": "native" in m["mods"],
                                "params": [tj(p[0]) for p in m["params"]], "ret": None if m["ret"] == "void" else tj(m["ret"])})
            if c["kind"] == "enum":
                binary = c["name"].split("/")
                members.append({"kind": "method", "name": "values", "static": True, "native": False, "params": [],
                                "ret": {"arr": {"pkg": binary[:-1], "name": binary[-1], "args": []}}})
            classes.append({"name": c["name"], "extends": ext_b, "members": members})
    return classes


_jdk_cache = None


def jdk_classes() -> list[dict]:
    global _jdk_cache
    if _jdk_cache is None:
        out = subprocess.run(["javap", "-s", "-p"] + JDK, capture_output=True, text=True, timeout=120).stdout
        cl = ctok.parse_javap(out)
        # natives of the JDK are bound by the JVM itself: not subject of the export clause
        _jdk_cache = [{"name": k, "extends": (v["extends"] if k != "java/lang/Object" else None),
                       "members": [{**m, "native": False} for m in v["members"]]} for k, v in cl.items()]
    return _jdk_cache


# --------------------------------------------------------------------------------------------------------
# worker: one program
# --------------------------------------------------------------------------------------------------------

JAVA_PACKAGES = ['com.ex.lib', 'a.bb.c_d.e1', 'org.other.app', 'io.x1.y_2z.w']
SUPPORT_PACKAGES = [None, None, 'support', 'internal.sup_types']


TARGET_PLAN = ['enum', 'flags', 'record', 'record', 'record', 'interface', 'function', 'interface', 'function', 'record', 'interface', 'function', 'interface']


def gen_config(r: random.Random, out: Path, klass: int) -> dict:
    """klass 0: default identifier styles; 1: random configuration inside the configuration domain of the theorems (the JNI
    generator's class / method styles are those of the Java generator); 2: any random configuration"""
    if klass == 0:
        return gen_api.default_like_config(out)
    cfg = gen_api.rand_config(r, out, compile_safe=True)
    g = cfg["generate"]
    if klass == 1:
        g["jni"]["identifier"]["class_name"] = g["java"]["identifier"]["type"]
        g["jni"]["identifier"]["method"] = g["java"]["identifier"]["method"]
    return cfg


def with_async(decls: list[dict], r: random.Random) -> list[dict]:
    """make sure the program has an `async` method on an interface implemented in C++ (NativeRunnable) and on one implemented in
    Java (NativeCompletion): the support classes and their glue are part of every round of a history"""
    decls = list(decls)
    taken = {d['name'] for d in decls}
    for flags, stem in (('+cpp', 'aw_native'), ('-cpp', 'aw_host')):
        targets_ok = (lambda f: f in ('+cpp', '')) if flags == '+cpp' else (lambda f: f in ('-cpp', ''))
        if any(d['kind'] == 'interface' and targets_ok(d.get('flags', '')) and any(m.get('async') for m in d['methods']) for d in decls):
            continue
        name = next(n for n in [stem] + [f"{stem}{i}" for i in range(2, 9)] if n not in taken)
        ms = [{'name': mn, 'params': [(pn, gen_api.T(r.choice(gen_api.PRIMS), opt=r.random() < 0.3)) for pn in r.sample(gen_api.MEMBER_NAMES[:8], r.randint(0, 2)) if pn != mn],
               'ret': gen_api.T(r.choice(gen_api.PRIMS)) if (i == 0 or r.random() < 0.6) else None, 'async': True}
              for i, mn in enumerate(r.sample(gen_api.MEMBER_NAMES[8:], r.randint(1, 2)))]
        decls.append({'kind': 'interface', 'name': name, 'ns': r.choice([[], [], ['n1'], ['n1', 'm_2']]), 'flags': flags, 'methods': ms})
    return decls


def history_rounds(seed, hi: int) -> list[dict]:
    """2-3 successive configure → parse → generate rounds for ONE `API` object: every round has another (package, support types
    package) than the round before, other identifier styles / namespaces, and a program with asynchronous methods (the same
    program as the round before half of the time)"""
    r = random.Random(f"{seed}/c07/hist/{hi}")
    rounds, prev, text = [], None, None
    for k in range(r.choice([2, 3, 3])):
        while True:
            where = (r.choice(JAVA_PACKAGES), r.choice(SUPPORT_PACKAGES))
            if where != prev:
                break
        prev = where
        cfg = gen_config(r, Path("out"), (hi + k) % 2)
        cfg["generate"]["java"]["package"] = where[0]
        cfg["generate"]["java"].pop("support_types_package", None)
        if where[1] is not None:
            cfg["generate"]["java"]["support_types_package"] = where[1]
        if text is None or r.random() < 0.5:
            g = gen_api.ProgGen(r, java_compiles=True, base_records=False, max_decls=6, async_p=0.5,
                                names=gen_api.SAFE_NAMES + gen_api.shape_names(r, 5, avoid=gen_api.SAFE_NAMES), inline_user_types=True)
            text = gen_api.render(with_async(g.program(), r))
        rounds.append({"idl": text, "config": cfg})
    return rounds


def _round(api_object, cfg: dict, text: str, base: Path, res: dict) -> dict:
    """one configure → parse → generate("java") round in `base` with the given `API` object (None: a fresh one), then the
    extraction of the JNI literals / exports and of the generated Java (javac + javap; source level)"""
    try:
        configured, g = gen_api.parse_program(cfg, text, base, api_object)
    except Exception as e:
        res["infra"] = f"program rejected by the front end: {type(e).__name__}: {str(e)[:300]}\n{text[:600]}"
        return res
    dump = gen_api.Dump(g.defs).finish()
    res["udefs"] = dump.udefs
    res["lc"] = gen_api.lean_cfg(configured.config)
    cwd = os.getcwd()
    os.chdir(base)
    try:
        g.generate("java")
    except Exception as e:
        res["generate_failed"] = f"{type(e).__name__}: {str(e)[:200]}"
        return res
    finally:
        os.chdir(cwd)
    jni_out = Path(cfg["generate"]["jni"]["out"])
    java_out = Path(cfg["generate"]["java"]["out"])
    per_decl = []
    try:
        for td in g.defs:
            h = jni_out / str(td.jni.header)
            c = jni_out / str(td.jni.source)
            ex = ctok.jni_extract(h.read_text() if h.exists() else None, c.read_text() if c.exists() else None)
            per_decl.append({"lookups": expand_lookups(ex["lookups"]), "exports": norm_exports(ex["exports"])})
        sup = {"lookups": [], "exports": []}
        for stem in ("schedule", "completion"):
            h = jni_out / "pydjinni" / "coroutine" / f"{stem}.hpp"
            c = jni_out / "pydjinni" / "coroutine" / f"{stem}.cpp"
            if h.exists() or c.exists():
                ex = ctok.jni_extract(h.read_text() if h.exists() else None, c.read_text() if c.exists() else None)
                sup["lookups"] += expand_lookups(ex["lookups"])
                sup["exports"] += norm_exports(ex["exports"])
        # the JDK lookups of forkJoinPool() are not about generated Java
        sup["lookups"] = [l for l in sup["lookups"] if not l["cls"].startswith("java/")]
        res["jni"] = per_decl
        res["jni_support"] = sup
    except (ctok.ExtractError, IndexError, KeyError, ValueError) as e:
        res["extract_failed"] = f"JNI glue: {type(e).__name__}: {e}"
        return res
    files = {str(p.relative_to(java_out)): p.read_text() for p in sorted(java_out.rglob("*.java"))}
    try:
        res["java_src"] = source_members(files)
    except (ctok.ExtractError, IndexError, KeyError, ValueError) as e:
        res["java_src_failed"] = f"{type(e).__name__}: {e}"
    cls = base / "cls"
    cls.mkdir(exist_ok=True)
    stubs = base / "stubs" / "org" / "x"
    stubs.mkdir(parents=True, exist_ok=True)
    for a in ("Nullable", "NonNull"):
        (stubs / f"{a}.java").write_text("package org.x;\n@java.lang.annotation.Target(java.lang.annotation.ElementType.TYPE_USE)\npublic @interface %s {}\n" % a)
    try:
        r1 = subprocess.run(["javac", "-nowarn", "-d", str(cls)] + [str(java_out / f) for f in files] + [str(p) for p in stubs.glob("*.java")],
                            capture_output=True, text=True, timeout=120)
        if r1.returncode == 0:
            names = [str(p.relative_to(cls))[:-6].replace("/", ".") for p in sorted(cls.rglob("*.class")) if not str(p.relative_to(cls)).startswith("org/x/")]
            r2 = subprocess.run(["javap", "-s", "-p", "-cp", str(cls)] + names, capture_output=True, text=True, timeout=120)
            cl = ctok.parse_javap(r2.stdout)
            res["javap"] = [{"name": k, "extends": v["extends"], "members": v["members"]} for k, v in cl.items()]
        else:
            res["javac_error"] = (r1.stdout + r1.stderr)[:600]
    except subprocess.TimeoutExpired:
        res["javac_error"] = "timeout"
    return res


def _place(cfg: dict, base: Path) -> dict:
    """the configuration with its output directories under `base`"""
    gen = {k: dict(v) for k, v in cfg["generate"].items()}
    for k in gen:
        gen[k]["out"] = str(base / "out" / k)
    return {"generate": gen}


def _worker(args) -> list[dict]:
    """one job = one program (streams `gen`, `anon`, corpus entries) or one call history on ONE `API` object (`hist`, corpus
    entries with a `history`); returns one observation per round"""
    kind, seed, pi, base, payload = args
    base = Path(base)
    if kind == "hist" or (payload is not None and "history" in payload):
        rounds = history_rounds(seed, pi) if payload is None else [{"idl": x["idl"], "config": {"generate": x["config"]["generate"] if "generate" in x["config"] else x["config"]}}
                                                                      for x in payload["history"]]
        from pydjinni import API
        api_object = API()
        out = []
        for k, rd in enumerate(rounds):
            cfg = _place(rd["config"], base / f"round_{k}")
            hist = [{"idl": x["idl"], "config": _place(x["config"], base / f"round_{j}")["generate"]} for j, x in enumerate(rounds[:k + 1])]
            res = {"text": rd["idl"], "cfg": cfg, "stats": [], "pi": pi, "kind": kind, "round": k, "rounds": len(rounds),
                   "replay_input": {"idl": rd["idl"], "config": cfg["generate"], "history": hist, "round": k,
                                    "note": "the rounds of `history` are run one after the other on ONE pydjinni API object; the observation is the output of the last"}}
            out.append(_round(api_object, cfg, rd["idl"], base / f"round_{k}", res))
            if "infra" in res:
                break
        shutil.rmtree(base, ignore_errors=True)
        return out
    if kind == "gen":
        r = random.Random(f"{seed}/c07/{pi}")
        cfg = gen_config(r, base / "out", pi % 3)
        # every second program: identifiers of all character-class shapes, inline function types over user types
        wide = pi % 2 == 1
        g = gen_api.ProgGen(r, java_compiles=True, base_records=False, inline_user_types=wide,
                            names=gen_api.SAFE_NAMES + gen_api.shape_names(r, 8, avoid=gen_api.SAFE_NAMES) if wide else None)
        text = gen_api.render(g.program())
    elif kind == "anon":
        # anonymous function types: their class name is computed from the spelling of the signature by two generators (Java, JNI)
        r = random.Random(f"{seed}/c07/anon/{pi}")
        cfg = gen_config(r, base / "out", pi % 2)
        g = gen_api.ProgGen(r, java_compiles=True, base_records=False, names=gen_api.shape_names(r, 8), inline_user_types=True,
                            inline_p=0.6, user_p=0.75, min_methods=2)
        text = gen_api.render(g.program(plan=['enum', 'flags', 'record', 'record', 'interface', 'interface', 'interface']))
    elif kind == "tgt":
        # target lists: records, interfaces and named function types over the whole lattice of lists (`+objc`, `+cppcli +yaml`,
        # `-cpp -java`, `+any -java`, `+cpp +java`, …), referred to from each other's fields, parameters and results. Which Java
        # class / proxy / natives exist and which lookups / exports the glue has are both functions of the list
        r = random.Random(f"{seed}/c07/tgt/{pi}")
        cfg = gen_config(r, base / "out", pi % 2)
        g = gen_api.ProgGen(r, java_compiles=True, inline_user_types=pi % 2 == 1, user_p=0.7, min_methods=1, async_p=0.1,
                            names=gen_api.SAFE_NAMES + gen_api.shape_names(r, 4, avoid=gen_api.SAFE_NAMES),
                            target_lists=gen_api.TargetRotation(r, java_record_p=0.2 if pi % 3 else 1.0))
        text = gen_api.render(g.program(plan=TARGET_PLAN))
    else:
        cfg = _place({"generate": payload["config"]["generate"] if "generate" in payload["config"] else payload["config"]}, base)
        text = payload["idl"]
    res = {"text": text, "cfg": cfg, "stats": [], "pi": pi, "kind": kind, "round": 0, "rounds": 1}
    _round(None, cfg, text, base, res)
    shutil.rmtree(base, ignore_errors=True)
    return [res]


# --------------------------------------------------------------------------------------------------------
# check
# --------------------------------------------------------------------------------------------------------

def member_key(m):
    return (m["kind"], m["name"], m["desc"], bool(m["static"]), bool(m["native"]))


def decl_of_class(cls: str, model_out: list[dict]):
    best, bl = None, -1
    for i, d in enumerate(model_out):
        for n in (d["java_class"], d["jni_class"]):
            if n and (cls == n or cls.startswith(n + "$") or cls.startswith(n + "CppProxy")) and len(n) > bl:
                best, bl = i, len(n)
    return best


def run(ctx):
    ctx.coverage["rule"] = ("one case = one generated declaration of a valid program (java + jni generated, Java compiled with javac and read with "
                            "javap -s -p), in a fresh API object or in the 2nd/3rd configure-parse-generate round of one API object ; distinct = "
                            "(declaration kind, targets, member shape, configuration class, first/later round) ; non-trivial = the declaration "
                            "has at least one lookup or native method")
    rows = gen_api.builtin_rows()
    c02.table_obligations(ctx, rows, C07_TABLE_CHECKS, "C07_tables")
    # ---- function level (JNI attributes) ----------------------------------------------------------------
    rs = random.Random(f"{ctx.seed}/c07/sample")
    types = list(gen_api.all_type_exprs(depth3=False))
    sample = types if not ctx.quick else rs.sample(types, 600)
    rs.shuffle(sample)
    chunks = [sample[i:i + 150] for i in range(0, len(sample), 150)]
    breaks = c02.function_level(ctx, rows, chunks, "jni", type_keys=c02.JNI_TYPE_KEYS, user_keys=c02.JNI_USER_KEYS,
                                method_keys=c02.JNI_METHOD_KEYS, type_refs={}, method_refs={})
    ctx.stats["function_level_breaks"] = len(breaks)
    if breaks:
        ctx.stats["break_examples"] = [{k: b[k] for k in ("attribute", "input", "implementation", "model")} for b in breaks[:8]]
    # ---- file level ------------------------------------------------------------------------------------------
    corpus = json.loads((common.VERIF / "corpus" / "c07.json").read_text()) if (common.VERIF / "corpus" / "c07.json").exists() else []
    n, n_anon, n_hist, n_tgt = ctx.n(44, 600), ctx.n(6, 80), ctx.n(5, 60), ctx.n(10, 120)
    # call histories first: they are the longest jobs
    jobs = [("hist", ctx.seed, hi, str(ctx.tmp / f"hist_{hi}"), None) for hi in range(n_hist)]
    jobs += [("corpus", ctx.seed, i, str(ctx.tmp / f"corpus_{i}"), c) for i, c in enumerate(corpus)]
    jobs += [("anon", ctx.seed, pi, str(ctx.tmp / f"anon_{pi}"), None) for pi in range(n_anon)]
    jobs += [("tgt", ctx.seed, pi, str(ctx.tmp / f"tgt_{pi}"), None) for pi in range(n_tgt)]
    jobs += [("gen", ctx.seed, pi, str(ctx.tmp / f"prog_{pi}"), None) for pi in range(n)]
    t0 = time.time()
    with multiprocessing.get_context("fork").Pool(14) as pool:
        results = [res for job in pool.map(_worker, jobs, chunksize=1) for res in job]
    ctx.stats["t_generate_javac_javap_s"] = round(time.time() - t0, 2)
    fbreaks = evaluate(ctx, rows, results)
    ctx.stats["file_level_breaks"] = len(fbreaks)
    if fbreaks:
        ctx.stats["file_break_examples"] = [{k: str(v)[:300] for k, v in b.items() if k not in ("idl", "config", "history", "note")} for b in fbreaks[:8]]
    allb = breaks + fbreaks
    if allb and not ctx.violations:
        first = allb[0]
        ctx.report("correspondence", "JNI/Java model and implementation disagree; the lookup/export specification holds on every sampled program",
                   {"correspondence": "c07.model vs extracted lookups/exports/javap members; c02.types (jni attributes) vs real marshalling objects",
                    "first": first, "count": len(allb)}, no_failing_input=True)
    ctx.assumptions += [gen_api.FEATURES,
                        "theorem domain Dom: jniClassNameIsJavaName (jni.identifier.class_name gives the Java class names, also for every type in the "
                        "member signatures) and noJavaBaseRecord are conditions outside which the real code is run and its failures are listed "
                        "findings; wf and staticOnlyOnCppInterfaces are guaranteed by the front end (C05); tables = generated obligation jniOK",
                        "call histories: the model of round k of a history on one API object is the model of a fresh object for round k's configuration "
                        "and program (theorem history_free: configure replaces what the generator instances hold); the check compares every round "
                        "of the real history with it and evaluates c07.spec on that round's own glue and javap output",
                        "a lookup 'resolves' = javap -s -p (or the source-level extraction) shows the member with that name, descriptor and static-ness in "
                        "the class or a superclass; no JVM is started"]


def evaluate(ctx, rows, results):
    reqs, kept = [], []
    for res in results:
        if "infra" in res:
            raise common.Infra(res["infra"])
        if "generate_failed" in res:
            ctx.stat("generate_failed")
            ctx.stats.setdefault("generate_failed_examples", []).append(res["generate_failed"])
            continue
        if "extract_failed" in res:
            ctx.report("jni:not-extractable", "generated JNI glue does not have the expected form: " + res["extract_failed"],
                       {"input": res.get("replay_input") or {"idl": res["text"], "config": res["cfg"]["generate"]}})
            continue
        reqs.append({"op": "c07.model", "cfg": res["lc"], "builtins": rows, "udefs": res["udefs"], "decls": res["udefs"]})
        kept.append(res)
    models = ctx.driver.batch(reqs)
    # descriptors of the source-level members
    dreqs = []
    for res in kept:
        ts = []
        for c in res.get("java_src", []):
            for m in c["members"]:
                ts += m["params"] + [m["ret"]]
        dreqs.append({"op": "c07.desc", "types": ts})
    descs = ctx.driver.batch(dreqs)
    sreqs, infos = [], []
    breaks = []
    for res, model, dans in zip(kept, models, descs):
        for a in (model, dans):
            if "error" in a:
                raise common.Infra(f"driver error: {a['error']}\n{res['text']}")
        inp = res.get("replay_input") or {"idl": res["text"], "config": res["cfg"]["generate"]}
        # source-level classes with descriptors
        src_classes = None
        if "java_src" in res:
            it = iter(dans["out"])
            src_classes = []
            for c in res["java_src"]:
                ms = []
                for m in c["members"]:
                    ps = [next(it)["desc"] for _ in m["params"]]
                    r = next(it)["desc"]
                    d = r if m["kind"] == "field" else "(" + "".join(ps) + ")" + (r if m["kind"] == "method" else "V")
                    ms.append({"kind": m["kind"], "name": m["name"], "desc": d, "static": m["static"], "native": m["native"]})
                src_classes.append({"name": c["name"], "extends": c["extends"], "members": ms})
        if "javap" in res:
            classes = res["javap"]
            ctx.stat("java_from_javap")
            # validation of the source-level extractor + Lang/JavaDesc against javac/javap
            if src_classes is not None:
                jp = {c["name"]: c for c in classes}
                for c in src_classes:
                    want = {member_key(m) for m in c["members"]}
                    got = {member_key(m) for m in jp.get(c["name"], {"members": []})["members"]}
                    ctx.stat("desc_validated_members", len(want))
                    if not want <= got:
                        breaks.append({"what": "source-level members/descriptors (ctok.java_file + Lang/JavaDesc.desc) differ from javap",
                                       "class": c["name"], "missing": sorted(want - got)[:4], **inp})
        elif src_classes is not None:
            classes = src_classes
            ctx.stat("java_from_source")
            ctx.stats.setdefault("javac_errors", []).append(res.get("javac_error", "")[:200])
            ctx.stats["javac_errors"] = ctx.stats["javac_errors"][:5]
        else:
            ctx.report("java:not-extractable", "generated Java neither compiles nor has the expected declaration form: " + res.get("java_src_failed", ""),
                       {"input": inp, "javac": res.get("javac_error")})
            continue
        lookups = [l for d in res["jni"] for l in d["lookups"]] + res["jni_support"]["lookups"]
        exports = [e for d in res["jni"] for e in d["exports"]] + res["jni_support"]["exports"]
        sreqs.append({"op": "c07.spec", "classes": classes + jdk_classes(), "lookups": lookups,
                      "exports": [{"symbol": e["symbol"], "ret": e["ret"], "params": e["all_params"]} for e in exports]})
        infos.append((res, model, classes))
        # ---- correspondence: model vs extraction ---------------------------------------------------------
        lk = lambda l: (l["cls"], l["kind"], l["name"], l["sig"])
        ek = lambda e: (e["symbol"], e["ret"], e["recv"], tuple(e["params"]))
        cls_members = {c["name"]: {member_key(m) for m in c["members"]} for c in classes + jdk_classes()}
        for di, (j, mo, ex) in enumerate(zip(res["udefs"], model["out"], res["jni"])):
            nontrivial = bool(mo["lookups"] or mo["exports"])
            ctx.count(key=("decl", c02.member_shape(j), tuple(mo["dom"])) + (("later-round",) if res.get("round") else ()), nontrivial=nontrivial,
                      sample={"declaration": j["name"], "kind": j["_kind"], "lookups": mo["lookups"][:6], "exports": mo["exports"][:3]})
            ctx.stat("decl_" + j["_kind"])
            if sorted(map(lk, mo["lookups"])) != sorted(map(lk, ex["lookups"])):
                breaks.append({"what": "lookups differ", "declaration": j["name"], "model": sorted(set(map(lk, mo["lookups"])) - set(map(lk, ex["lookups"])))[:4],
                               "implementation": sorted(set(map(lk, ex["lookups"])) - set(map(lk, mo["lookups"])))[:4], **inp})
            if sorted(map(ek, mo["exports"])) != sorted(map(ek, ex["exports"])):
                breaks.append({"what": "exports differ", "declaration": j["name"], "model": sorted(set(map(ek, mo["exports"])) - set(map(ek, ex["exports"])))[:4],
                               "implementation": sorted(set(map(ek, ex["exports"])) - set(map(ek, mo["exports"])))[:4], **inp})
            # Java members of the model exist in the generated Java (the generated classes have more: getters, equals, …)
            missing = [m for m in mo["members"] if member_key(m) not in cls_members.get(m["cls"], set())]
            if missing:
                breaks.append({"what": "Java members of the model are not in the generated Java", "declaration": j["name"],
                               "model": [(m["cls"],) + member_key(m) for m in missing[:4]], **inp})
            # natives: exactly those of the model
            mine = [c for c in classes if c["name"] == mo["java_class"] or c["name"].startswith(mo["java_class"] + "$") or c["name"].startswith(mo["java_class"] + "CppProxy")]
            real_n = sorted((c["name"], m["name"], m["desc"]) for c in mine for m in c["members"] if m["native"])
            model_n = sorted((m["cls"], m["name"], m["desc"]) for m in mo["members"] if m["native"])
            if j["_kind"] in ("Interface", "Function") and real_n != model_n:
                breaks.append({"what": "native methods differ", "declaration": j["name"], "model": model_n[:4], "implementation": real_n[:4], **inp})
        sup = model["support"]
        if sorted(map(lk, sup["lookups"])) != sorted(map(lk, res["jni_support"]["lookups"])) or \
                sorted(map(ek, sup["exports"])) != sorted(map(ek, res["jni_support"]["exports"])):
            breaks.append({"what": "support lookups/exports differ", "model": [sorted(map(lk, sup["lookups"]))[:3], sorted(map(ek, sup["exports"]))[:3]],
                           "implementation": [sorted(map(lk, res["jni_support"]["lookups"]))[:3], sorted(map(ek, res["jni_support"]["exports"]))[:3]], **inp})
    specs = ctx.driver.batch(sreqs)
    for (res, model, classes), s in zip(infos, specs):
        if "error" in s:
            raise common.Infra(f"driver error: {s['error']}")
        ctx.stat("programs")
        ctx.stat("stream_" + res["kind"] + ("_later_round" if res.get("round") else ""))
        if s["holds"]:
            continue
        inp = res.get("replay_input") or {"idl": res["text"], "config": res["cfg"]["generate"]}
        seen = set()
        for f in s["failed"]:
            subject = f["what"].split(" ")[0]
            cls = subject.split(".")[0] if not subject.startswith("Java_") else None
            dom = []
            if cls is not None:
                di = decl_of_class(cls, model["out"])
                if di is not None:
                    dom = model["out"][di]["dom"]
                elif "/NativeRunnable" in cls or "/NativeCompletion" in cls:
                    dom = model["support"]["dom"]
            else:
                # orphan export: attribute to the declaration whose prefix it carries
                for d in model["out"]:
                    if any(e["symbol"] == subject for e in d["exports"]):
                        dom = d["dom"]
                if not dom and ("NativeRunnable" in subject or "NativeCompletion" in subject):
                    dom = model["support"]["dom"]
            key = f["clause"] + (":" + "+".join(dom) if dom else "")
            if key in seen:
                continue
            seen.add(key)
            ctx.report(key, f"{f['clause']}: {f['what']}", {"input": inp, "failed": [x for x in s["failed"] if x["clause"] == f["clause"]][:6],
                                                            "java_side": "javap" if "javap" in res else "source-level extraction"})
    return breaks


def replay(ctx, body):
    inp = body["input"]
    rows = gen_api.builtin_rows()
    payload = {"history": inp["history"]} if "history" in inp else {"idl": inp["idl"], "config": {"generate": inp["config"]}}
    res = _worker(("corpus", ctx.seed, 0, str(ctx.tmp / "replay"), payload))
    before = len(ctx.violations)
    b = evaluate(ctx, rows, res)
    print(json.dumps({"correspondence_breaks": b[:3], "violations": ctx.violations[before:], "known": ctx.known_hits}, indent=1, default=str)[:4000])
    return len(ctx.violations) == before and not ctx.known_hits
