"""C17 — configuration sources are equivalent, merge key-wise, fail cleanly.

Tie: the Lean configuration model (`Sys/Config.lean`: `combine` = `api.combine_into`, `parseOption`/`foldOptions` = the
`-o` handling of `cli.py`, `envTree` = pydantic-settings' `pydjinni__a__b` nesting, `configure` = the exception decision
table of `API.configure`, `parseReady`/`generateOutcome` = target readiness) is run against the real code on

  A  random `-o` option lists (nesting, overwriting in both directions, `[a,b]` lists, malformed texts) through the real click
     command with a recording stand-in for the API: the options dict that reaches `API.configure`;
  B  configuration trees generated from the live JSON schema, each given as options dict, YAML/YML/JSON/TOML file, `-o`
     options, environment variables (lower/upper case), `.env` file and mixtures;
  C  base tree in a file x override subsets given as dict / `-o` / environment;
  D  the decision table: every file state x suffix x content class x options class;
  E  random structural / type corruptions of valid trees;
  F  every subset of generator sections x requested targets x declaration kinds x clean;
  G  edge texts: every free-text setting of the live schema (type string without pattern/format/enumeration, and lists of
     such) x every edge text (empty, blank, texts that read as number / boolean / null / JSON, texts containing the separators
     of the spellings, characters outside ASCII and outside the BMP) x every source spelling, the edge-valued leaves always
     travelling through the spelling under test;
  H  histories: request sequences on ONE `API` object (whose generator instances are shared by all contexts made from it): several
     contexts — complete, partial (a target key with the section of one of its generators missing), without `generate` section —
     parsed and asked to generate any number of times in any interleaving, contexts made anew in between; each context writes
     below its own output directories, so that what a `generate` wrote tells whose settings the generators worked with.

  I  malformed values x sources x combinations: every kind of malformed value the check knows (ill-typed, out of an enumeration, a key that
     does not exist, a text or a key that is not valid Unicode — lone surrogates, as the JSON / YAML decoders make them of escapes and
     `argv` / the environment of undecodable bytes — in a free text, a path, an item of a list, where an enumerator or a boolean is
     expected) as ONE assignment `key := bad value` of an otherwise valid tree, delivered through every source that can express it
     (options dict, `-o` through the real click command, YAML / YML / JSON / TOML file incl. lexical styles, environment variable, `.env`
     line) while the rest of the tree travels through another one; and in combination with a valid value for the same key in a second
     source: bad below good (the effective configuration is valid: accepted, equal to the valid tree) and good below bad (refused), for
     every pair of sources of different precedence (options / `-o` over file over environment over `.env`).

A file format is a language, not one serialiser's output: in B, C and G every tree is also written in other *lexical styles* of
each format (`cfgsys.STYLES`: JSON indented with spaces / tabs / not at all, compact or wide separators, non-ASCII and non-BMP
characters escaped or literal, every character escaped, key order, CRLF, padding; YAML block / flow / quoted / canonical / folded /
commented / with document markers / written as JSON text; TOML tables, dotted keys, inline tables, quoted keys, literal / escaped /
multi-line strings, comments). The harness itself checks with the format's decoder that each text decodes to exactly the tree.
A file is bytes: in B, C, G every such text is also written in other *encodings* (`ENCODINGS`: UTF-8 with signature, UTF-16 / UTF-32 little and
big endian with and without byte order mark, Latin-1); where the format's reference decoder applied to the bytes reads exactly the tree the
file is one more spelling of the tree (S1), and D holds every (format, encoding) of a valid document with the decoder's verdict as the class.

Observations: how the call ended (exception class), `model_dump()`, `generate.model_fields_set`, and the dict that reached
validation (recorded by a stand-in around `model_validate`). pydantic's verdict is the `validate` parameter of the model: the
tree the model hands to validation is validated by the real settings model in a clean environment and compared with what the
real pipeline produced.

Specification on the implementation's observations: (S1) all spellings of one tree give the same `model_dump()`; (S2) the
dict that reaches validation is the key-wise override (`mergeSpec`, Lean op `c17.spec`); (S3) every call ends normally or
with the documented diagnostic (141 / 2 / 120) — never another exception class — and corrupted or insufficient
configurations are refused; (S4) in a history every request is answered as if it were the only one: an insufficient configuration
is refused *every* time, the refusal names a key that is indeed missing (`generate`, or `generate.<generator>` without a section),
and a `generate` that runs writes below the requesting context's output directories only; (S5) the verdict follows the *effective*
configuration: a malformed value is refused with 141 by a diagnostic that names its key whichever source delivered it, unless a source of
higher precedence replaces it with a valid one — then the configuration is the valid tree's.
"""
from __future__ import annotations

import itertools
import json
import random
import re

import common
import cfgsys

LEAN_MODULE = "PydjinniModel.Props.C17"
_T = "Pydjinni.Sys."
THEOREMS = [_T + n for n in [
    "combine_lookup", "merge_override", "merge_keeps", "merge_wf", "combine_nil_right",
    "assign_wins", "assign_keeps", "foldOptions_append", "options_last_wins", "options_last_keeps", "foldOptions_refused_iff",
    "fold_leaves_eq", "parseOption_render", "envPath_render", "sources_equivalent", "configure_sources_equivalent",
    "envTreeWith_pinned", "env_source_verbatim", "envSafe_any_value", "optSafeVal_text",
    "ignoreEmpty_drops", "noneText_rewrites", "ignoreEmpty_breaks_equivalence",
    "explicit_over_env", "env_fills_in",
    "configure_fails_cleanly_partial", "configure_nonStringKey_counterexample", "configure_missing_first", "configure_ok_is_merge",
    "parse_unready_refused", "parse_without_generate_refused", "generate_unready_refused", "generate_unconfigured_refused",
    "generate_fails_cleanly_partial", "generate_glue_without_cpp_counterexample", "generate_typeless", "generate_typeless_unconfigured_refused",
    "history_free", "runReqs_length", "parse_refusal_names_missing", "parseStep_outcome", "generateStep_spec",
    "encodable_combine", "unencodable_override_stays", "assign_assign", "badKeys_nil_iff",
    "configure_checks_the_merge", "configure_unencodable_options_refused", "overridden_file_text_not_refused",
]]
LEVEL = "proof"
TRUSTED = [
    "pydantic / pydantic-settings validation, PyYAML / json / tomllib decoding: parameters of the model (`validate`, decoded document); "
    "the harness decodes with the same libraries and validates the model's merged tree with the real settings model",
]

KIND_OF_IDL = {k: v[1] for k, v in cfgsys.IDLS.items()}


# --------------------------------------------------------------------------------------------
# translator: live tables -> Lean obligations
# --------------------------------------------------------------------------------------------

def lean_str(s: str) -> str:
    return json.dumps(s, ensure_ascii=False)


def lean_list(xs) -> str:
    return "[" + ", ".join(xs) + "]"


def translate() -> str:
    import warnings
    warnings.filterwarnings("ignore")
    from pydjinni import API
    from pydjinni.config.config_model_builder import Settings
    api = API()
    targets = [(t.key, [g.key for g in t.generator_instances]) for t in api.generation_targets.values()]
    sections = list(cfgsys.schema()["properties"].keys())
    gen_props = list(cfgsys.section_props("generate").keys())
    keys = cfgsys.all_keys()
    mc = Settings.model_config
    readers = []
    for t in api.generation_targets.values():
        for g in t.generator_instances:
            if g.key == "cpp":
                continue
            tdir = g._generator_directory / "templates"
            if any(re.search(r"\.cpp\.", p.read_text(errors="replace")) for p in tdir.rglob("*") if p.is_file()):
                readers.append(g.key)
    props = cfgsys.section_props("generate")
    required = [(g, cfgsys.resolve(props[g]).get("required", [])) for _, gs in targets for g in gs]
    cases = cfgsys.schema()["$defs"]["Case"]["enum"]
    ident_defaults = []
    for _, gs in targets:
        for g in gs:
            ident = cfgsys.resolve(props[g]).get("properties", {}).get("identifier")
            if ident:
                for kind, v in (ident.get("default") or {}).items():
                    ident_defaults.append((g, kind, v if isinstance(v, str) else v.get("style")))
    src = f"""import PydjinniModel.Sys.Config
open Pydjinni.Sys
/-! generated by harness/props/c17.py from the live plug-in registry and settings schema -/
def liveTargets : List TargetDef := {lean_list(f'⟨{lean_str(k)}, {lean_list(lean_str(g) for g in gs)}⟩' for k, gs in targets)}
def liveSections : List String := {lean_list(lean_str(s) for s in sections)}
def liveGenerateProps : List String := {lean_list(lean_str(s) for s in gen_props)}
def liveKeys : List String := {lean_list(lean_str(s) for s in keys)}
def liveCppReaders : List String := {lean_list(lean_str(s) for s in readers)}
def liveEnvPrefix : String := {lean_str(mc.get('env_prefix') or '')}
def liveEnvDelimiter : String := {lean_str(mc.get('env_nested_delimiter') or '')}
def liveCaseSensitive : Bool := {'true' if mc.get('case_sensitive') else 'false'}
def liveExtraTop : String := {lean_str(str(mc.get('extra')))}
def liveRequired : List (String × List String) := {lean_list(f'({lean_str(g)}, {lean_list(lean_str(r) for r in rs)})' for g, rs in required)}
def liveCases : List String := {lean_list(lean_str(c) for c in cases)}
def liveEnvKnobs : EnvKnobs := ⟨{'true' if mc.get('env_ignore_empty') else 'false'}, {('some ' + lean_str(str(mc.get('env_parse_none_str')))) if mc.get('env_parse_none_str') is not None else 'none'}⟩
def liveEnvOtherKnobs : List (String × String) := {lean_list(f'({lean_str(k)}, {lean_str(str(mc.get(k)))})' for k in ('env_parse_enums', 'env_nested_max_split', 'nested_model_default_partial_update'))}
def liveEdgeTexts : List (String × Bool) := {lean_list(f'({lean_str(t)}, {"true" if cfgsys.opt_text(t) is not None else "false"})' for t in cfgsys.EDGE_TEXTS)}
def liveFreeTextKeys : List String := {lean_list(lean_str(k) for k in sorted({k for p in cfgsys.free_text_paths() for k in p if k != '[]'}))}
def liveIdentifierDefaults : List (String × String × String) := {lean_list(f'({lean_str(g)}, {lean_str(k)}, {lean_str(str(v))})' for g, k, v in ident_defaults)}

theorem targets_table : liveTargets = targetTable := by decide
theorem sections_table : liveSections = sections := by decide
theorem generator_sections : (liveTargets.flatMap (·.generators)).all (liveGenerateProps.contains ·) = true := by decide
theorem cpp_readers : liveCppReaders = cppReaders.map (·.1) := by decide
theorem env_prefix : liveEnvPrefix.toList = envPrefix := by decide
theorem env_delimiter : liveEnvDelimiter = "__" ∧ liveCaseSensitive = false := by decide
theorem top_level_extra_forbidden : liveExtraTop = "forbid" := by decide
/-- every generator section has a required output directory: an empty section is an insufficient configuration -/
theorem out_required : liveRequired.all (fun p => p.2.contains "out") = true := by decide
/-- the defaults of the identifier styles are members of the style enumeration -/
theorem identifier_defaults_valid : liveIdentifierDefaults.all (fun p => liveCases.contains p.2.2) = true := by decide
/-- the environment source of the live settings model drops or rewrites no variable because of its text (`envTreeWith_pinned`) -/
theorem env_values_verbatim : liveEnvKnobs = pinnedKnobs ∧ liveEnvOtherKnobs.all (fun p => p.2 == "None" || p.2 == "False") = true := by decide
/-- the harness writes an `-o` spelling for exactly the edge texts for which the model says there is one; there are free-text
settings, and the empty text is among the edge texts -/
theorem edge_texts_spellable : liveEdgeTexts.all (fun p => optSafeVal (.str p.1) == p.2) = true
    ∧ (liveEdgeTexts.map (·.1)).contains "" = true ∧ liveFreeTextKeys.isEmpty = false
    ∧ liveFreeTextKeys.all (fun k => envSafeKey k.toList) = true := by decide +kernel
/-- every key of the live settings schema satisfies the hypotheses of `sources_equivalent` on keys -/
theorem keys_spellable : liveKeys.all (fun k => envSafeKey k.toList && !k.toList.contains '.' && !k.toList.contains '=') = true := by decide +kernel
"""
    return src


OBLIGATIONS = ["targets_table", "sections_table", "generator_sections", "cpp_readers", "env_prefix", "env_delimiter",
               "top_level_extra_forbidden", "out_required", "identifier_defaults_valid", "keys_spellable", "env_values_verbatim", "edge_texts_spellable"]


# --------------------------------------------------------------------------------------------
# decoding a config file the way `configure` does (the decoders are assumed components)
# --------------------------------------------------------------------------------------------

def classify_file(spec: dict | None) -> dict:
    if spec is None:
        return {"state": "absent"}
    if spec.get("missing"):
        return {"state": "missing"}
    if spec.get("dir"):
        return {"state": "directory"}
    name = spec["name"]
    sfx = name.rsplit(".", 1)[1] if "." in name else ""
    suffix = sfx if sfx in ("yaml", "yml", "json", "toml") else "unknown"
    data = spec["bytes"].encode("latin-1") if "bytes" in spec else spec["text"].encode("utf-8")
    out = {"state": "present", "suffix": suffix}
    if suffix == "unknown":
        out["content"] = "syntaxError"   # never decoded
        return out
    import yaml
    import tomllib
    try:
        if suffix in ("yaml", "yml"):
            doc = yaml.safe_load(data)
        elif suffix == "json":
            doc = json.loads(data)
        else:
            doc = tomllib.loads(data.decode("utf-8"))
    except (yaml.MarkedYAMLError, json.JSONDecodeError, tomllib.TOMLDecodeError):
        out["content"] = "syntaxError"
        return out
    except (yaml.YAMLError, UnicodeDecodeError):
        out["content"] = "undecodable"
        return out
    if not isinstance(doc, dict):
        out["content"] = "nonMapping"
    elif any(not isinstance(k, str) for k in doc):
        out["content"] = "nonStringTopKey"
    else:
        out["content"] = "mapping"
        out["doc"] = doc
    return out


def model_request(case: dict) -> dict:
    req = {"op": "c17.configure", "file": classify_file(case.get("file"))}
    if case.get("cli_opts") is not None:
        req["cli_opts"] = case["cli_opts"]
    else:
        req["options"] = case.get("options") or {}
    req["env"] = cfgsys.decode_env(case.get("env"))
    req["dotenv"] = cfgsys.decode_env(case.get("dotenv_vars"))
    return req


def env_refused(case: dict) -> list:
    """variables that pydantic-settings' environment / `.env` source refuses while gathering (part of the validation verdict, a parameter)"""
    return cfgsys.undecodable_env(case.get("env")) + cfgsys.undecodable_env(case.get("dotenv_vars"))


def same_obs(a: dict, b: dict) -> bool:
    if a.get("kind") != b.get("kind"):
        return False
    if a["kind"] == "ok":
        return cfgsys.canon(a.get("dump")) == cfgsys.canon(b.get("dump")) and a.get("fields_set") == b.get("fields_set")
    if a["kind"] == "app":
        return a.get("code") == b.get("code")
    return True


def brief(o: dict) -> dict:
    return {k: v for k, v in o.items() if k in ("kind", "code", "cls", "site", "msg", "fields_set", "stage", "unprintable", "wrote")}


# --------------------------------------------------------------------------------------------
# generators of the parts
# --------------------------------------------------------------------------------------------

SEGS = ["a", "b", "c", "generate", "cpp", "out"]
ODD_SEGS = ["", "x_y", "a b", "é"]
VALUES = ["v", "1", "true", "", "x=y", "[a,b]", "[]", "[", "]", "[a]", "[a,,b]", " [a]", "[a] ", "a,b", "[[a],b]", "=", "v w", "é", "[a=b,c]"]


def gen_option_list(r: random.Random) -> list[str]:
    opts = []
    for _ in range(r.choice([1, 2, 2, 3, 4, 5])):
        depth = r.choice([1, 1, 2, 2, 3, 4])
        path = [r.choice(SEGS) if r.random() < 0.92 else r.choice(ODD_SEGS) for _ in range(depth)]
        s = ".".join(path) + "=" + r.choice(VALUES)
        x = r.random()
        if x < 0.05:
            s = ".".join(path)
        elif x < 0.07:
            s = ""
        opts.append(s)
    return opts


def option_args(opts):
    args = []
    for o in opts:
        args += ["-o", o]
    return args + ["--config", "None", "generate", "x.djinni", "cpp"]


FORMATS = [("yaml", cfgsys.to_yaml), ("yml", cfgsys.to_yaml), ("json", cfgsys.to_json), ("toml", cfgsys.to_toml)]


def file_of(tree: dict, fmt: str, name="c", style: str | None = None) -> dict:
    """the tree as a file of the format; `style`: one of the lexical styles of the format (`cfgsys.STYLES`) instead of the
    serialiser's default — the serialiser's default when the style cannot express this tree"""
    text = cfgsys.styled(tree, fmt, style) if style else None
    return {"name": f"{name}.{fmt}", "text": text if text is not None else dict(FORMATS)[fmt](tree)}


def styled_variants(tree: dict, picks) -> list:
    """(variant name, case) for (format, style) pairs: the same tree, written down differently"""
    out = []
    for fmt, style in picks:
        text = cfgsys.styled(tree, fmt, style)
        if text is not None:
            out.append((f"{fmt}~{style}", {"file": {"name": f"c.{fmt}", "text": text}, "positional_only": True}))
    return out


# the *encoding* dimension of a configuration file: a file is bytes, and each format defines which encodings its documents may be in
# (JSON: UTF-8 / UTF-16 / UTF-32, RFC 4627 detection + a UTF-8 signature is tolerated by `json.loads(bytes)`; YAML: UTF-8 / UTF-16 told apart
# by the byte order mark; TOML: UTF-8 only, no byte order mark). The expectation is never written down here: it is what the format's
# reference decoder makes of the *bytes* (`classify_file`).
ENCODINGS = {
    "utf-8-sig": lambda t: b"\xef\xbb\xbf" + t.encode("utf-8"),
    "utf-16-le-bom": lambda t: b"\xff\xfe" + t.encode("utf-16-le"),
    "utf-16-be-bom": lambda t: b"\xfe\xff" + t.encode("utf-16-be"),
    "utf-16-le": lambda t: t.encode("utf-16-le"),
    "utf-16-be": lambda t: t.encode("utf-16-be"),
    "utf-32-le-bom": lambda t: b"\xff\xfe\x00\x00" + t.encode("utf-32-le"),
    "utf-32-be-bom": lambda t: b"\x00\x00\xfe\xff" + t.encode("utf-32-be"),
    "utf-32-le": lambda t: t.encode("utf-32-le"),
    "utf-32-be": lambda t: t.encode("utf-32-be"),
    "latin-1": lambda t: t.encode("latin-1"),
}
ENCODING_PAIRS = [(fmt, enc) for enc in ENCODINGS for fmt in ("json", "yaml", "yml", "toml")]


def encoded_file(text: str, fmt: str, enc: str, name="c") -> dict | None:
    """the text of a configuration file in another encoding, as a file description; None when the encoding cannot express the text"""
    try:
        data = ENCODINGS[enc](text)
    except UnicodeError:
        return None
    return {"name": f"{name}.{fmt}", "bytes": data.decode("latin-1")}


def decodes_to(spec: dict, tree: dict) -> bool:
    """does the format's reference decoder, applied to the bytes of the file, give exactly `tree`?"""
    c = classify_file(spec)
    return c.get("content") == "mapping" and cfgsys.canon_typed(c["doc"]) == cfgsys.canon_typed(tree)


def encoded_variants(tree: dict, pairs, styles=()) -> list:
    """(variant name `format@encoding[~style]`, case) for (format, encoding) pairs: the same tree in a file that is not plain UTF-8 —
    only where the format's reference decoder reads exactly the tree from the bytes (then the file is one more spelling of the tree;
    the others are part of the decision table D)"""
    out = []
    style_of = {f: s for f, s in styles}
    for k, (fmt, enc) in enumerate(pairs):
        style = style_of.get("yaml" if fmt == "yml" else fmt) if k % 2 else None
        text = cfgsys.styled(tree, fmt, style) if style else None
        if text is None:
            style = None
            try:
                text = dict(FORMATS)[fmt](tree)
            except Exception:  # noqa  (e.g. TOML has no null)
                continue
        spec = encoded_file(text, fmt, enc)
        if spec is not None and decodes_to(spec, tree):
            out.append((f"{fmt}@{enc}" + (f"~{style}" if style else ""), {"file": spec, "positional_only": True}))
    return out


def rotate_encodings(k: int, n: int) -> list:
    return [list(ENCODING_PAIRS[(k * n + j) % len(ENCODING_PAIRS)]) for j in range(n)]


def pick_styles(r: random.Random, n: int) -> list:
    return [[fmt, st] for fmt in ("yaml", "json", "toml") for st in r.sample(sorted(cfgsys.STYLES[fmt]), min(n, len(cfgsys.STYLES[fmt])))]


def rotate_styles(k: int) -> list:
    return [[fmt, list(cfgsys.STYLES[fmt])[k % len(cfgsys.STYLES[fmt])]] for fmt in ("yaml", "json", "toml")]


def split_leaves(r: random.Random, tree: dict, p=0.5):
    ls = cfgsys.leaves(tree)
    a = [l for l in ls if r.random() < p]
    b = [l for l in ls if l not in a]
    return cfgsys.from_leaves(a), cfgsys.from_leaves(b)


def corruptions(r: random.Random, tree: dict) -> list[tuple[str, dict]]:
    """(kind, corrupted tree): each is invalid with respect to the documented schema by construction"""
    import copy
    out = []
    gens = [k for k, v in tree["generate"].items() if isinstance(v, dict)]
    g = r.choice(gens)

    def mod(f):
        t = copy.deepcopy(tree)
        f(t)
        return t
    out.append(("unknown-top-key", mod(lambda t: t.__setitem__("bogus", 1))))
    out.append(("unknown-nested-key", mod(lambda t: t["generate"][g].__setitem__("bogus_key", "x"))))
    out.append(("unknown-generate-key", mod(lambda t: t["generate"].__setitem__("bogus_gen", {"out": "x"}))))
    out.append(("scalar-for-section", mod(lambda t: t["generate"].__setitem__(g, "text"))))
    out.append(("list-for-section", mod(lambda t: t["generate"].__setitem__(g, ["a"]))))
    out.append(("null-for-section", mod(lambda t: t["generate"].__setitem__(g, None))))
    out.append(("missing-required", mod(lambda t: t["generate"][g].pop("out"))))
    out.append(("null-for-required", mod(lambda t: t["generate"][g].__setitem__("out", None))))
    out.append(("number-for-path", mod(lambda t: t["generate"][g].__setitem__("out", 5))))
    out.append(("list-for-path", mod(lambda t: t["generate"][g].__setitem__("out", ["a", "b"]))))
    out.append(("partial-out-paths", mod(lambda t: t["generate"][g].__setitem__("out", {"source": "s"}))) if g != "yaml" and g != "java"
               else ("dict-for-path", mod(lambda t: t["generate"][g].__setitem__("out", {"source": "s", "header": "h"}))))
    out.append(("bad-list-element", mod(lambda t: t["generate"].__setitem__("include_dirs", ["ok", ["nested"]]))))
    out.append(("bad-enum-in-list", mod(lambda t: t["generate"].__setitem__("default_deriving", ["eq", "nope"]))))
    out.append(("text-for-list", mod(lambda t: t["generate"].__setitem__("include_dirs", "single"))))
    out.append(("garbage-for-bool", mod(lambda t: t["generate"].__setitem__("support_lib_sources", "maybe"))))
    out.append(("dict-for-bool", mod(lambda t: t["generate"].__setitem__("support_lib_sources", {"a": True}))))
    if g in ("cpp", "java", "jni", "objc", "cppcli"):
        out.append(("bad-identifier-style", mod(lambda t: t["generate"][g].__setitem__("identifier", {"enum": "shouting"}))))
        out.append(("identifier-style-without-style", mod(lambda t: t["generate"][g].__setitem__("identifier", {"enum": {"prefix": "X"}}))))
        out.append(("unknown-identifier-kind", mod(lambda t: t["generate"][g].__setitem__("identifier", {"bogus_kind": "snake_case"}))))
    if g in ("jni",):
        out.append(("bad-namespace-pattern", mod(lambda t: t["generate"][g].__setitem__("namespace", "not a namespace"))))
    if g == "java":
        out.append(("bad-package-pattern", mod(lambda t: t["generate"][g].__setitem__("package", "Not.A.Package!"))))
    out.append(("scalar-for-generate", mod(lambda t: t.__setitem__("generate", "x"))))
    out.append(("list-document-section", mod(lambda t: t.__setitem__("generate", [1, 2]))))
    return out


UNKNOWN_KEY_KINDS = {"unknown-nested-key", "unknown-generate-key", "unknown-identifier-kind"}


# --------------------------------------------------------------------------------------------
# the check
# --------------------------------------------------------------------------------------------

class Plan:
    def __init__(self):
        self.jobs = []       # (kind, case)
        self.reqs = []       # driver requests
        self.items = []      # records with indices

    def job(self, kind, case):
        self.jobs.append((kind, case))
        return len(self.jobs) - 1

    def req(self, r):
        self.reqs.append(r)
        return len(self.reqs) - 1


def live_targets():
    import warnings
    warnings.filterwarnings("ignore")
    from pydjinni import API
    api = API()
    return {t.key: [g.key for g in t.generator_instances] for t in api.generation_targets.values()}


_LIVE = None


def live_targets_cached():
    global _LIVE
    if _LIVE is None:
        _LIVE = live_targets()
    return _LIVE


def build_plan(ctx) -> Plan:
    P = Plan()
    seed = ctx.seed

    # ---- corpus: witnesses of fixed defects and findings, always first --------------------------------------
    corpus = common.VERIF / "corpus" / "c17.json"
    if corpus.exists():
        for i, e in enumerate(json.loads(corpus.read_text())):
            add_entry(P, e, f"corpus/{i}")

    # ---- A: option lists ------------------------------------------------------------------------------------
    for i in range(ctx.n(700, 6000)):
        r = random.Random(f"{seed}/c17/A/{i}")
        opts = gen_option_list(r)
        add_entry(P, {"part": "A", "opts": opts}, f"A/{i}")

    # ---- B: spellings of one tree ---------------------------------------------------------------------------
    for i in range(ctx.n(110, 900)):
        r = random.Random(f"{seed}/c17/B/{i}")
        plain = i % 4 != 3
        tree = cfgsys.TreeGen(r, p_optional=r.choice([0.15, 0.35, 0.6]), plain=plain, p_edge=0.3).tree()
        add_entry(P, {"part": "B", "tree": tree, "plain": plain, "rseed": f"{seed}/c17/B/{i}/v",
                      "styles": pick_styles(random.Random(f"{seed}/c17/B/{i}/styles"), ctx.n(2, 5)),
                      "encodings": rotate_encodings(i + seed, ctx.n(4, 10))}, f"B/{i}")

    # ---- C: file + override subsets -------------------------------------------------------------------------
    for i in range(ctx.n(160, 1500)):
        r = random.Random(f"{seed}/c17/C/{i}")
        gen_keys = list(cfgsys.minimal_sections().keys())
        gens = [g for g in gen_keys if r.random() < 0.35] or [r.choice(gen_keys)]
        tg = cfgsys.TreeGen(r, p_optional=r.choice([0.3, 0.6]), plain=True, p_edge=0.3)
        base = {"generate": tg.generate_section(gens)}
        other = {"generate": tg.generate_section(gens + ([r.choice(gen_keys)] if r.random() < 0.3 else []))}
        over = cfgsys.from_leaves([l for l in cfgsys.leaves(other) if r.random() < r.choice([0.2, 0.5, 0.9])])
        fmt = r.choice(["yaml", "yml", "json", "toml"])
        rs = random.Random(f"{seed}/c17/C/{i}/style")
        add_entry(P, {"part": "C", "base": base, "over": over, "fmt": fmt,
                      "style": rs.choice(sorted(cfgsys.STYLES[fmt])) if rs.random() < 0.6 else None,
                      "enc": rs.choice(sorted(ENCODINGS)) if i % 3 == 0 else None}, f"C/{i}")

    # ---- D: decision table -----------------------------------------------------------------------------------
    valid = {"generate": {"cpp": {"out": "o"}}}
    contents = {
        "yaml": [("valid", {"text": cfgsys.to_yaml(valid)}), ("syntax", {"text": "a: [1"}), ("syntax-tag", {"text": "a: !!python/object:os.system {}"}),
                 ("control-char", {"text": "a: \x01"}), ("bad-bytes", {"bytes": "a: \xff"}), ("empty", {"text": ""}), ("scalar", {"text": "hello"}),
                 ("list", {"text": "- a\n- b"}), ("null-section", {"text": "generate:\n"}), ("int-key", {"text": "1: x"}), ("scalar-section", {"text": "generate: x"})],
        "json": [("valid", {"text": cfgsys.to_json(valid)}), ("syntax", {"text": "{"}), ("empty", {"text": ""}), ("bad-bytes", {"bytes": "\xff\xfe{"}),
                 ("bad-utf8", {"bytes": "{\"a\": \"\xff\"}"}), ("null", {"text": "null"}), ("scalar", {"text": "3"}), ("list", {"text": "[1]"})],
        "toml": [("valid", {"text": cfgsys.to_toml(valid)}), ("syntax", {"text": "a = "}), ("empty", {"text": ""}), ("bad-bytes", {"bytes": "a = \"\xff\""})],
        "txt": [("valid", {"text": cfgsys.to_yaml(valid)}), ("bad-bytes", {"bytes": "\xff"})],
        "YAML": [("valid", {"text": cfgsys.to_yaml(valid)})],
        "": [("valid", {"text": cfgsys.to_yaml(valid)})],
    }
    for sfx, to_text in (("yaml", cfgsys.to_yaml), ("json", cfgsys.to_json), ("toml", cfgsys.to_toml)):
        others = [("nonascii", {"generate": {"cpp": {"out": "o", "namespace": "n"}, "include_dirs": ["d\u00e9/\u00fc"]}}),
                  ("astral", {"generate": {"cpp": {"out": "o"}, "include_dirs": ["\U0001f4c1/\u20ac"]}})]
        for enc in ENCODINGS:   # the valid document in every encoding: accepted iff the format's decoder reads it from the bytes
            for dname, doc in [("valid", valid)] + others:
                try:
                    contents[sfx].append((f"{dname}@{enc}", {"bytes": ENCODINGS[enc](to_text(doc)).decode("latin-1")}))
                except UnicodeError:
                    pass
    options = [("none", None), ("empty", {}), ("valid", {"generate": {"yaml": {"out": "y"}}}), ("override", {"generate": {"cpp": {"out": "p"}}}),
               ("deeper", {"generate": {"cpp": {"out": {"source": "s", "header": "h"}}}}), ("unknown-top", {"bogus": 1})]
    files = [("absent", None)] + [(f"missing.{s}", {"name": f"nope.{s}", "missing": True}) for s in ("yaml", "json", "toml", "txt")] \
        + [("directory.yaml", {"name": "d.yaml", "dir": True}), ("directory.txt", {"name": "d.txt", "dir": True})]
    for sfx, cs in contents.items():
        for cname, c in cs:
            files.append((f"{sfx or 'nosuffix'}:{cname}", {"name": "c" + ("." + sfx if sfx else ""), **c}))
    for (fname, f), (oname, o) in itertools.product(files, options):
        add_entry(P, {"part": "D", "file": f, "options": o, "label": f"{fname}|{oname}"}, f"D/{fname}|{oname}")

    # ---- E: corruptions --------------------------------------------------------------------------------------
    for i in range(ctx.n(22, 200)):
        r = random.Random(f"{seed}/c17/E/{i}")
        tree = cfgsys.TreeGen(r, p_optional=0.3, plain=True).tree()
        for kind, bad in corruptions(r, tree):
            add_entry(P, {"part": "E", "corruption": kind, "tree": bad, "source": r.choice(["dict", "dict", "yaml", "json", "toml", "opts"])}, f"E/{i}/{kind}")

    # ---- G: edge texts in every free-text setting x every spelling --------------------------------------------
    K = len(cfgsys.EDGE_TEXTS)
    for ui, unit in enumerate(cfgsys.edge_units()):
        for t in range(K):
            r = random.Random(f"{seed}/c17/G/{ui}/{t}")
            tree, marked = cfgsys.edge_tree(r, unit, t)
            styles = rotate_styles(t + ui) if ctx.quick else [x for k in range(4) for x in rotate_styles(t + ui + 4 * k + k)]
            add_entry(P, {"part": "G", "tree": tree, "edge": [list(p) for p in marked], "styles": styles,
                          "encodings": rotate_encodings(t + ui * K + seed, ctx.n(2, 6))}, f"G/{'.'.join(unit[0])}/{t}")
        if not ctx.quick:   # one edge-valued setting at a time
            n_sites = len(cfgsys.edge_tree(random.Random(0), unit, 0)[1])
            for j in range(n_sites):
                for t in range(K):
                    r = random.Random(f"{seed}/c17/G1/{ui}/{j}/{t}")
                    tree, marked = cfgsys.edge_tree(r, unit, (t - j) % K, only=j)
                    add_entry(P, {"part": "G", "tree": tree, "edge": [list(p) for p in marked], "styles": rotate_styles(t + 3 * j + ui)},
                              f"G1/{'.'.join(unit[0])}/{j}/{t}")

    # ---- F: readiness lattice --------------------------------------------------------------------------------
    gen_keys = list(cfgsys.minimal_sections().keys())
    subsets = []
    if ctx.quick:
        for k in (0, 1, 2):
            subsets += [list(c) for c in itertools.combinations(gen_keys, k)]
        subsets += [["cpp", "java", "jni"], ["cpp", "objc", "objcpp"], ["java", "jni", "yaml"], ["cpp", "cppcli", "yaml"], gen_keys,
                    [g for g in gen_keys if g != "cpp"], [g for g in gen_keys if g not in ("jni", "objcpp")]]
        r = random.Random(f"{seed}/c17/F")
        for _ in range(14):
            subsets.append([g for g in gen_keys if r.random() < 0.5])
    else:
        for k in range(len(gen_keys) + 1):
            subsets += [list(c) for c in itertools.combinations(gen_keys, k)]
    idls = list(cfgsys.IDLS.keys())
    for j, sub in enumerate(subsets):
        for idl in (idls if not ctx.quick else [idls[j % len(idls)], idls[(j + 3) % len(idls)]]):
            add_entry(P, {"part": "F", "sections": sub, "idl": idl}, f"F/{','.join(sub)}/{idl}")
    add_entry(P, {"part": "F", "sections": None, "idl": "record"}, "F/no-generate/record")
    add_entry(P, {"part": "F", "sections": None, "idl": "empty"}, "F/no-generate/empty")

    # ---- I: malformed values x sources x combinations ----------------------------------------------------------
    for i in range(ctx.n(14, 120)):
        r = random.Random(f"{seed}/c17/I/{i}")
        tree = cfgsys.TreeGen(r, p_optional=r.choice([0.15, 0.4]), plain=True).tree()
        for j, a in enumerate(cfgsys.malformed_assignments(r, tree, rot=i + ctx.seed)):
            add_entry(P, {"part": "I", "tree": tree, "assignment": a, "rot": i + 3 * j + ctx.seed}, f"I/{i}/{a['kind']}@{a['named']}")

    # ---- H: histories on one API object ----------------------------------------------------------------------
    for label, h in gen_histories(ctx):
        add_entry(P, {"part": "H", **h}, label)
    return P


def gen_histories(ctx) -> list[tuple[str, dict]]:
    """request sequences on ONE `API` object: several contexts (complete, partial — a target key with one of its generators'
    sections missing —, without `generate` section), each asked to parse / generate any number of times in any interleaving,
    contexts made anew in between.
    Systematic: for every (target, missing generator) the same context asked repeatedly; a complete context of the same object
    before / between / after; the context made anew; two complete contexts with different outputs taking turns. Then random ones."""
    targets = live_targets_cached()
    gen_keys = list(cfgsys.minimal_sections().keys())
    idls = [k for k in cfgsys.IDLS if k != "empty"]
    out = []
    n = [0]

    def add(label, contexts, steps):
        out.append((f"H/{label}", {"contexts": contexts, "steps": steps, "idl": idls[n[0] % len(idls)]}))
        n[0] += 1
    partial = []
    for t, gs in targets.items():
        for g in gs:
            if g != t:
                partial.append((t, g, [x for x in gs if x != g]))
    for t, g, rest in partial:
        full = ["cpp"] + [x for x in targets[t] if x != "cpp"]
        for extra in ([], ["cpp"]):
            inc = extra + rest
            add(f"{t}-without-{g}/repeated", [inc], [["parse", 0]] * 3)
            add(f"{t}-without-{g}/anew", [inc], [["parse", 0], ["configure", 0], ["parse", 0], ["parse", 0]])
            add(f"{t}-without-{g}/after-complete", [full, inc],
                [["parse", 0], ["generate", 0, t, False], ["parse", 1], ["generate", 1, t, False], ["parse", 1], ["generate", 1, t, True], ["generate", 0, t, False]])
            add(f"{t}-without-{g}/before-complete", [inc, full],
                [["parse", 0], ["parse", 1], ["parse", 0], ["generate", 0, t, False], ["generate", 1, t, False], ["parse", 0]])
            add(f"{t}-without-{g}/between", [inc, full, inc],
                [["parse", 0], ["parse", 2], ["parse", 1], ["parse", 2], ["generate", 2, t, False], ["parse", 0], ["generate", 0, t, False], ["generate", 1, t, True]])
    for t in targets:
        a = sorted(set(["cpp"] + targets[t]), key=gen_keys.index)
        b = sorted(set(a + ["yaml"]), key=gen_keys.index)
        add(f"{t}/two-complete-take-turns", [a, b],
            [["parse", 0], ["parse", 1], ["generate", 0, t, False], ["generate", 1, t, False], ["generate", 0, t, True], ["generate", 1, "yaml", False],
             ["generate", 0, "yaml", False], ["generate", 0, "bogus", False], ["generate", 1, t, False]])
        add(f"{t}/same-context-repeated", [a], [["parse", 0], ["generate", 0, t, False], ["generate", 0, t, False], ["parse", 0], ["generate", 0, t, True],
                                                ["generate", 0, "yaml", False], ["generate", 0, "yaml", True]])
    add("no-generate/repeated", [None, ["cpp"]], [["parse", 0], ["parse", 0], ["parse", 1], ["parse", 0], ["generate", 1, "cpp", False], ["generate", 0, "cpp", False]])
    # random histories
    pool = [None, [], ["cpp"], ["yaml"], ["cpp", "yaml"], gen_keys] + [["cpp"] + rest for _, _, rest in partial] + [rest for _, _, rest in partial] \
        + [sorted(set(["cpp"] + gs), key=gen_keys.index) for gs in targets.values()] + [list(gs) for gs in targets.values() if len(gs) > 1]
    tnames = list(targets) + ["bogus", "jni"]
    for i in range(ctx.n(70, 900)):
        r = random.Random(f"{ctx.seed}/c17/H/{i}")
        k = r.choice([1, 2, 2, 3, 3, 4])
        contexts = [r.choice(pool) if r.random() < 0.8 else [g for g in gen_keys if r.random() < 0.5] for _ in range(k)]
        steps = []
        for _ in range(r.choice([3, 5, 7, 10])):
            c = r.randrange(k)
            x = r.random()
            if x < 0.45:
                steps.append(["parse", c])
            elif x < 0.53:
                steps.append(["configure", c])
            else:
                secs = contexts[c] or []
                own = [t for t in targets if t in secs]
                steps.append(["generate", c, r.choice(own) if own and r.random() < 0.7 else r.choice(tnames), r.random() < 0.3])
        out.append((f"H/random/{i}", {"contexts": contexts, "steps": steps, "idl": r.choice(idls + ["empty"])}))
    return out


def ready_options(sections):
    if sections is None:
        return {"build": {"conan": {}}}
    mins = cfgsys.minimal_sections()
    return {"generate": {"support_lib_sources": False, **{g: mins[g] for g in sections}}}


READY_TARGETS = ["cpp", "java", "objc", "cppcli", "yaml", "jni", "bogus"]


FILE_SOURCES = ["file:json", "file:yaml", "file:toml", "file:yml"]
ALL_SOURCES = ["dict", "opts", "file:json", "file:yaml", "file:yml", "file:toml", "env", "ENV", "dotenv"]


def rank(src: str) -> int:
    return cfgsys.SOURCE_RANK[src.split(":")[0].lower()]


def malformed_variants(tree: dict, a: dict, rot: int, sources=None, explicit: str = "dict") -> list:
    """(name, case, expectation) for one malformed assignment of a valid tree.
    `bad@S`: the assignment through source S, the rest of the tree through another source            -> refused
    `bad@L<good@H`: the bad value in L, a valid value for the same key in a source H of higher precedence -> accepted (= the valid tree)
    `good@L<bad@H`: the other way round                                                                -> refused
    A source that cannot express its part (a number has no `-o` / environment spelling, TOML has no null and no text that is not
    Unicode, a lone surrogate other than U+DC80..U+DCFF cannot be in the environment, …) is left out.
    `sources`: the sources in play (default: all); `explicit`: the explicit source the rest of the tree travels through when the part under
    test is in a file / the environment (`dict` for the API, `opts` for the command line)."""
    sources = list(sources or ALL_SOURCES)
    path, bad, good = a["path"], a["bad"], a["good"]
    rest = cfgsys.without_path(tree, path)
    bad_part = cfgsys.from_leaves([(tuple(path), bad)])
    textual = lambda src: src == "dict" or src.startswith("file:") or a["text"]
    out = []
    styles = lambda fmt: sorted(cfgsys.STYLES[fmt])

    def styled_src(src, k):
        """every third time a file is written in another lexical style of its format"""
        if src.startswith("file:") and k % 3 == 2:
            fmt = src[5:]
            return src + "~" + styles(fmt)[(k // 3) % len(styles(fmt))]
        return src
    for k, src in enumerate(sources):
        if not textual(src) or (rank(src) <= 1 and (len(path) < 2 or path[0] not in ("generate", "build", "package"))):
            continue
        carrier = explicit if src != "dict" and src != "opts" else FILE_SOURCES[(rot + k) % len(FILE_SOURCES)]
        case = cfgsys.source_case({styled_src(src, rot + k): bad_part, carrier: rest})
        if case is not None:
            out.append((f"bad@{src}", case, "refused"))
    if good == cfgsys.ABSENT:
        return out
    good_part = cfgsys.from_leaves([(tuple(path), good)])
    pairs = [(lo, hi) for lo in sources for hi in sources if rank(lo) < rank(hi)]
    # every pair of precedence levels, the concrete sources in rotation
    by_levels = {}
    for lo, hi in pairs:
        by_levels.setdefault((rank(lo), rank(hi)), []).append((lo, hi))
    chosen = [ps[(rot + n) % len(ps)] for n, ps in enumerate(by_levels.values())]
    for lo, hi in chosen:
        for which, lo_part, hi_part, expect in (("bad@{lo}<good@{hi}", bad_part, good_part, "accepted"), ("good@{lo}<bad@{hi}", good_part, bad_part, "refused")):
            bad_src = lo if expect == "accepted" else hi
            if not textual(bad_src) or (rank(lo) <= 1 and len(path) < 2):
                continue
            # the rest of the tree travels with the part that is in a file or a dictionary; otherwise through a third source
            parts = {lo: lo_part, hi: hi_part}
            home = next((x for x in (hi, lo) if x in ("dict", explicit) or x.startswith("file:")), None)
            if home is not None:
                parts[home] = cfgsys.from_leaves(cfgsys.leaves(rest) + cfgsys.leaves(parts[home]))
            elif rank(hi) == 3:
                parts["file:json"] = rest
            else:
                parts[explicit] = rest
            case = cfgsys.source_case(parts)
            if case is not None:
                out.append((which.format(lo=lo, hi=hi), case, expect))
    return out


def add_entry(P: Plan, e: dict, label: str):
    """expand one entry (a generated case or a corpus/replay entry) into real runs and model requests"""
    part = e["part"]
    it = {"part": part, "entry": e, "label": label, "variants": []}
    if part == "A":
        opts = e["opts"]
        it["full"] = P.job("cliopts", {"args": option_args(opts)})
        it["prefix"] = P.job("cliopts", {"args": option_args(opts[:-1])})
        it["req"] = P.req({"op": "c17.options", "opts": opts})
    elif part == "B":
        tree = e["tree"]
        r = random.Random(e["rseed"])
        vs = [("dict", {"options": tree})]
        for fmt, _ in FORMATS:
            vs.append((fmt, {"file": file_of(tree, fmt), "positional_only": True}))
        vs += styled_variants(tree, e.get("styles") or [])
        vs += encoded_variants(tree, e.get("encodings") or [], e.get("styles") or [])
        if e["plain"] and not cfgsys.has_empty_dict(tree):
            opts = cfgsys.to_opts(tree)
            if opts is not None:
                vs.append(("opts", {"cli_opts": opts}))
                a, b = split_leaves(r, tree)
                bo = cfgsys.to_opts(b)
                if a and bo:
                    vs.append(("file+opts", {"file": file_of(a, r.choice(["yaml", "json", "toml"])), "cli_opts": bo}))
            a, b = split_leaves(r, tree, p=r.choice([0.3, 0.7]))
            env = cfgsys.to_env(a)
            if env is not None and a:
                if b:
                    vs.append(("env+dict", {"options": b, "env": env}))
                    vs.append(("ENV+file", {"file": file_of(b, "yaml"), "env": cfgsys.to_env(a, upper=True), "positional_only": True}))
                    de = cfgsys.to_dotenv(a)
                    if de is not None:
                        vs.append(("dotenv+dict", {"options": b, "dotenv": de, "dotenv_vars": env}))
                    a1, a2 = split_leaves(r, a)
                    e1, e2 = cfgsys.to_env(a1), cfgsys.to_env(a2)
                    d2 = cfgsys.to_dotenv(a2)
                    if a1 and a2 and d2 is not None:
                        vs.append(("env+dotenv+dict", {"options": b, "env": e1, "dotenv": d2, "dotenv_vars": e2}))
            envall = cfgsys.to_env(tree)
            if envall is not None and r.random() < 0.25:
                vs.append(("env-only", {"env": envall}))
        for name, case in vs:
            it["variants"].append({"name": name, "case": case, "job": P.job("configure", case), "req": P.req(model_request(case))})
    elif part == "G":
        tree = e["tree"]
        edge = {tuple(p) for p in e["edge"]}
        ls = cfgsys.leaves(tree)

        def split(pred):
            """(leaves that travel through the spelling under test, the rest): the edge-valued leaves the spelling can express;
            never everything, because `configure` wants a file or options"""
            a = [l for l in ls if l[0] in edge and pred(l)]
            b = [l for l in ls if l not in a]
            if not b and a:
                b = [a.pop()]
            return cfgsys.from_leaves(a), cfgsys.from_leaves(b)
        vs = [("dict", {"options": tree})]
        for fmt, _ in FORMATS:
            vs.append((fmt, {"file": file_of(tree, fmt), "positional_only": True}))
        vs += styled_variants(tree, e.get("styles") or [])
        vs += encoded_variants(tree, e.get("encodings") or [], e.get("styles") or [])
        a, b = split(lambda l: cfgsys.opt_text(l[1]) is not None)
        if a:
            vs.append(("file+opts", {"file": file_of(b, "json"), "cli_opts": cfgsys.to_opts(a)}))
        a, b = split(lambda l: cfgsys.env_text(l[1]) is not None and len(l[0]) >= 2)
        if a:
            vs.append(("env+dict", {"options": b, "env": cfgsys.to_env(a)}))
            vs.append(("ENV+file", {"file": file_of(b, "toml"), "env": cfgsys.to_env(a, upper=True), "positional_only": True}))
        a, b = split(lambda l: len(l[0]) >= 2 and cfgsys.dotenv_ok(l[1]))
        if a:
            vs.append(("dotenv+dict", {"options": b, "dotenv": cfgsys.to_dotenv(a), "dotenv_vars": cfgsys.to_env(a)}))
            la = cfgsys.leaves(a)
            a1, a2 = cfgsys.from_leaves(la[0::2]), cfgsys.from_leaves(la[1::2])
            if a1 and a2:
                vs.append(("env+dotenv+dict", {"options": b, "env": cfgsys.to_env(a1), "dotenv": cfgsys.to_dotenv(a2), "dotenv_vars": cfgsys.to_env(a2)}))
        for name, case in vs:
            it["variants"].append({"name": name, "case": case, "job": P.job("configure", case), "req": P.req(model_request(case))})
    elif part == "C":
        base, over, fmt = e["base"], e["over"], e["fmt"]
        f = file_of(base, fmt, style=e.get("style"))
        if e.get("enc"):   # the file in another encoding, where the format's decoder reads the same tree from the bytes
            fe = encoded_file(f["text"], fmt, e["enc"])
            if fe is not None and decodes_to(fe, base):
                f = fe
        vs = [("file+dict", {"file": f, "options": over})]
        oo = cfgsys.to_opts(over)
        if oo is not None and not cfgsys.has_empty_dict(over) and over:
            vs.append(("file+opts", {"file": f, "cli_opts": oo}))
        env = cfgsys.to_env(over)
        if env is not None and over:
            vs.append(("file+env", {"file": f, "env": env, "positional_only": True}))
            vs.append(("dict+env", {"options": base, "env": env}))
        for name, case in vs:
            it["variants"].append({"name": name, "case": case, "job": P.job("configure", case), "req": P.req(model_request(case))})
    elif part == "D":
        case = {"file": e["file"], "options": e["options"]}
        if e["options"] is None:
            case = {"file": e["file"], "positional_only": e["file"] is not None}
        it["variants"].append({"name": e.get("label", "d"), "case": case, "job": P.job("configure", case), "req": P.req(model_request(case))})
    elif part == "E":
        tree, src = e["tree"], e["source"]
        if src == "opts":
            opts = cfgsys.to_opts(tree) if not cfgsys.has_empty_dict(tree) and e["corruption"] != "number-for-path" else None
            case = {"cli_opts": opts} if opts is not None else {"options": tree}
        elif src in ("yaml", "json", "toml"):
            try:
                case = {"file": file_of(tree, src), "positional_only": True}
            except Exception:
                case = {"options": tree}   # e.g. TOML has no null
        else:
            case = {"options": tree}
        it["variants"].append({"name": src, "case": case, "job": P.job("configure", case), "req": P.req(model_request(case))})
    elif part == "I":
        for name, case, expect in malformed_variants(e["tree"], e["assignment"], e.get("rot", 0)):
            it["variants"].append({"name": name, "case": case, "expect": expect, "job": P.job("configure", case), "req": P.req(model_request(case))})
        ref = cfgsys.set_path(e["tree"], e["assignment"]["path"], e["assignment"]["good"]) if e["assignment"]["good"] != cfgsys.ABSENT else e["tree"]
        it["ref"] = P.job("configure", {"options": ref})
    elif part == "F":
        case = {"options": ready_options(e["sections"]), "idl": e["idl"], "targets": READY_TARGETS}
        it["job"] = P.job("ready", case)
        it["req"] = P.req({"op": "c17.ready", "set": (["support_lib_sources"] + e["sections"]) if e["sections"] is not None else None,
                           "kinds": KIND_OF_IDL[e["idl"]], "targets": READY_TARGETS})
    elif part == "H":
        it["job"] = P.job("history", {"contexts": e["contexts"], "steps": e["steps"], "idl": e["idl"]})
        it["req"] = P.req({"op": "c17.history", "contexts": [(["support_lib_sources"] + c) if c is not None else None for c in e["contexts"]],
                           "kinds": KIND_OF_IDL[e["idl"]], "steps": [st[:3] for st in e["steps"]]})
    else:
        raise ValueError(part)
    P.items.append(it)


def run(ctx):
    ctx.coverage["rule"] = ("A: distinct option lists; B: distinct (tree, spelling); C: distinct (base, override, spelling); D: every (file state, options class); "
                            "E: distinct (tree, corruption, source); F: distinct (generator subset, declaration kinds) x 7 target names x clean; "
                            "G: distinct (unit tree with an edge text in every free-text setting, spelling), all rotations = every (free-text setting, edge text) pair; "
                            "I: distinct (tree, malformed assignment, delivery: bad@source | bad@low<good@high | good@low<bad@high); "
                            "B, C, G: a spelling includes the lexical style of the file (`format~style`); H: distinct (contexts, request sequence, IDL), one evaluation per request; "
                            "non-trivial = more than one option / more than the required keys / a non-empty override / a non-default file state / >= 1 generator section")
    ctx.assumptions += [
        "pydantic validation and the YAML/JSON/TOML decoders are parameters of the model; the harness uses the same libraries as oracle",
        "an empty list and a text that is itself bracketed have no `-o` spelling; an empty dict has no `-o`/environment spelling (hypotheses of sources_equivalent)",
        "environment variables are only compared for names below the sections generate/build/package (others are ignored by pydantic-settings)",
        "`.env` lines are written single-quoted: texts with a quote, a line break, a backslash or `${` are not given through the `.env` file",
        "lexical styles: only texts that the format's own decoder (PyYAML safe_load / json / tomllib) reads back as exactly the tree are used",
        "malformed values x sources: a value travels through a source only if the source delivers it as it is (a number / null / nested list has no `-o`, "
        "environment or `.env` spelling; TOML has no null and no text that is not Unicode; only U+DC80..U+DCFF can be in the environment; `.env` files are UTF-8 text); "
        "variables outside the sections generate/build/package are ignored by pydantic-settings and not used; a lone surrogate U+D800+i is U+E000+i on the model's side",
        "histories: contexts are made from options dicts; which context's settings the generators worked with is read off the output directories written",
    ]
    cfgsys.register("cliopts", lambda base, case: cfgsys.cli_options(case["args"]))

    # translator obligations
    ok, out = common.lean_check_file(translate(), "C17_tables")
    for name in OBLIGATIONS:
        bad = (not ok) and (name in out or "error" in out)
        ctx.obligation(name, ok or not bad, kind="generated", detail="" if ok else out)

    import time
    t0 = time.time()
    P = build_plan(ctx)
    ctx.stats["t_plan"] = round(time.time() - t0, 1)
    results = cfgsys.run_pool(ctx.tmp, P.jobs)
    ctx.stats["t_real"] = round(time.time() - t0, 1)
    for r_, (k_, c_) in zip(results, P.jobs):
        if r_.get("kind") == "harness-error":
            raise RuntimeError(f"harness error in {k_}: {r_}")
    answers = cfgsys.pua2sur(ctx.driver.batch(cfgsys.sur2pua(P.reqs)))
    for a, q in zip(answers, P.reqs):
        if "error" in a:
            raise RuntimeError(f"driver error {a} for {json.dumps(q)[:300]}")

    # oracle: pydantic's verdict on the tree the model hands to validation
    oracle_idx = {}
    ojobs = []
    for it in P.items:
        for v in it["variants"]:
            m = answers[v["req"]]
            if m["kind"] == "ok":
                key = cfgsys.canon(m["value"])
                if key not in oracle_idx:
                    oracle_idx[key] = len(ojobs)
                    ojobs.append(("validate", {"tree": m["value"]}))
    ctx.stats["t_model"] = round(time.time() - t0, 1)
    oracle = cfgsys.run_pool(ctx.tmp, ojobs)
    ctx.stats["t_oracle"] = round(time.time() - t0, 1)
    targets = live_targets()
    breaks = []
    spec = SpecCalls(ctx.driver)
    orc = lambda tree: oracle[oracle_idx[cfgsys.canon(tree)]]
    for it in P.items:
        evaluate(_Null(), it, results, answers, orc, targets, [], spec)
    spec.flush()
    for it in P.items:
        evaluate(ctx, it, results, answers, orc, targets, breaks, spec)
    ctx.stats["t_eval"] = round(time.time() - t0, 1)
    ctx.stats["correspondence_breaks"] = len(breaks)
    if breaks and not ctx.violations:
        ctx.report("correspondence", "configuration model and implementation disagree; the specification holds on every sampled input",
                   {"correspondence": breaks[0]["what"], "first": breaks[0], "count": len(breaks)}, no_failing_input=True)
    elif breaks:
        ctx.stats["correspondence_first"] = breaks[0]["what"]


def expected_from_model(m: dict, orc, env_refused=()) -> dict:
    """model outcome + validation oracle -> the observation the model predicts"""
    if m["kind"] == "ok":
        if env_refused:
            return {"kind": "app", "code": 141}
        o = orc(m["value"])
        if o["kind"] == "ok":
            return {"kind": "ok", "dump": o["dump"], "fields_set": o["fields_set"]}
        if o["kind"] == "invalid":
            return {"kind": "app", "code": 141}
        return o
    if m["kind"] == "app":
        return {"kind": "app", "code": m["code"]}
    return {"kind": "crash"}


class SpecCalls:
    """specification ops are evaluated in one driver batch: a first dry pass over all items collects the requests"""

    def __init__(self, driver):
        self.driver, self.pending, self.cache = driver, [], {}

    def ask(self, req):
        k = cfgsys.canon(req)
        if k not in self.cache:
            self.pending.append(req)
            self.cache[k] = None
        return self.cache[k]

    def flush(self):
        for req, a in zip(self.pending, cfgsys.pua2sur(self.driver.batch(cfgsys.sur2pua(self.pending)))):
            self.cache[cfgsys.canon(req)] = a
        self.pending = []


class _Null:
    def __getattr__(self, name):
        return lambda *a, **k: None


def evaluate(ctx, it, results, answers, orc, targets, breaks, spec):
    part, e = it["part"], it["entry"]
    rep = {"entry": e}

    def fail(key, what, extra=None):
        ctx.report(key, what, {**rep, **(extra or {})})

    if part == "A":
        full, pre, m = results[it["full"]], results[it["prefix"]], answers[it["req"]]
        opts = e["opts"]
        ctx.count(key="A:" + json.dumps(opts), nontrivial=len(opts) > 1, sample={"opts": opts, "impl": brief(full)})
        ctx.stat("A_" + full["kind"])
        # correspondence
        if full["kind"] == "captured":
            same = m["kind"] == "ok" and cfgsys.canon(m["value"]) == cfgsys.canon(full["options"])
        elif full["kind"] == "app":
            same = m["kind"] == "app" and m["code"] == full["code"]
        else:
            same = False
        if not same:
            breaks.append({"what": "c17.options vs options dict built by the command line", "opts": opts, "model": m, "impl": full})
        # specification
        noeq = any("=" not in o for o in opts)
        if full["kind"] == "crash":
            fail("options:no-equals-crash" if noeq else "options:dict-over-scalar-crash",
                 f"`-o` handling ended in {full['cls']} ({full['msg']}) instead of a configuration diagnostic", {"impl": full})
        elif noeq:
            if not (full["kind"] == "app" and full["code"] == 141):
                fail("options:malformed-accepted", "an `-o` option without '=' was not refused with the configuration diagnostic", {"impl": full})
        elif full["kind"] != "captured":
            fail("options:wellformed-refused", "well-formed `-o` options were refused", {"impl": full})
        elif pre["kind"] == "captured":
            s = spec.ask({"op": "c17.spec.option", "prev": pre["options"], "opt": opts[-1], "m": full["options"]})
            if s is not None and not (s.get("parsed") and s.get("holds")):
                fail("options:override-law", "the last `-o` does not replace exactly the key it names (or siblings were lost)",
                     {"impl": full, "previous": pre, "spec": s})
        return

    if part == "F":
        res, m = results[it["job"]], answers[it["req"]]
        secs = e["sections"]
        kinds = KIND_OF_IDL[e["idl"]]
        ctx.count(key=f"F:{secs}:{e['idl']}", nontrivial=bool(secs), sample={"sections": secs, "idl": e["idl"], "parse": brief(res.get("parse", res.get("configure")))}, n=1 + len(res.get("generate", [])))
        conf = res["configure"]
        if conf["kind"] != "ok":
            fail("readiness:configure-refused", "a configuration with valid generator sections was refused", {"impl": conf})
            return
        given = sorted(secs) if secs is not None else None
        if secs is not None and sorted(x for x in conf["fields_set"] if x != "support_lib_sources") != given:
            fail("readiness:fields-set", "generate.model_fields_set differs from the sections given", {"impl": conf})
        parse = res["parse"]
        ctx.stat("F_parse_" + parse["kind"])
        # correspondence: parse
        mp = m["parse"]
        if mp["kind"] != parse["kind"] or (mp["kind"] == "app" and mp["code"] != parse.get("code")):
            breaks.append({"what": "c17.ready (parse) vs ConfiguredContext.parse", "entry": e, "model": mp, "impl": parse})
        # specification: parse
        incomplete = secs is None or any(t in secs and any(g not in secs for g in gs) for t, gs in targets.items())
        if parse["kind"] == "crash":
            key = "readiness:no-generate-section-crash" if secs is None else ("readiness:missing-generator-section-crash" if incomplete else "readiness:parse-crash")
            fail(key, f"parse ended in {parse['cls']} ({parse['msg']}) instead of the configuration diagnostic", {"impl": parse})
            return
        if incomplete:
            if not (parse["kind"] == "app" and parse["code"] == 141):
                fail("readiness:incomplete-target-accepted", "a target whose generators are not all configured was accepted by parse", {"impl": parse})
            elif not names_missing_key(parse.get("msg"), secs):
                fail("readiness:refusal-names-no-missing-key", "the refusal of parse does not name a key that is missing from the configuration", {"impl": parse})
            return
        if parse["kind"] != "ok":
            fail("readiness:parse-refused", "parse refused a complete configuration", {"impl": parse})
            return
        for i, g in enumerate(res["generate"]):
            t = g["target"]
            mg = m["generate"][READY_TARGETS.index(t)]
            ctx.stat("F_generate_" + g["kind"])
            if mg["kind"] != g["kind"] or (mg["kind"] == "app" and mg["code"] != g.get("code")):
                breaks.append({"what": "c17.ready (generate) vs GenerateContext.generate", "entry": e, "target": t, "clean": g["clean"], "model": mg, "impl": g})
            # specification
            ready = t in targets and t in secs and all(x in secs for x in targets[t])
            if g["kind"] == "crash":
                if t not in targets:
                    key = "readiness:unknown-target-crash"
                elif not ready:
                    key = "readiness:clean-unconfigured-crash" if g["clean"] else "readiness:unconfigured-crash"
                elif "cpp" not in secs:
                    key = "readiness:glue-without-cpp"
                else:
                    key = "readiness:generate-crash"
                fail(key, f"generate('{t}', clean={g['clean']}) ended in {g['cls']} ({g['msg'][:120]}) instead of a diagnostic", {"impl": g, "target": t})
            elif t not in targets:
                if not (g["kind"] == "app" and g["code"] == 120):
                    fail("readiness:unknown-target-accepted", "an unknown target name was not refused as unknown target", {"impl": g, "target": t})
            elif not ready:
                if not (g["kind"] == "app" and g["code"] == 141):
                    fail("readiness:unconfigured-target-accepted", "a target that is not fully configured was not refused with the configuration diagnostic", {"impl": g, "target": t})
                elif not names_missing_key(g.get("msg"), secs):
                    fail("readiness:refusal-names-no-missing-key", "the refusal of generate does not name a key that is missing from the configuration", {"impl": g, "target": t})
            elif g["kind"] != "ok" and "cpp" in secs:
                fail("readiness:ready-target-refused", "a fully configured target was refused", {"impl": g, "target": t})
        return

    if part == "H":
        evaluate_history(ctx, it, results, answers, targets, breaks, fail)
        return

    # ---- B, C, D, E: configure variants ----------------------------------------------------------------------
    obs = []
    for v in it["variants"]:
        o, m = results[v["job"]], answers[v["req"]]
        obs.append(o)
        case = v["case"]
        ctx.stat(f"{part}_{o['kind']}")
        if part == "B":
            nt = len(cfgsys.leaves(e["tree"])) > 3
            key = ("B", cfgsys.canon(e["tree"]), v["name"])
        elif part == "G":
            nt = bool(e["edge"])
            key = ("G", cfgsys.canon(e["tree"]), v["name"])
        elif part == "C":
            nt = bool(e["over"])
            key = ("C", cfgsys.canon([e["base"], e["over"]]), v["name"])
        elif part == "D":
            nt = e["file"] is not None
            key = ("D", e["label"])
        elif part == "I":
            nt = True
            key = ("I", cfgsys.canon([e["tree"], e["assignment"]]), v["name"])
        else:
            nt = True
            key = ("E", cfgsys.canon(e["tree"]), e["corruption"], v["name"])
        ctx.count(key=json.dumps(key), nontrivial=nt, sample={"part": part, "variant": v["name"], "case": {k: (x if k != "file" else x and x.get("name")) for k, x in case.items()}, "impl": brief(o)})
        # correspondence 1: the dict that reaches validation
        if o.get("merged") is not None and m.get("explicit") is not None:
            if cfgsys.canon(o["merged"]) != cfgsys.canon(m["explicit"]):
                breaks.append({"what": "c17.configure (explicit merge) vs the dict handed to model_validate", "entry": e, "variant": v["name"], "model": m["explicit"], "impl": o["merged"]})
        # correspondence 2: outcome (through the validation oracle)
        exp = expected_from_model(m, orc, env_refused(case))
        if m.get("unencodable") and o["kind"] == "app" and same_obs(exp, o):
            # the key the refusal names: one of those the model's `require_encodable_text` can name
            named = cfgsys.named_keys_of(o.get("msg"))
            if not any(k in m["unencodable"] for k in named):
                breaks.append({"what": "c17.configure (badKeysKids) vs the key the refusal names", "entry": e, "variant": v["name"], "model": m["unencodable"], "impl": brief(o)})
        if not same_obs(exp, o):
            breaks.append({"what": "c17.configure + validation oracle vs API.configure", "entry": e, "variant": v["name"], "model": brief(exp), "impl": brief(o),
                           "model_tree": m.get("value")})
        # specification S3: clean failure
        if o.get("unprintable"):
            fail("config:diagnostic-cannot-be-rendered", f"the diagnostic configure raised cannot be rendered as a message ({o['unprintable']}: {o['msg'][:150]})",
                 {"variant": v["name"], "case": case, "impl": brief(o)})
        if o["kind"] == "crash":
            fail(crash_key(part, e, v, case, o), f"configure ended in {o['cls']} ({o['msg'][:150]}) instead of a configuration diagnostic",
                 {"variant": v["name"], "case": case, "impl": brief(o)})
        elif o["kind"] == "app" and o["code"] not in (141, 2):
            fail("config:undocumented-code", f"configure refused with code {o['code']}", {"variant": v["name"], "case": case, "impl": brief(o)})
        elif (case.get("file") or {}).get("missing") and not (o["kind"] == "app" and o["code"] == 2):
            fail("config:missing-file-not-reported", "a configuration file that does not exist is not reported as file-not-found (2)", {"variant": v["name"], "case": case, "impl": brief(o)})
        elif o["kind"] == "app" and o["code"] == 2 and not (case.get("file") or {}).get("missing"):
            fail("config:file-not-found-misreported", "file-not-found (2) reported although the file exists", {"variant": v["name"], "case": case, "impl": brief(o)})

    if part in ("B", "G"):
        ref = obs[0]
        if ref["kind"] != "ok":
            fail("sources:valid-tree-refused", "a tree generated from the schema was refused as options dict", {"impl": brief(ref)})
            return
        for v, o in zip(it["variants"][1:], obs[1:]):
            if o["kind"] == "crash":
                continue
            if v["name"] == "env-only":
                if o["kind"] != "ok":
                    fail("sources:env-only-refused", "settings supplied only as environment variables are refused", {"variant": v["name"], "case": v["case"], "impl": brief(o)})
                    continue
            if not same_obs(ref, o):
                diff = None
                if o["kind"] == "ok":
                    la, lb = dict(cfgsys.leaves(ref["dump"])), dict(cfgsys.leaves(o["dump"]))
                    diff = [(".".join(k), la.get(k), lb.get(k)) for k in sorted(set(la) | set(lb)) if la.get(k) != lb.get(k)][:5]
                spelling = v['name'].split('~')[0].lower()
                fail(f"sources:{re.sub('[^a-z+]', '', spelling.split('@')[0])}{'-encoded' if '@' in spelling else ''}-differs", f"the spelling '{v['name']}' yields a different effective configuration than the options dict",
                     {"variant": v["name"], "case": v["case"], "impl": brief(o), "differences": diff})
    elif part == "C":
        for v, o in zip(it["variants"], obs):
            if v["name"] in ("file+dict", "file+opts") and o.get("merged") is not None:
                over = e["over"] if v["name"] == "file+dict" else (o.get("options_used") or {})
                s = spec.ask({"op": "c17.spec", "o": over, "b": e["base"], "m": o["merged"]})
                if s is not None and not (s["holds"] and s["wf"]):
                    fail("merge:override-law", "the dict that reaches validation is not the key-wise override of the file by the options",
                         {"variant": v["name"], "merged": o["merged"], "override": over})
        # the same override given as dict and as -o must agree
        names = {v["name"]: o for v, o in zip(it["variants"], obs)}
        if "file+dict" in names and "file+opts" in names and names["file+dict"]["kind"] != "crash" and names["file+opts"]["kind"] != "crash":
            if not same_obs(names["file+dict"], names["file+opts"]):
                fail("sources:override-opts-differs", "the same override as options dict and as `-o` options yields different configurations",
                     {"dict": brief(names["file+dict"]), "opts": brief(names["file+opts"])})
    elif part == "I":
        evaluate_malformed(ctx, it, obs, results, fail)
    elif part == "E":
        o = obs[0]
        kind = e["corruption"]
        if o["kind"] == "ok":
            if kind in UNKNOWN_KEY_KINDS:
                fail("config:unknown-nested-key-accepted", "an unknown key below a section is accepted silently", {"corruption": kind, "impl": brief(o)})
            elif kind in ("bad-namespace-pattern", "bad-package-pattern"):
                fail("config:pattern-not-enforced", "a text that does not match the documented pattern of the key is accepted", {"corruption": kind, "impl": brief(o)})
            else:
                fail(f"config:{kind}-accepted", f"a configuration corrupted by '{kind}' was accepted", {"corruption": kind, "impl": brief(o)})
        elif o["kind"] == "app" and o["code"] != 141:
            fail("config:corruption-wrong-code", f"corruption '{kind}' refused with {o['code']}, not the configuration diagnostic", {"impl": brief(o)})


def evaluate_malformed(ctx, it, obs, results, fail):
    """(S5) the verdict follows the effective configuration, which is known by construction: the bad value is in it unless a source of
    higher precedence replaces it"""
    e = it["entry"]
    a = e["assignment"]
    kind = a["kind"]
    ref = results[it["ref"]]
    if ref["kind"] != "ok":
        fail("sources:valid-tree-refused", "a tree generated from the schema (with a valid value for the key under test) was refused as options dict", {"impl": brief(ref)})
        return
    for v, o in zip(it["variants"], obs):
        name, case = v["name"], v["case"]
        where = {"variant": name, "malformed": kind, "config_key": a["named"], "case": case, "impl": brief(o)}
        ctx.stat(f"I_{name.split('@')[0]}_{kind}_{o['kind']}")
        if o["kind"] == "crash":
            continue        # (reported above)
        if v["expect"] == "refused":
            if o["kind"] == "ok":
                if kind in UNKNOWN_KEY_KINDS:
                    fail("config:unknown-nested-key-accepted", "an unknown key below a section is accepted silently", where)
                elif kind.startswith("not-encodable"):
                    fail("config:not-encodable-text-accepted", f"a {'key' if kind.endswith('key') else 'text'} that is not valid Unicode ({ascii(a['path'][-1] if kind.endswith('key') else a['bad'])} "
                         f"at '{a['named']}') is accepted when it comes through {name}: it can neither be written to a generated file nor be used in a file name", where)
                else:
                    fail(f"config:{kind}-accepted", f"a configuration with the malformed value {a['bad']!r} at '{a['named']}' ({kind}) was accepted through {name}", where)
            elif not (o["kind"] == "app" and o["code"] == 141):
                fail("config:corruption-wrong-code", f"malformed value ({kind}) through {name} refused with {o.get('code')}, not the configuration diagnostic", where)
            elif not names_key(o.get("msg"), a["named"]):
                src = name.split("@")[-1]
                fail("config:diagnostic-names-no-key:environment" if (src.lower() in ("env", "dotenv") and env_refused(case)) else "config:diagnostic-does-not-name-key",
                     f"the diagnostic for the malformed value at '{a['named']}' ({kind}, through {name}) does not name that key", where)
        else:
            if o["kind"] != "ok":
                if env_refused(case):
                    fail("sources:overridden-env-value-refused", f"the environment holds a text for the list-typed key '{a['named']}' that is no JSON, and a source of higher "
                         f"precedence sets the key to a valid value ({name}): the configuration is refused all the same", where)
                else:
                    fail("sources:overridden-value-refused", f"the malformed value at '{a['named']}' ({kind}) is replaced by a valid one in a source of higher precedence ({name}): "
                         f"the effective configuration is valid, but it was refused", where)
            elif not same_obs(ref, o):
                la, lb = dict(cfgsys.leaves(ref["dump"])), dict(cfgsys.leaves(o["dump"]))
                diff = [(".".join(k), la.get(k), lb.get(k)) for k in sorted(set(la) | set(lb)) if la.get(k) != lb.get(k)][:5]
                fail("sources:override-differs", f"{name}: the effective configuration is not the valid tree's", {**where, "differences": diff})


def names_key(msg, named: str) -> bool:
    """does the diagnostic name the key (or a key below it: an item of the list, a branch of the union)?"""
    return any(k == named or k.startswith(named + ".") for k in cfgsys.named_keys_of(msg))


def named_keys(msg: str | None) -> list[str]:
    """the configuration paths below `generate` that a diagnostic names"""
    return re.findall(r"\bgenerate(?:\.\w+)*(?!\w)", msg or "")


def names_missing_key(msg, secs) -> bool:
    """does the diagnostic name a key that is indeed missing from the configuration (`generate` itself, or `generate.<k>` without a section)?"""
    for k in named_keys(msg):
        parts = k.split(".")
        if secs is None or (len(parts) >= 2 and parts[1] not in secs):
            return True
    return False


def evaluate_history(ctx, it, results, answers, targets, breaks, fail):
    e = it["entry"]
    res, m = results[it["job"]], answers[it["req"]]["answers"]
    contexts, steps = e["contexts"], e["steps"]
    ctx.count(key="H:" + json.dumps([contexts, steps, e["idl"]]), nontrivial=len(steps) > 1,
              sample={"contexts": contexts, "steps": steps, "idl": e["idl"], "impl": [brief(o) for o in res["steps"]][:4]}, n=len(steps))
    for i, conf in enumerate(res["configure"]):
        if conf["kind"] != "ok":
            fail("readiness:configure-refused", "a configuration with valid generator sections was refused", {"impl": conf, "context": i})
            return
    nonempty = bool(KIND_OF_IDL[e["idl"]])
    for i, (st, o, a) in enumerate(zip(steps, res["steps"], m)):
        op, c = st[0], st[1]
        secs = contexts[c]
        where = {"step": i, "request": st, "impl": brief(o), "before": steps[:i]}
        again = "" if st not in steps[:i] else " (asked before in this history)"
        ctx.stat(f"H_{op}_{o['kind']}")
        # ---- correspondence -------------------------------------------------------------------------------
        mo = a["outcome"]
        if op == "configure":
            same = o["kind"] == "ok" and mo is None
        elif mo is None:
            same = o["kind"] == "skipped"
        else:
            same = mo["kind"] == o["kind"] and (mo["kind"] != "app" or mo["code"] == o.get("code"))
            if same and a["named"] is not None and a["named"] not in named_keys(o.get("msg")):
                same = False
            if same and op == "generate" and o["kind"] == "ok" and (o["wrote"] != a["used"] if nonempty else not set(o["wrote"]) <= set(a["used"])):
                same = False
        if not same:
            breaks.append({"what": "c17.history (runReqs) vs the request sequence on one API object", "entry": e, "step": i, "model": a, "impl": brief(o),
                           "wrote": o.get("wrote")})
        # ---- specification (from the sections of the requesting context alone) ---------------------------------
        if op == "configure":
            if o["kind"] != "ok":
                fail("readiness:configure-refused", "making a context anew from the same valid settings was refused", where)
            continue
        incomplete = secs is None or any(t in secs and any(g not in secs for g in gs) for t, gs in targets.items())
        if op == "parse":
            if o["kind"] == "crash":
                key = "readiness:no-generate-section-crash" if secs is None else ("readiness:missing-generator-section-crash" if incomplete else "readiness:parse-crash")
                fail(key, f"parse ended in {o['cls']} ({o['msg'][:120]}) instead of the configuration diagnostic{again}", where)
            elif incomplete:
                if not (o["kind"] == "app" and o["code"] == 141):
                    fail("readiness:incomplete-target-accepted", f"a target whose generators are not all configured was accepted by parse{again}", where)
                elif not names_missing_key(o.get("msg"), secs):
                    fail("readiness:refusal-names-no-missing-key", f"the refusal of parse does not name a key that is missing from the configuration{again}", where)
            elif o["kind"] != "ok":
                fail("readiness:parse-refused", f"parse refused a complete configuration{again}", where)
            continue
        if o["kind"] == "skipped":
            continue
        t = st[2]
        ready = secs is not None and t in targets and t in secs and all(x in secs for x in targets[t])
        if o["kind"] == "crash":
            if t not in targets:
                key = "readiness:unknown-target-crash"
            elif not ready:
                key = "readiness:clean-unconfigured-crash" if st[3] else "readiness:unconfigured-crash"
            elif "cpp" not in secs:
                key = "readiness:glue-without-cpp"
            else:
                key = "readiness:generate-crash"
            fail(key, f"generate('{t}', clean={st[3]}) ended in {o['cls']} ({o['msg'][:120]}) instead of a diagnostic{again}", {**where, "target": t})
        elif t not in targets:
            if not (o["kind"] == "app" and o["code"] == 120):
                fail("readiness:unknown-target-accepted", "an unknown target name was not refused as unknown target", {**where, "target": t})
        elif not ready:
            if not (o["kind"] == "app" and o["code"] == 141):
                fail("readiness:unconfigured-target-accepted", f"a target that is not fully configured was not refused with the configuration diagnostic{again}", {**where, "target": t})
            elif not names_missing_key(o.get("msg"), secs):
                fail("readiness:refusal-names-no-missing-key", f"the refusal of generate does not name a key that is missing from the configuration{again}", {**where, "target": t})
        elif o["kind"] != "ok":
            if "cpp" in secs:
                fail("readiness:ready-target-refused", f"a fully configured target was refused{again}", {**where, "target": t})
        elif [x for x in o["wrote"] if x != c]:
            fail("history:generated-with-another-contexts-settings", f"generate('{t}') of context {c} wrote below the output directories of context(s) "
                 f"{[x for x in o['wrote'] if x != c]}: the generators worked with another context's settings", {**where, "target": t, "wrote": o["wrote"]})
        elif nonempty and o["wrote"] != [c]:
            fail("history:nothing-generated", f"generate('{t}') of context {c} ended normally but wrote nothing below its output directories", {**where, "target": t})


def crash_key(part, e, v, case, o) -> str:
    f = cfgsys_file_class(case)
    if o.get("site", "").startswith("exceptions.py"):
        return "config:error-path-crash"
    if o["cls"] in ("IsADirectoryError",):
        return "config:directory-crash"
    if f in ("undecodable",):
        return "config:undecodable-file-crash"
    if f == "nonMapping":
        return "config:non-mapping-document-crash"
    if f == "nonStringTopKey":
        return "config:non-string-key"
    if o.get("site", "").startswith("api.py:combine_into"):
        return "merge:dict-over-scalar-crash"
    if o.get("site", "").startswith("cli.py"):
        return "options:no-equals-crash" if any("=" not in x for x in case.get("cli_opts") or []) else "options:dict-over-scalar-crash"
    if part == "I":
        return "config:malformed-value-crash"
    return f"config:{part}-crash"


def cfgsys_file_class(case) -> str:
    c = classify_file(case.get("file"))
    return c.get("content", c["state"])


# --------------------------------------------------------------------------------------------
# replay
# --------------------------------------------------------------------------------------------

def replay(ctx, body):
    """re-run one entry (real code + model + oracle) and re-evaluate the specification on it"""
    cfgsys.register("cliopts", lambda base, case: cfgsys.cli_options(case["args"]))
    P = Plan()
    add_entry(P, body["entry"], "replay")
    results = cfgsys.run_pool(ctx.tmp, P.jobs, workers=1)
    answers = cfgsys.pua2sur(ctx.driver.batch(cfgsys.sur2pua(P.reqs)))
    ojobs, idx = [], {}
    for it in P.items:
        for v in it["variants"]:
            m = answers[v["req"]]
            if m["kind"] == "ok":
                idx[cfgsys.canon(m["value"])] = len(ojobs)
                ojobs.append(("validate", {"tree": m["value"]}))
    oracle = cfgsys.run_pool(ctx.tmp, ojobs, workers=1)
    breaks = []
    before = len(ctx.violations) + sum(ctx.known_hits.values())
    spec = SpecCalls(ctx.driver)
    orc = lambda tree: oracle[idx[cfgsys.canon(tree)]]
    for it in P.items:
        evaluate(_Null(), it, results, answers, orc, live_targets(), [], spec)
    spec.flush()
    for it in P.items:
        evaluate(ctx, it, results, answers, orc, live_targets(), breaks, spec)
    print(json.dumps([brief(r) for r in results], indent=1)[:3000])
    after = len(ctx.violations) + sum(ctx.known_hits.values())
    return after == before
