"""C05 — documented semantic restrictions are enforced everywhere, and all are reported.

Tie: correspondence between the Lean front-end model (`c05.front`: visitor checks, registry,
deferred resolution, post-checks, nested parsers for imports) and the real
`ConfiguredContext.parse` on generated single- and multi-violation programs spread over
namespaces and imported files: outcome class and the multiset of (exception class, file, position).
Specification on the implementation's observation: `c05.spec` computes the rule-wise set of
violations of the whole program (declaratively, from the text) and the reported set must equal it.
"""
from __future__ import annotations

import json
import random
from pathlib import Path

import front

LEAN_MODULE = "PydjinniModel.Props.C05All"
THEOREMS = [
    "Pydjinni.Front.mem_checkFields_iff",
    "Pydjinni.Front.mem_checkParams_iff",
    "Pydjinni.Front.checkThrows_total",
    "Pydjinni.Front.mem_checkThrows_iff",
    "Pydjinni.Front.mem_checkSig_iff",
    "Pydjinni.Front.mem_checkSigs_iff",
    "Pydjinni.Front.checkUnits_total",
    "Pydjinni.Front.mem_checkUnits_iff",
    "Pydjinni.Front.accepted_iff",
    "Pydjinni.Front.mem_flagModDiags_iff",
    "Pydjinni.Front.mem_derivingDiags_iff",
    "Pydjinni.Front.mem_staticDiags_iff",
    "Pydjinni.Front.mem_targetDiags_iff",
    "Pydjinni.Front.refs_walkT_complete",
    "Pydjinni.Front.refs_walkF",
    "Pydjinni.Front.finishFile_spec",
    "Pydjinni.Front.violationsOrdered_single",
    "Pydjinni.Front.regUpTo_last",
    "Pydjinni.Front.walkDecl_eq_declRules",
    "Pydjinni.Front.walkDecl_perm_declRules",
    "Pydjinni.Front.registerAll_eq_progRegistry",
    "Pydjinni.Front.finishFile_eq_violations",
    "Pydjinni.Front.finishFile_eq_violations_of_fresh",
    "Pydjinni.Front.finishFile_perm_violations",
    "Pydjinni.Front.accepted_iff_no_violation",
    "Pydjinni.Front.front_eq_violationsOrdered",
    "Pydjinni.Front.front_accepts_iff",
    "Pydjinni.Front.front_mem_iff",
    "Pydjinni.Front.front_single_file",
    "Pydjinni.Front.front_bindings_lexical",
    "Pydjinni.Front.cleanCheck_sound",
    "Pydjinni.Front.front_of_progChecks",
]
LEVEL = "proof"


def gen_case(seed_key: str, p_bad: float, multi_file: bool):
    r = random.Random(seed_key)
    files = {}
    dd = r.choice([(), (), (), ("eq",), ("ord",)])
    if not multi_file:
        g = front.Gen(r, p_bad=p_bad, max_decls=r.choice([2, 4, 7]), dup_names=r.random() < 0.15)
        decls = g.program()
        R = front.Render(r, 'random' if r.random() < 0.5 else 'min')
        files["/w/m.djinni"] = R.join(R.program(decls))
        return files, "/w/m.djinni", dd, {"files": 1}
    if r.random() < 0.35:
        # diamond: main imports a and b, both import the shared file d (which may contain violations)
        texts, visible = {}, []
        lay = {"d": "/w/lib/d.djinni", "a": "/w/lib/a.djinni", "b": "/w/other/b.djinni", "m": "/w/m.djinni"}
        heads = {"d": "", "a": '@import "d.djinni"\n', "b": '@import "../lib/d.djinni"\n', "m": '@import "lib/a.djinni"\n@import "other/b.djinni"\n'}
        vis = {}
        for idx, k in enumerate(["d", "a", "b", "m"]):
            g = front.Gen(r, p_bad=p_bad, max_decls=r.choice([1, 2, 3]), dup_names=False)
            base = vis.get("d", []) if k in ("a", "b") else (vis.get("d", []) + vis.get("a", []) + vis.get("b", []) if k == "m" else [])
            decls = g.program_with_visible(base, prefix=f"{k}_")
            vis[k] = decls
            R = front.Render(r, 'random' if r.random() < 0.5 else 'min')
            texts[lay[k]] = heads[k] + R.join(R.program(decls))
        return texts, "/w/m.djinni", dd, {"files": 4}
    # chain / tree of imports: every file only refers to itself and to what it imports
    nfiles = r.choice([2, 2, 3])
    visible = []
    names = ["/w/m.djinni", "/w/lib/a.djinni", "/w/lib/sub/b.djinni"][:nfiles]
    texts = {}
    for idx in reversed(range(nfiles)):
        g = front.Gen(r, p_bad=p_bad, max_decls=r.choice([1, 2, 4]), dup_names=False)
        decls = g.program_with_visible(visible, prefix=f"f{idx}_")
        visible = visible + decls
        R = front.Render(r, 'random' if r.random() < 0.5 else 'min')
        body = R.join(R.program(decls))
        head = ""
        if idx + 1 < nfiles:
            lit = {1: r.choice(["lib/a.djinni", "./lib/a.djinni", "lib/../lib/a.djinni"]), 2: r.choice(["sub/b.djinni", "lib/sub/b.djinni"])}[idx + 1]
            head = f'@import "{lit}"\n'
        texts[names[idx]] = head + body
    return texts, "/w/m.djinni", dd, {"files": nfiles}


SHADOW_KINDS = {
    "enum": "{n} = enum {{ k; }}", "flags": "{n} = flags {{ k; }}", "record": "{n} = record {{ v: i32; }}",
    "interface": "{n} = interface {{ m(); }}", "error": "{n} = error {{ oops; }}", "function": "{n} = function (v: i32) -> bool;",
}
SHADOW_USES = [
    "u{i} = record {{ f: {t}; }}", "u{i} = record {{ f: list<{t}>; }}", "u{i} = record {{ f: {t}?; }}",
    "u{i} = interface {{ m(p: {t}); }}", "u{i} = interface {{ m() -> {t}; }}", "u{i} = interface {{ m() throws {t}; }}",
    "u{i} = interface {{ m(cb: (p: {t}) -> bool); }}", "u{i} = function (p: {t}) throws {t};",
    "u{i} = record {{ const c: {t} = 1; f: i32; }}",
]


def shadow_case(seed_key: str):
    """the same relative spelling, written in the same namespace, denotes different declarations in an imported file
    (which is finished before the importing file registers anything) and in the importing file, or at two sites of
    one file; the rules are evaluated on what each site denotes"""
    r = random.Random(seed_key)
    ns = r.choice([["app"], ["app", "model"], ["a", "b", "c"]])
    outer = r.choice([[], ns[:1]]) if len(ns) > 1 else []
    k1, k2 = r.sample(sorted(SHADOW_KINDS), 2)
    name = r.choice(["handle", "t", "item"])
    spell = r.choice([name, name, ns[-1] + "." + name]) if len(ns) > len(outer) + 1 or not outer else name
    uses = r.sample(SHADOW_USES, r.choice([2, 3, 4]))

    def block(path, body):
        return body if not path else f"namespace {'.'.join(path)} {{ {body} }}"
    mk = lambda tag: " ".join(u.format(i=f"{tag}{j}", t=spell) for j, u in enumerate(uses))
    lib_uses, main_uses, other_uses = mk("l"), mk("m"), mk("o")
    outer_decl = block(outer, SHADOW_KINDS[k1].format(n=name))
    inner_decl = SHADOW_KINDS[k2].format(n=name)
    shape = r.choice(["import-outer-first", "import-inner-first", "one-file"])
    if shape == "import-outer-first":
        files = {"/w/lib.djinni": outer_decl + "\n" + block(ns, lib_uses),
                 "/w/m.djinni": '@import "lib.djinni"\n' + block(ns, (inner_decl + " " + main_uses) if r.random() < 0.5 else (main_uses + " " + inner_decl))}
    elif shape == "import-inner-first":
        files = {"/w/lib.djinni": block(ns, inner_decl + " " + lib_uses),
                 "/w/m.djinni": '@import "lib.djinni"\n' + outer_decl + "\n" + block(ns[:-1] + ["other"], other_uses) + "\n" + block(ns, main_uses)}
    else:
        files = {"/w/m.djinni": outer_decl + "\n" + block(ns[:-1] + ["other"], lib_uses) + "\n" + block(ns, inner_decl + " " + main_uses)}
    return files, "/w/m.djinni", (), {"files": len(files), "shadow": shape}


def run(ctx):
    ctx.coverage["rule"] = ("generated programs with rule violations at random positions (member index, parameter/return/throws/generic "
                            "position, namespace depth, own/imported file); distinct = distinct multiset of rule tags reported by the model "
                            "together with the file count; non-trivial = at least one diagnostic")
    n = ctx.n(2400, 20000)
    cases, reqs, specreqs, todo = [], [], [], []
    for i in range(n):
        multi = (i % 3 == 2)
        files, root, dd, meta = gen_case(f"{ctx.seed}/c05/{i}", p_bad=[0.0, 0.15, 0.35][i % 3 if not multi else 1], multi_file=multi)
        todo.append({"files": files, "root": root, "default_deriving": dd, "meta": meta})
    for i in range(ctx.n(300, 3000)):
        files, root, dd, meta = shadow_case(f"{ctx.seed}/c05/shadow/{i}")
        todo.append({"files": files, "root": root, "default_deriving": dd, "meta": meta})
    for t, (impl, req) in zip(todo, front.run_many(ctx.tmp, todo)):
        cases.append((t["files"], t["root"], t["default_deriving"], t["meta"], impl))
        reqs.append(req)
        specreqs.append({**req, "op": "c05.spec", "impl": impl_obs(impl)})
    answers = ctx.driver.batch(reqs)
    specs = ctx.driver.batch(specreqs)
    # on how many of the inputs do the hypotheses of front_eq_violationsOrdered hold (decided by evaluation)?
    hyps = ctx.driver.batch([{**q, "op": "c11.hyp"} for q in reqs])
    ctx.stats["whole_program_theorem_applies"] = sum(1 for h in hyps if h.get("holds"))
    ctx.stats["whole_program_theorem_not_applicable"] = sum(1 for h in hyps if not h.get("holds"))
    ctx.obligation("front_eq_violationsOrdered applies (hypotheses evaluated)", ctx.stats["whole_program_theorem_applies"] > 0, "evaluation",
                   f"{ctx.stats['whole_program_theorem_applies']} of {len(hyps)} inputs (the others: duplicate names, externs, syntax errors, missing files)")
    breaks = []
    for (files, root, dd, meta, impl), m, s in zip(cases, answers, specs):
        mo = front.model_outcome(m)
        io = front.canon_outcome(impl)
        tags = tuple(sorted(d["rule"] for d in m.get("diags", []))) if m["kind"] == "diags" else (m["kind"],)
        ctx.count(key=(tags, meta["files"]), nontrivial=m["kind"] != "ok",
                  sample={"files": files, "model": m["kind"], "rules": list(tags)[:8]})
        ctx.stat("outcome_" + impl["kind"])
        for t in set(tags):
            ctx.stat("rule_" + str(t))
        if mo[0] == "syntax":
            # text outside the grammar: the model only predicts "positioned diagnostics" (C06)
            if impl["kind"] not in ("diags", "raised"):
                breaks.append({"files": files, "why": "model: syntax error; implementation: " + impl["kind"]})
            continue
        if mo != io:
            breaks.append({"files": files, "default_deriving": list(dd), "why": "outcome differs", "model": m, "impl": strip(impl)})
        if "error" in s:
            raise RuntimeError(f"driver error {s}")
        if not s["holds"]:
            ctx.report("rules:" + "+".join(sorted(set(s.get("rules", ["?"])))),
                       "reported diagnostics differ from the set of rule violations of the program",
                       {"input": {"files": files, "root": root, "default_deriving": list(dd)}, "spec": s, "impl": strip(impl)})
    ctx.stats["correspondence_breaks"] = len(breaks)
    if breaks and not ctx.violations:
        ctx.report("correspondence", "front-end model and implementation disagree; the rule specification holds on every sampled input",
                   {"correspondence": "c05.front vs ConfiguredContext.parse", "first": breaks[0], "count": len(breaks)}, no_failing_input=True)
    elif breaks:
        ctx.stats["correspondence_first"] = breaks[0]["why"]


def impl_obs(impl):
    o = {"kind": impl["kind"]}
    if impl["kind"] == "diags":
        o["diags"] = [{"cls": d["cls"], "file": d["file"], "p": d["p"]} for d in impl["diags"]]
    if impl["kind"] == "raised":
        o.update({"cls": impl["cls"], "file": impl["file"], "p": impl["p"]})
    return o


def strip(impl):
    return {k: v for k, v in impl.items() if k not in ("ast", "result")}


def replay(ctx, body):
    inp = body["input"]
    sb = front.Sandbox(ctx.tmp)
    impl, req = sb.run(inp["files"], inp["root"], default_deriving=tuple(inp.get("default_deriving", ())))
    s = ctx.driver.one({**req, "op": "c05.spec", "impl": impl_obs(impl)})
    print(json.dumps({"impl": strip(impl), "spec": s}, indent=1)[:4000])
    return bool(s.get("holds"))
