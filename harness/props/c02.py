"""C02 — generated C++/Java/ObjC/C# API declares exactly what the IDL declares; type mapping is compositional.

Ties (every run):
* translator: the built-in type tables of all generators are written to a generated Lean file whose
  obligations (`java.boxed` is the box of `java.typename`; cpp `by_value` iff arithmetic/bool; objc `pointer`
  iff class type; the parsed Java type prints back to the table entry; reference spelling = table spelling)
  are checked by `decide`;
* function level: the real marshalling properties/functions (`_type_specifier`, `compute_data_type`, `type_decl`,
  `typename`, `header`, `type_signature`, prefix/postfix specifiers, `convert` …) against the Lean model, string
  by string, over type expressions (exhaustive to nesting 3 in the thorough tier) under random configurations;
* file level: a skeleton of every generated C++/Java/ObjC/C++-CLI declaration (extracted by `ctok.py`) against
  the model's `apiSkel`; the skeleton of a Java record carries the modifier words of every field, that of an error code its
  fields with their modifier words, the constructor parameters and the accessors (name, type, modifiers) of the fields —
  error codes have 0-4 parameters of primitive, optional, collection, enum, flags and record types.
Specification on the implementation's observations: `printT (ref… t)` (the independently written reference
mapping) against every real type string, `fidelity` (op `c02.spec`) on every extracted skeleton, and the style
specification `convertSpec` (op `c02.convertSpec`: prefix, capital letters exactly at the starts of the `_`-separated
words for camelCase / PascalCase, every separator kept in place for the separator styles, letters preserved) on the real
`convert` over an identifier stream with every character-class boundary (digit→letter, letter→digit, lower→upper, `_`
runs, trailing `_`, one-letter and all-capitals words) and on every plainly converted name (type, field, method, item)
of every extracted declaration, whose programs draw their identifiers from the same classes.
"""
from __future__ import annotations

import json
import random
import time
from pathlib import Path

import common
import gen_api
import ctok

LEAN_MODULE = "PydjinniModel.Props.C02"
THEOREMS = [
    "Pydjinni.Gen.splitU_flatten",
    "Pydjinni.Gen.convert_preserves_letters",
    "Pydjinni.Gen.convert_style",
    "Pydjinni.Gen.convert_spec",
    "Pydjinni.Gen.cpp_typeSpec_homomorphic",
    "Pydjinni.Gen.cppCore_eq_ref",
    "Pydjinni.Gen.cppSpec_eq_ref",
    "Pydjinni.Gen.cpp_optional_interface",
    "Pydjinni.Gen.cpp_optional_function",
    "Pydjinni.Gen.cpp_not_null_wraps",
    "Pydjinni.Gen.cpp_param_constref_iff",
    "Pydjinni.Gen.java_typeSpec_homomorphic",
    "Pydjinni.Gen.java_optional_is_boxed",
    "Pydjinni.Gen.java_async_boxed",
    "Pydjinni.Gen.printT_plainJ",
    "Pydjinni.Gen.javaDataType_eq_ref_partial",
    "Pydjinni.Gen.cli_typeSpec_homomorphic",
    "Pydjinni.Gen.cli_nullable_iff",
    "Pydjinni.Gen.cliTypename_eq_ref",
    "Pydjinni.Gen.objc_typeSpec_homomorphic",
    "Pydjinni.Gen.objc_interface_parameter",
    "Pydjinni.Gen.objcTypeDecl_eq_ref",
    "Pydjinni.Gen.cpp_api_fidelity",
    "Pydjinni.Gen.cli_api_fidelity",
    "Pydjinni.Gen.objc_api_fidelity",
    "Pydjinni.Gen.java_api_fidelity_partial",
    "Pydjinni.Gen.cpp_api_members_in_order",
    "Pydjinni.Gen.cpp_api_methods_in_order",
]
LEVEL = "proof"
TRUSTED = (
    "C-family / Java tokenizer and skeleton extractors harness/ctok.py (strict: unknown token patterns inside a declaration are errors)",
    "Jinja2 rendering is not modelled: generated files are compared through extracted declaration skeletons",
)

TYPE_KEYS_ALL = ["cpp_field", "cpp_param", "cpp_ret", "cpp_typename", "cpp_header", "cpp_by_value",
                 "java_field", "java_boxed_field", "java_typename", "java_boxed",
                 "objc_field", "objc_param", "objc_boxed", "objc_typename", "objc_annotation", "objc_pointer",
                 "cli_typename", "cli_def_typename", "cli_reference"]
TYPE_KEYS_USER = ["objc_header", "objcpp_header", "cli_header"]
JNI_TYPE_KEYS = ["jni_sig", "jni_boxed_sig", "jni_typename", "jni_native"]
JNI_USER_KEYS = ["jni_desc", "jni_prefix", "jni_header"]
JNI_METHOD_KEYS = ["jni_sig", "jni_return_spec"]
# reference mapping (specification) : implementation attribute it must equal
REF_KEYS = {"ref_cpp_field": "cpp_field", "ref_cpp_param": "cpp_param", "ref_cpp_ret": "cpp_ret",
            "ref_java_field": "java_field", "ref_java_boxed_field": "java_boxed_field",
            "ref_objc_field": "objc_field", "ref_objc_param": "objc_param", "ref_objc_boxed": "objc_boxed",
            "ref_cli_typename": "cli_typename"}
METHOD_KEYS = ["cpp_type_spec", "cpp_prefix", "cpp_postfix", "cpp_callback", "java_return", "objc_return", "objc_completion", "cli_return"]
METHOD_REF = {"ref_java_return": "java_return", "ref_cli_return": "cli_return"}


# --------------------------------------------------------------------------------------------------------
# real attributes
# --------------------------------------------------------------------------------------------------------

def real_type_attrs(tr, cppm, javab, user: bool) -> dict:
    from pydjinni.generator.objc.objc.type import type_decl, annotation
    from pydjinni.generator.cppcli.cppcli.type import typename as cli_typename
    from pydjinni.generator.java.jni.type import get_typename
    td = tr.type_def
    a = {
        "cpp_field": cppm._type_specifier(tr), "cpp_param": cppm._type_specifier(tr, is_parameter=True, use_notnull=True),
        "cpp_ret": cppm._type_specifier(tr, use_notnull=True), "cpp_typename": td.cpp.typename,
        "cpp_header": str(td.cpp.header) if td.cpp.header else "", "cpp_by_value": bool(td.cpp.by_value),
        "java_field": javab.compute_data_type(tr), "java_boxed_field": javab.compute_data_type(tr, boxed=True),
        "java_typename": td.java.typename, "java_boxed": td.java.boxed,
        "jni_sig": td.jni.type_signature, "jni_boxed_sig": td.jni.boxed_type_signature, "jni_typename": str(get_typename(tr)),
        "jni_native": str(getattr(td.jni.typename, "value", td.jni.typename)),
        "objc_field": type_decl(tr), "objc_param": type_decl(tr, parameter=True), "objc_boxed": type_decl(tr, boxed=True),
        "objc_typename": td.objc.typename, "objc_annotation": annotation(tr), "objc_pointer": bool(td.objc.pointer),
        "cli_typename": cli_typename(tr), "cli_def_typename": td.cppcli.typename, "cli_reference": bool(td.cppcli.reference),
    }
    if user:
        a.update({"jni_desc": td.jni.class_descriptor, "jni_prefix": td.jni.jni_prefix, "jni_header": str(td.jni.header),
                  "objc_header": str(td.objc.header), "objcpp_header": str(td.objcpp.header), "cli_header": str(td.cppcli.header)})
    return a


def words(s: str) -> list[str]:
    return s.split()


def real_method_attrs(m) -> dict:
    return {
        "cpp_type_spec": m.cpp.type_spec, "cpp_prefix": words(m.cpp.prefix_specifiers()), "cpp_postfix": words(m.cpp.postfix_specifiers()),
        "cpp_callback": m.cpp.callback_type_spec if m.return_type_ref else "void",
        "java_return": m.java.return_type, "jni_sig": m.jni.type_signature, "jni_return_spec": str(m.jni.return_type_spec),
        "objc_return": m.objc.type_decl, "objc_completion": m.objc.completion_handler,
        "cli_return": m.cppcli.typename,
    }


# --------------------------------------------------------------------------------------------------------
# function level
# --------------------------------------------------------------------------------------------------------

def type_program(types: list, r: random.Random) -> str:
    lines = [gen_api.TYPE_PRELUDE, "qq = interface +cpp {"]
    for i, t in enumerate(types):
        mods = ""
        thr = ""
        x = r.random()
        if x < 0.1:
            mods = "static "
        elif x < 0.2:
            mods = "const "
        if r.random() < 0.15:
            mods += "async "
        if r.random() < 0.2:
            thr = " throws" + (" .err_dom" if r.random() < 0.5 else "")
        ret = f" -> {gen_api.spell(t)}" if r.random() < 0.8 else ""
        if "async" in mods and not ret:
            mods = mods.replace("async ", "")
        cb = ""
        x = r.random()
        if x < 0.12:
            # inline function types over built-ins (their generated names embed the spelling of the types they mention)
            P = lambda: r.choice(gen_api.PRIMS) + ("?" if r.random() < 0.3 else "")
            cb = ", cb: " + r.choice(["()", f"() -> {P()}", f"(x: {P()})", f"(x: {P()}, y: {P()}) -> {P()}", f"(x: list<{P()}>) -> map<string, {P()}>"])
        lines.append(f"  {mods}m{i}(p: {gen_api.spell(t)}{cb}){thr}{ret};")
    lines.append("}")
    return "\n".join(lines) + "\n"


def function_level(ctx, rows, type_chunks, label, type_keys=None, user_keys=None, method_keys=None, type_refs=None, method_refs=None):
    """type_chunks: list of lists of type expressions; one program + one random configuration per chunk."""
    reqs, expected = [], []
    t_real = time.time()
    for ci, types in enumerate(type_chunks):
        r = random.Random(f"{ctx.seed}/c02/{label}/{ci}")
        cfg = gen_api.rand_config(r, ctx.tmp / f"fl_{label}_{ci}")
        text = type_program(types, r)
        try:
            configured, g = gen_api.parse_program(cfg, text, ctx.tmp / f"fl_{label}_{ci}")
        except Exception as e:  # the closed feature set must parse: anything else is an infrastructure problem
            raise common.Infra(f"type program rejected by the front end: {type(e).__name__}: {str(e)[:300]}\n{text[:400]}")
        dump = gen_api.Dump(g.defs).finish()
        lc = gen_api.lean_cfg(configured.config)
        iface = [d for d in g.defs if d.name == "qq"][0]
        cppm, javab = iface.methods[0].cpp, iface.methods[0].java
        queries, exp = [], []
        for m, t in zip(iface.methods, types):
            for pi, prm in enumerate(m.parameters):
                tr = prm.type_ref
                user = id(tr.type_def) in dump.index
                queries.append({"t": dump.type(tr)})
                exp.append(("t", real_type_attrs(tr, cppm, javab, user), gen_api.spell(t) if pi == 0 else "inline function " + str(tr.type_def.name), user))
            mj = {"params": dump.fields(m.parameters), "ret": dump.type(m.return_type_ref) if m.return_type_ref else None,
                  "static": bool(m.static), "const": bool(m.const), "async": bool(m.asynchronous), "throws": dump.throws(m.throwing)}
            queries.append({"m": mj})
            exp.append(("m", real_method_attrs(m), f"{'static ' if m.static else ''}{'const ' if m.const else ''}{'async ' if m.asynchronous else ''}"
                        f"m(p: {gen_api.spell(t)}){' throws' if m.throwing is not None else ''}{' -> ' + gen_api.spell(t) if m.return_type_ref else ''}", False))
        reqs.append({"op": "c02.types", "cfg": lc, "builtins": rows, "udefs": dump.udefs, "queries": queries})
        expected.append((cfg, exp))
    ctx.stats["t_real_function_level_s"] = round(ctx.stats.get("t_real_function_level_s", 0) + time.time() - t_real, 2)
    answers = ctx.driver.batch(reqs)
    breaks = []
    failures = []
    for (cfg, exp), ans in zip(expected, answers):
        if "error" in ans:
            raise common.Infra(f"driver error in c02.types: {ans['error']}")
        for (kind, real, src, user), got in zip(exp, ans["out"]):
            keys = ((type_keys if type_keys is not None else TYPE_KEYS_ALL) + ((user_keys if user_keys is not None else TYPE_KEYS_USER) if user else [])) \
                if kind == "t" else (method_keys if method_keys is not None else METHOD_KEYS)
            refs = (type_refs if type_refs is not None else REF_KEYS) if kind == "t" else (method_refs if method_refs is not None else METHOD_REF)
            for k in keys:
                ctx.coverage["evaluations"] += 1
                if got.get(k) != real[k]:
                    breaks.append({"attribute": k, "input": src, "implementation": real[k], "model": got.get(k), "config": cfg["generate"]})
            for rk, ik in refs.items():
                ctx.coverage["evaluations"] += 1
                if got.get(rk) != real[ik]:
                    failures.append((len(src), "types:" + rk[4:], f"written type differs from the reference mapping: {ik} of `{src}`",
                                     {"input": {"type_or_method": src, "prelude": gen_api.TYPE_PRELUDE, "config": cfg["generate"]},
                                      "attribute": ik, "implementation": real[ik], "reference": got.get(rk)}))
            ctx.count(key=(kind, shape_class(src)), nontrivial=True, sample={"input": src, "cpp_param": real.get("cpp_param", real.get("cpp_type_spec"))})
    # smallest failing inputs first (the first VIOLATION line names the shortest type expression that fails)
    for _, key, what, body in sorted(failures, key=lambda f: (f[0], f[1], f[2])):
        ctx.report(key, what, body)
    return breaks


def shape_class(src: str) -> str:
    """coarse shape of a type expression / method: heads and optional marks, user names replaced by kind"""
    s = src
    for n, ref in gen_api.USER_REFS.items():
        s = s.replace(ref, n)
    for p in gen_api.PRIMS:
        s = s
    return s


# --------------------------------------------------------------------------------------------------------
# file level
# --------------------------------------------------------------------------------------------------------

EXTRACT = {"cpp": ctok.cpp_skel, "java": ctok.java_skel, "objc": ctok.objc_skel, "cppcli": ctok.cli_skel}


def out_file(cfg, target, td) -> Path:
    g = cfg["generate"]
    if target == "cpp":
        return Path(g["cpp"]["out"]) / str(td.cpp.header)
    if target == "java":
        return Path(g["java"]["out"]) / str(td.java.source)
    if target == "objc":
        return Path(g["objc"]["out"]) / str(td.objc.header)
    return Path(g["cppcli"]["out"]) / str(td.cppcli.header)


def canon_skel(sk: dict, target: str) -> dict:
    """white-space-insensitive form of a skeleton (both the model's and the extracted one go through this)"""
    def ty(t, drop_const=False):
        toks = ctok.canon_type(t).split(" ") if t else []
        if drop_const:
            while toks and toks[0] == "const":
                toks = toks[1:]
        return " ".join(toks)
    dc = target == "cpp"
    mem = lambda l, d=False: [[ty(t, d), n] for t, n in l]
    return {"kind": sk["kind"], "name": sk["name"], "scope": sk["scope"], "mods": list(sk["mods"]),
            "fields": mem(sk["fields"], dc), "ctor": mem(sk["ctor"]),
            "methods": [{"pre": list(m["pre"]), "ret": ty(m["ret"]), "name": m["name"], "params": mem(m["params"]), "post": list(m["post"])} for m in sk["methods"]],
            "items": list(sk["items"]), "fmods": list(sk.get("fmods", [])),
            "codes": [{"name": k["name"], "fields": mem(k["fields"], dc), "ctor": mem(k["ctor"]), "fmods": list(k.get("fmods", [])),
                       "methods": [{"pre": list(m["pre"]), "ret": ty(m["ret"]), "name": m["name"], "params": mem(m["params"]), "post": list(m["post"])}
                                   for m in k.get("methods", [])]} for k in sk["codes"]]}


def first_diff(a, b, path=""):
    if type(a) != type(b):
        return f"{path}: {a!r} vs {b!r}"
    if isinstance(a, dict):
        for k in a:
            d = first_diff(a[k], b.get(k), f"{path}.{k}")
            if d:
                return d
        return None
    if isinstance(a, list):
        if len(a) != len(b):
            return f"{path}: {len(a)} vs {len(b)} entries: {a!r} vs {b!r}"
        for i, (x, y) in enumerate(zip(a, b)):
            d = first_diff(x, y, f"{path}[{i}]")
            if d:
                return d
        return None
    return None if a == b else f"{path}: {a!r} vs {b!r}"


def member_shape(j: dict) -> str:
    k = j["_kind"]
    if k == "Record":
        return f"record/{len(j['fields'])}/{','.join(j['targets'])}"
    if k == "Interface":
        ms = sorted({('s' if m['static'] else '') + ('c' if m['const'] else '') + ('a' if m['async'] else '') + ('t' if m['throws'] is not None else '') +
                     ('r' if m['ret'] else '') + str(len(m['params'])) for m in j['methods']})
        return f"interface/{','.join(j['targets'])}/{' '.join(ms)}"
    if k == "Function":
        return f"function/{'anon' if j['anonymous'] else 'named'}/{len(j['params'])}/{'r' if j['ret'] else ''}" + ("" if j['anonymous'] else "/" + ",".join(j['targets']))
    if k == "ErrorDomain":
        return "error/" + ",".join(str(len(c['params'])) for c in j['codes'])
    return k.lower() + "/" + str(len(j.get("items", [])))


def _file_worker(args):
    """one program: parse, generate four targets, extract every declaration skeleton (runs in a pool).
    args = (seed, index, scratch dir, None) for a generated program or (…, {"idl", "config"}) for a corpus / replay input"""
    seed, pi, base, given = args
    import os
    base = Path(base)
    if given is None:
        r = random.Random(f"{seed}/c02/file/{pi}")
        cfg = gen_api.rand_config(r, base / "out") if pi % 4 else gen_api.default_like_config(base / "out")
        # identifiers: two programs of three draw declaration and member names also from the lists of character-class shapes
        # (digit→letter, letter→digit, `__`, trailing `_`, single letters, all-capitals words), one keeps the plain lists
        wide = pi % 3 != 2
        # every second program: error codes with up to 4 parameters of optional, collection, enum, flags and record types
        decls = gen_api.ProgGen(r, base_records=True, rich_codes=pi % 2 == 0,
                                names=gen_api.SAFE_NAMES + gen_api.TYPE_SHAPES if wide else None,
                                member_names=gen_api.MEMBER_NAMES + gen_api.MEMBER_SHAPES if wide else None).program()
        text = gen_api.render(decls)
    else:
        text = given["idl"]
        cfg = {"generate": json.loads(json.dumps(given["config"].get("generate", given["config"])))}
        for k in cfg["generate"]:
            cfg["generate"][k]["out"] = str(base / "out" / k)
    res = {"text": text, "cfg": cfg, "reports": [], "stats": [], "cases": []}
    try:
        configured, g = gen_api.parse_program(cfg, text, base)
    except Exception as e:
        res["infra"] = f"generated program rejected by the front end: {type(e).__name__}: {str(e)[:300]}\n{text[:600]}"
        return res
    dump = gen_api.Dump(g.defs).finish()
    res["udefs"] = dump.udefs
    res["lc"] = gen_api.lean_cfg(configured.config)
    generated = {}
    cwd = os.getcwd()
    os.chdir(base)
    try:
        for target in ("cpp", "java", "objc", "cppcli"):
            try:
                g.generate(target)
                generated[target] = True
            except Exception as e:   # generator failure inside the closed feature set: C01's subject, counted here
                generated[target] = False
                res["stats"].append(f"generate_failed_{target}_{type(e).__name__}")
    finally:
        os.chdir(cwd)
    inp = {"idl": text, "config": cfg["generate"]}
    for di, td in enumerate(g.defs):
        for target in ("cpp", "java", "objc", "cppcli"):
            if not generated[target]:
                continue
            f = out_file(cfg, target, td)
            if not f.exists():
                res["reports"].append(("file:missing", f"no {target} file for declaration {td.name}",
                                       {"input": inp, "target": target, "declaration": str(td.name), "expected_file": str(f)}))
                continue
            try:
                sk = EXTRACT[target](f.read_text())
            except (ctok.ExtractError, IndexError, KeyError, ValueError) as e:
                res["reports"].append(("file:not-a-declaration", f"generated {target} file of {td.name} does not have the form of a declaration: {e}",
                                       {"input": inp, "target": target, "declaration": str(td.name), "file": f.read_text()[:3000]}))
                continue
            if target == "java" and dump.udefs[di]["prim"] == "flags" and sk["kind"] == "enum":
                sk["kind"] = "flags"
            res["cases"].append({"decl": di, "target": target, "skel": canon_skel(sk, target)})
    import shutil
    shutil.rmtree(base / "out", ignore_errors=True)
    return res


def style_probes(lc: dict, j: dict, target: str, sk: dict) -> list[dict]:
    """the names of one extracted declaration that are, by the documentation, `convert(style, IDL name)` with nothing added:
    (role, style, IDL name, generated name). Decorated names (ObjC selectors and prefixed items, Java getters, anonymous
    functions) are judged by the fidelity clauses only."""
    kind = j["_kind"]
    out = []

    def add(role, style, idl, got):
        out.append({"role": role, "style": style, "s": idl, "out": got})
    base = j["name"] + ("_base" if kind == "Record" and target in j["targets"] else "")
    if target == "objc":
        # Objective-C has no namespaces: `<type_prefix><namespace path, converted><name, converted>`; judged here for declarations
        # outside any namespace (nothing in between). There a prefixed `identifier.type` style writes its prefix twice — the
        # namespace part is the conversion of the empty identifier, i.e. the bare prefix (finding `style:objc:type-prefix-repeated`)
        pfx, st = lc["objc"]["typePrefix"], lc["objc"]["type"]
        if not j["ns"] and sk["name"].startswith(pfx) and kind != "Function":
            rest = sk["name"][len(pfx):]
            if st["pfx"] and rest.startswith(st["pfx"] * 2):
                out.append({"role": "type", "style": st, "s": base, "out": rest[len(st["pfx"]):], "note": "prefix-repeated", "written": sk["name"]})
            else:
                add("type", st, base, rest)
        return out
    cfg = lc[target]
    if sk["name"] and not (kind == "Function" and (j.get("anonymous") or target in ("cpp", "java"))):
        add("type", cfg["type"], base, sk["name"])
    if kind == "Function" and target == "java" and not j.get("anonymous") and sk["name"]:
        add("type", cfg["type"], base, sk["name"])
    if kind in ("Enum", "Flags"):
        items = [i if isinstance(i, str) else i["n"] for i in j["items"] if isinstance(i, str) or target != "java" or not (i["all"] or i["none"])]
        if len(items) == len(sk["items"]):
            for a, b in zip(items, sk["items"]):
                add("item", cfg["enum"], a, b)
    if kind == "Record" and len(j["fields"]) == len(sk["fields"]):
        for f, (_, n) in zip(j["fields"], sk["fields"]):
            add("field", cfg["property" if target == "cppcli" else "field"], f["n"], n)
    if kind == "Interface" and len(j["methods"]) == len(sk["methods"]):
        for m, g in zip(j["methods"], sk["methods"]):
            add("method", cfg["method"], m["n"], g["name"])
    return out


def report_capped(ctx, key, what, body, cap=3):
    """at most `cap` replays per violated clause (the count is in the statistics)"""
    seen = ctx.stats.get("reported_" + key, 0)
    ctx.stat("reported_" + key)
    if seen < cap or key in ctx._finding_keys:
        ctx.report(key, what, body)


def file_level(ctx, rows, n_programs, given=None):
    import multiprocessing
    t0 = time.time()
    corpus_file = common.VERIF / "corpus" / "c02.json"
    corpus = given if given is not None else (json.loads(corpus_file.read_text()) if corpus_file.exists() else [])
    jobs = [(ctx.seed, i, str(ctx.tmp / f"corpus_{i}"), c) for i, c in enumerate(corpus)]
    jobs += [(ctx.seed, pi, str(ctx.tmp / f"file_{pi}"), None) for pi in range(n_programs)]
    with multiprocessing.get_context("fork").Pool(12) as pool:
        results = pool.map(_file_worker, jobs, chunksize=1)
    ctx.stats["t_real_file_level_s"] = round(time.time() - t0, 2)
    reqs, kept = [], []
    for res in results:
        if "infra" in res:
            raise common.Infra(res["infra"])
        for st in res["stats"]:
            ctx.stat(st)
        for key, what, body in res["reports"]:
            ctx.report(key, what, body)
        reqs.append({"op": "c02.skel", "cfg": res["lc"], "builtins": rows, "udefs": res["udefs"], "decls": res["udefs"]})
        reqs.append({"op": "c02.spec", "cfg": res["lc"], "builtins": rows, "udefs": res["udefs"], "decls": res["udefs"], "cases": res["cases"]})
        # "names follow the configured identifier style": every plainly converted name of every extracted declaration against `convertSpec`
        res["probes"] = [{**p, "case": ci} for ci, c in enumerate(res["cases"]) for p in style_probes(res["lc"], res["udefs"][c["decl"]], c["target"], c["skel"])]
        reqs.append({"op": "c02.convertSpec", "items": [{"style": p["style"], "s": p["s"], "out": p["out"]} for p in res["probes"]]})
        kept.append(res)
    answers = ctx.driver.batch(reqs)
    breaks = []
    for i, res in enumerate(kept):
        text, cfg, udefs, cases = res["text"], res["cfg"], res["udefs"], res["cases"]
        model, spec, styles = answers[3 * i], answers[3 * i + 1], answers[3 * i + 2]
        for a in (model, spec, styles):
            if "error" in a:
                raise common.Infra(f"driver error: {a['error']}\n{text}")
        for p, ok in zip(res["probes"], styles["out"]):
            ctx.coverage["evaluations"] += 1
            c = cases[p["case"]]
            ctx.count(key=("style", c["target"], p["role"], p["style"]["case"], shape_of_id(p["s"])), nontrivial=True,
                      sample={"identifier": p["s"], "style": p["style"], "generated": p["out"], "target": c["target"], "role": p["role"]})
            if p.get("note"):
                report_capped(ctx, f"style:{c['target']}:{p['role']}-{p['note']}",
                              f"the {c['target']} {p['role']} name generated for `{p['s']}` outside any namespace is `{p['written']}`: the prefix of the style {p['style']} is written twice",
                              {"input": {"idl": text, "config": cfg["generate"]}, "target": c["target"], "declaration": udefs[c["decl"]]["name"],
                               "role": p["role"], "idl_name": p["s"], "generated_name": p["written"], "style": p["style"]}, cap=1)
            if not ok:
                report_capped(ctx, f"style:{c['target']}:{p['role']}",
                              f"the {c['target']} {p['role']} name generated for `{p['s']}` is `{p['out']}`: not the identifier in the configured style {p['style']}",
                              {"input": {"idl": text, "config": cfg["generate"]}, "target": c["target"], "declaration": udefs[c["decl"]]["name"],
                               "role": p["role"], "idl_name": p["s"], "generated_name": p["out"], "style": p["style"]})
        for c, s in zip(cases, spec["out"]):
            j = udefs[c["decl"]]
            ctx.count(key=("file", c["target"], member_shape(j)), nontrivial=True,
                      sample={"declaration": j["name"], "kind": j["_kind"], "target": c["target"], "skeleton": c["skel"]})
            ctx.stat(f"file_{c['target']}_{j['_kind']}")
            want = canon_skel(model["out"][c["decl"]][c["target"]], c["target"])
            d = first_diff(want, c["skel"])
            if d:
                breaks.append({"target": c["target"], "declaration": j["name"], "difference (model vs file)": d, "idl": text, "config": cfg["generate"]})
            if not s["holds"]:
                report_capped(ctx, f"api:{c['target']}:" + "+".join(s["failed"]),
                           f"the {c['target']} declaration generated for `{j['name']}` does not mirror the IDL declaration: " + ", ".join(s["failed"]),
                           {"input": {"idl": text, "config": cfg["generate"]}, "target": c["target"], "declaration": j["name"],
                            "failed_clauses": s["failed"], "extracted_skeleton": c["skel"]})
    return breaks


# --------------------------------------------------------------------------------------------------------
# identifier conversion
# --------------------------------------------------------------------------------------------------------

ALL_CASES = ['none', 'camelCase', 'PascalCase', 'snake_case', 'kebab-case', 'TRAIN_CASE']
TRICKY_IDS = ['a', 'A', 'foo', 'fooBar', 'foo_bar', 'FOO_BAR', 'a__b', 'x1_y2', 'e_', 'e__', 'HTTPReq', 'aB_cD', 'a_1b', 'z9', 'Zed_', 'a_b_c_d', 'ABC', 'lowerUPPER_mix1',
              # a letter directly after a digit / a digit after a letter, inside the first word and inside a later one
              'vec3d', 'x2y', 'to_base64url', 'md5sum_kind', 'i18n', 'n2k', 'make_v2codec', 'r2D2', 'a1b2c3', 'x_1_2', 'k9Unit', 'a1', 'a_1', 'a1_', 'A1B', 'utf8_name', 'sha256',
              # separator runs, trailing separators, single letters, all-capitals words
              'a___b', 'e___', 'x_Y', 'X', 'z', 'URL', 'URL_id', 'get_URL2x', 'A_B_C', 'a_B', 'Z_', 'q__', 'aa_b__c___d', 'ID', 'iD', 'Id_', 'x9_', 'x_9', 'X9Y']
# outside the IDL grammar (identifiers start with a letter): where `convert_style` needs its hypothesis
EXCLUDED_POINTS = ['_ab', '__x', '_', '', '_A_b']


def rand_identifier(r: random.Random) -> str:
    """an identifier of the IDL grammar (`[a-zA-Z][a-zA-Z0-9_]*`); half of them character soup, half built from runs of one
    character class (lower, upper, Capitalised, digits, `_`..`___`) so that every class boundary — digit→letter, letter→digit,
    lower→upper, `_` runs, a trailing `_`, one-letter words — occurs often"""
    letters = "abcdefghijklmnopqrstuvwxyzABCDEFGHIJKLMNOPQRSTUVWXYZ"
    if r.random() < 0.5:
        n = r.randint(1, 14)
        s = r.choice(letters)
        for _ in range(n - 1):
            x = r.random()
            s += "_" if x < 0.18 else (r.choice("0123456789") if x < 0.3 else r.choice(letters))
        return s
    low, up = "abcdexyz", "ABCDXYZ"
    s = ""
    for i in range(r.randint(1, 6)):
        k = r.choice(["lower", "upper", "cap", "digits", "sep"] if i else ["lower", "upper", "cap"])
        n = r.choice([1, 1, 2, 3])
        if k == "lower":
            s += "".join(r.choice(low) for _ in range(n))
        elif k == "upper":
            s += "".join(r.choice(up) for _ in range(n))
        elif k == "cap":
            s += r.choice(up) + "".join(r.choice(low) for _ in range(n))
        elif k == "digits":
            s += "".join(r.choice("0123456789") for _ in range(r.choice([1, 1, 2])))
        else:
            s += "_" * r.choice([1, 1, 1, 2, 3])
    return s


def convert_level(ctx):
    from pydjinni.parser.identifier import IdentifierType
    from pydjinni.config.types import IdentifierStyle
    r = random.Random(f"{ctx.seed}/c02/convert")
    ids = TRICKY_IDS + [rand_identifier(r) for _ in range(ctx.n(300, 5000))]
    items, real = [], []
    for s in ids + EXCLUDED_POINTS:
        for case in ALL_CASES:
            for pfx in (None, r.choice(['X', 'k_', 'Pre'])):
                st = IdentifierStyle(style=case, prefix=pfx) if pfx is not None else IdentifierStyle.Case(case)
                out = IdentifierType(s).convert(st)
                items.append({"style": {"case": case, "pfx": pfx}, "s": s})
                real.append(out)
    model = ctx.driver.one({"op": "c02.convert", "items": items})
    spec = ctx.driver.one({"op": "c02.convertSpec", "items": [{**it, "out": o} for it, o in zip(items, real)]})
    for a in (model, spec):
        if "error" in a:
            raise common.Infra("driver error: " + a["error"])
    breaks = []
    excluded = {}
    for it, o, m, ok in zip(items, real, model["out"], spec["out"]):
        ctx.coverage["evaluations"] += 1
        if o != m:
            breaks.append({"attribute": "convert", "input": f"{it['s']!r} as {it['style']}", "implementation": o, "model": m})
        if it["s"] in EXCLUDED_POINTS:
            if not ok:
                excluded[f"{it['s']!r}/{it['style']['case']}"] = o        # documented: outside the grammar, hypothesis of convert_style
            continue
        ctx.count(key=("convert", it["style"]["case"], bool(it["style"]["pfx"]), shape_of_id(it["s"])), nontrivial=True,
                  sample={"identifier": it["s"], "style": it["style"], "converted": o})
        if not ok:
            report_capped(ctx, "convert:" + it["style"]["case"], f"convert({it['s']!r}, {it['style']}) = {o!r} does not have the shape of the style / loses letters",
                       {"input": {"identifier": it["s"], "style": it["style"]}, "implementation": o, "model": m})
    ctx.stats["convert_excluded_points_violating_shape"] = excluded
    return breaks


def shape_of_id(s: str) -> str:
    return "".join("_" if ch == "_" else ("9" if ch.isdigit() else ("A" if ch.isupper() else "a")) for ch in s)[:6]


def run(ctx):
    ctx.coverage["rule"] = ("function level: one case = one (type expression | method signature) under one random configuration; distinct = distinct "
                            "shape (heads, optional marks, modifiers) ; file level: one case = one generated declaration × target, distinct = "
                            "(kind, target, member-shape); all non-trivial (every case exercises the mapping of at least one type)")
    rows = gen_api.builtin_rows()
    bad_rows = table_obligations(ctx, rows)
    ctx.stats["table_rows"] = len(rows)
    # ---- function level -------------------------------------------------------------------------------
    all_types = list(gen_api.all_type_exprs(depth3=not ctx.quick))
    rs = random.Random(f"{ctx.seed}/c02/sample")
    if ctx.quick:
        d3 = list(gen_api.all_type_exprs(depth3=True))[len(all_types):]
        sample = all_types if len(all_types) <= 1300 else rs.sample(all_types, 1300)
        sample = sample + rs.sample(d3, 500)
        ctx.coverage["exhaustive"] = False
    else:
        sample = all_types
        ctx.coverage["exhaustive"] = True
    ctx.stats["type_expressions"] = len(sample)
    rs.shuffle(sample)
    chunk = 150
    chunks = [sample[i:i + chunk] for i in range(0, len(sample), chunk)]
    breaks = convert_level(ctx) + function_level(ctx, rows, chunks, "types")
    fbreaks = file_level(ctx, rows, ctx.n(40, 400))
    ctx.stats["file_level_breaks"] = len(fbreaks)
    if fbreaks:
        ctx.stats["file_break_examples"] = [{k: b[k] for k in ("target", "declaration", "difference (model vs file)")} for b in fbreaks[:8]]
    if fbreaks and not ctx.violations:
        ctx.report("correspondence", "declaration skeleton model and generated files disagree; the fidelity specification holds on every sampled file",
                   {"correspondence": "c02.skel vs skeleton extracted from generated files", "first": fbreaks[0], "count": len(fbreaks)}, no_failing_input=True)
    ctx.stats["function_level_breaks"] = len(breaks)
    for b in breaks:
        ctx.stat("break_" + b["attribute"])
    if breaks:
        ctx.stats["break_examples"] = [{k: b[k] for k in ("attribute", "input", "implementation", "model")} for b in breaks[:8]]
    if breaks and not ctx.violations:
        ctx.report("correspondence", "marshalling model and implementation disagree; the reference mapping holds on every sampled input",
                   {"correspondence": "c02.types vs real marshalling objects", "first": breaks[0], "count": len(breaks)}, no_failing_input=True)
    elif breaks:
        ctx.stats["correspondence_first"] = json.dumps(breaks[0])[:300]
    ctx.assumptions += [gen_api.FEATURES]


def tables_lean(rows, namespace: str, checks: list[tuple[str, str]]) -> str:
    """Generated Lean file: the live built-in tables and one `decide`-checked obligation per (row, predicate)."""
    src = ["import PydjinniModel.Gen.Tables", gen_api.lean_builtin_table(rows, namespace)]
    for r in rows:
        for name, pred in checks:
            src.append(f"theorem {name}_{r['name']} : Builtin.{pred} row_{r['name']} = true := by decide +kernel")
    src.append(f"end {namespace}")
    return "\n".join(src) + "\n"


C02_TABLE_CHECKS = [("java_boxed_is_box", "javaOK"), ("cpp_by_value_iff_arithmetic", "cppOK"), ("objc_pointer_iff_class", "objcOK"),
                    ("cli_reference_iff_not_value_type", "cliOK")]


def table_obligations(ctx, rows, checks=C02_TABLE_CHECKS, tag="C02_tables"):
    """Translator: built-in tables of /repo -> Lean, obligations re-checked by the kernel.  On failure each row is
    checked separately so that the broken row is named, and a program using that built-in is returned as search seed."""
    src = tables_lean(rows, "Pydjinni.Generated." + tag, checks)
    ok, out = common.lean_check_file(src, tag)
    if ok:
        for r in rows:
            for name, _ in checks:
                ctx.obligation(f"{name}[{r['name']}]", True, kind="generated")
        return []
    bad = []
    for r in rows:
        for name, pred in checks:
            one = tables_lean([r], "Pydjinni.Generated." + tag + "_one", [(name, pred)])
            ok1, out1 = common.lean_check_file(one, tag + "_row")
            ctx.obligation(f"{name}[{r['name']}]", ok1, kind="generated", detail="" if ok1 else out1)
            if not ok1:
                bad.append((name, r))
    return bad


def replay(ctx, body):
    inp = body["input"]
    rows = gen_api.builtin_rows()
    before = len(ctx.violations)
    if "idl" in inp:
        breaks = file_level(ctx, rows, 0, given=[{"idl": inp["idl"], "config": {"generate": inp["config"]}}])
    elif "identifier" in inp:
        from pydjinni.parser.identifier import IdentifierType
        from pydjinni.config.types import IdentifierStyle
        st = inp["style"]
        style = IdentifierStyle(style=st["case"], prefix=st["pfx"]) if st["pfx"] is not None else IdentifierStyle.Case(st["case"])
        out = IdentifierType(inp["identifier"]).convert(style)
        ok = ctx.driver.one({"op": "c02.convertSpec", "items": [{"style": st, "s": inp["identifier"], "out": out}]})["out"][0]
        print(json.dumps({"implementation": out, "spec_holds": ok}))
        return bool(ok)
    else:
        # a type expression / method signature of the function-level stream, under the recorded configuration
        src = inp["type_or_method"]
        line = (src.replace("m(", "m0(", 1) if "m(p:" in src else f"m0(p: {src}) -> {src}") + ";"
        text = inp["prelude"] + "qq = interface +cpp {\n  " + line + "\n}\n"
        cfg = {"generate": json.loads(json.dumps(inp["config"]))}
        for k in cfg["generate"]:
            cfg["generate"][k]["out"] = str(ctx.tmp / "replay" / k)
        configured, g = gen_api.parse_program(cfg, text, ctx.tmp / "replay")
        dump = gen_api.Dump(g.defs).finish()
        iface = [d for d in g.defs if d.name == "qq"][0]
        m = iface.methods[0]
        tr = m.parameters[0].type_ref
        real = real_type_attrs(tr, m.cpp, m.java, id(tr.type_def) in dump.index)
        mj = {"params": dump.fields(m.parameters), "ret": dump.type(m.return_type_ref) if m.return_type_ref else None,
              "static": bool(m.static), "const": bool(m.const), "async": bool(m.asynchronous), "throws": dump.throws(m.throwing)}
        ans = ctx.driver.one({"op": "c02.types", "cfg": gen_api.lean_cfg(configured.config), "builtins": rows, "udefs": dump.udefs,
                              "queries": [{"t": dump.type(tr)}, {"m": mj}]})
        bad = {ik: (real[ik], ans["out"][0][rk]) for rk, ik in REF_KEYS.items() if ans["out"][0][rk] != real[ik]}
        rm = real_method_attrs(m)
        bad.update({ik: (rm[ik], ans["out"][1][rk]) for rk, ik in METHOD_REF.items() if ans["out"][1][rk] != rm[ik]})
        print(json.dumps({"differs (implementation, reference)": bad}, indent=1))
        return not bad
    print(json.dumps({"correspondence_breaks": breaks[:3], "violations": ctx.violations[before:]}, indent=1, default=str)[:3000])
    return len(ctx.violations) == before
