"""C06 — parsing any input terminates with an AST or positioned diagnostics only.

Tie: the Lean front-end model (`c05.front`) predicts the full outcome for every text inside the
grammar (including unknown types in every syntactic position) and the class "positioned
diagnostics" for text outside it; the real `ConfiguredContext.parse` is run on the same inputs in
worker processes with a wall-clock bound. Specification on the implementation's observation:
outcome class in {result, diagnostic list, file-not-found, bare application diagnostic}, never an
internal exception or a hang, and every diagnostic's (line, column) exists in the file it names.
Streams: generated programs with broken references; token-level mutations of valid programs
(deletion, duplication, swap, truncation, insertion); raw character soup; deep nesting.
ANTLR's error recovery is not modelled: for text outside the grammar the search for a failing
input is a fuzz of the real code, labelled as such in the evidence.
"""
from __future__ import annotations

import json
import random

import front

LEAN_MODULE = "PydjinniModel.Props.C06All"
THEOREMS = [
    "Pydjinni.Front.resolveLoop_total",
    "Pydjinni.Front.finishFile_no_crash",
    "Pydjinni.Front.parseOne_no_crash",
    "Pydjinni.Front.front_no_crash",
    "Pydjinni.Front.front_outcome_classes",
    "Pydjinni.Front.front_terminates",
    "Pydjinni.Front.lex_token_bounds",
    "Pydjinni.Front.lex_none_iff",
]
LEVEL = "proof"

ALPHABET = list("abcxyz_019 \n\t{}()<>;:,.?=#\"+-@") + ["enum", "record", "interface", "flags", "error", "function", "throws", "->",
                                                         "namespace", "deriving", "main", "static", "const", "async", "property",
                                                         "@import", "@extern", "i32", "list", "map", "+cpp", "-java", "\r\n", "é", "\x00"]


def tokens_of(text):
    # coarse split that keeps comments and strings intact enough for mutation purposes
    import re
    return re.findall(r'#[^\n]*\n?|"[^"]*"|[A-Za-z_.][A-Za-z0-9_.]*|->|[+-][a-z]+|\s+|.', text)


def mutate(r: random.Random, text: str) -> tuple[str, str]:
    toks = tokens_of(text)
    if not toks:
        return text, "none"
    kind = r.choice(["delete", "duplicate", "swap", "truncate", "insert", "replace", "delete2"])
    i = r.randrange(len(toks))
    if kind == "delete":
        del toks[i]
    elif kind == "delete2":
        del toks[i:i + r.choice([2, 3, 5])]
    elif kind == "duplicate":
        toks.insert(i, toks[i])
    elif kind == "swap" and len(toks) > 1:
        j = r.randrange(len(toks))
        toks[i], toks[j] = toks[j], toks[i]
    elif kind == "truncate":
        toks = toks[:i]
    elif kind == "insert":
        toks.insert(i, r.choice(ALPHABET))
    else:
        toks[i] = r.choice(ALPHABET)
    return "".join(toks), kind


def deep(r: random.Random):
    m = r.random()
    d = r.choice([5, 20, 60])
    if m < 0.3:
        return "r = record { f: " + "list<" * d + "i32" + ">" * d + "; }", "deep-generics"
    if m < 0.6:
        return "".join(f"namespace n{i} {{ " for i in range(d)) + "e = enum { a; }" + " }" * d, "deep-namespaces"
    if m < 0.8:
        return "f = " + "(a: " * d + "i32" + ")" * d + ";", "deep-functions"
    d = min(d, 20)   # ANTLR's adaptive prediction is polynomial but slow on this ambiguous nesting (≈1 s at depth 20)
    return "i = interface { m() throws " + "() throws " * d + "a, b; }", "deep-throws"


def positions_ok(files: dict, impl) -> list:
    bad = []
    ds = impl.get("diags", []) if impl["kind"] == "diags" else ([impl] if impl["kind"] == "raised" else [])
    for d in ds:
        f = d.get("file", "")
        if f in files and isinstance(files[f], dict) and "bytes_hex" in files[f]:
            files = {**files, f: bytes.fromhex(files[f]["bytes_hex"]).decode("utf-8", errors="replace")}
        if f in files and isinstance(files[f], dict) and "raw" in files[f]:
            if d["cls"] == "InputParsingException" and d["p"] == [0, 0, 0, 0]:
                continue            # schema violation of an external type file: reported for the file as a whole
            files = {**files, f: files[f]["raw"]}
        if f not in files or not isinstance(files[f], str):
            if d["cls"] in ("InputParsingException",) and f in files:
                continue
            bad.append({"diag": d, "why": "names no file of the input"})
            continue
        lines = files[f].split("\n")
        sl, sc = d["p"][0], d["p"][1]
        if not (1 <= sl <= len(lines)) or not (0 <= sc <= len(lines[sl - 1])):
            bad.append({"diag": d, "why": "line/column outside the file"})
    return bad


def run(ctx):
    ctx.coverage["rule"] = ("streams: valid-syntax programs with unknown types in every position; token mutations of valid programs; "
                            "character soup; deep nesting. distinct = distinct (stream, mutation kind, implementation outcome class, "
                            "model outcome kind, first rule); non-trivial = not accepted")
    ctx.assumptions += ["ANTLR error recovery is not modelled: outside the grammar the model predicts only 'positioned diagnostics'",
                        "CPython recursion limit is part of the trusted base (nesting bound 60 in the deep stream)"]
    n = ctx.n(3000, 30000)
    todo = []
    for i in range(n):
        r = random.Random(f"{ctx.seed}/c06/{i}")
        stream = ["unknown", "mutant", "mutant", "soup", "deep"][i % 5] if i % 50 else "empty"
        if stream == "unknown":
            g = front.Gen(r, p_bad=0.5, max_decls=r.choice([1, 3, 6]), dup_names=r.random() < 0.2)
            R = front.Render(r, 'random')
            text, kind = R.join(R.program(g.program())), "unknown-refs"
        elif stream == "mutant":
            g = front.Gen(r, p_bad=0.05, max_decls=r.choice([1, 2, 4]), dup_names=False)
            R = front.Render(r, 'min' if r.random() < 0.5 else 'random')
            text = R.join(R.program(g.program()))
            if r.random() < 0.2:
                text = '@import "nope.djinni"\n' + text
            text, kind = mutate(r, text)
            if r.random() < 0.3:
                text, k2 = mutate(r, text)
                kind += "+" + k2
        elif stream == "soup":
            text, kind = "".join(r.choice(ALPHABET) + r.choice(["", " "]) for _ in range(r.choice([1, 5, 20, 60]))), "soup"
        elif stream == "deep":
            text, kind = deep(r)
        else:
            text, kind = r.choice(["", "\n", "#", "# only a comment\n", "﻿", "e = enum { a; # trailing\n }"]), "empty-ish"
        todo.append({"files": {"/w/m.djinni": text}, "root": "/w/m.djinni", "stream": stream, "mut": kind, "configured": i % 3 == 1})
    # raw bytes that are not valid UTF-8
    for i in range(ctx.n(12, 100)):
        r = random.Random(f"{ctx.seed}/c06/bytes/{i}")
        raw = bytes(r.choice([0xff, 0xfe, 0xc3, 0x28, 0x80, 0x41, 0x7b, 0x7d, 0x3b, 0x0a, 0x65, 0x3d]) for _ in range(r.choice([1, 4, 20])))
        todo.append({"files": {"/w/m.djinni": {"bytes_hex": raw.hex()}}, "root": "/w/m.djinni", "stream": "bytes", "mut": "raw-bytes"})
    # realistic IDL text with multi-byte characters in its comments, damaged at one place (a stray byte, or a
    # multi-byte character cut short) — in the root file or in an imported one: the position must count characters
    for i in range(ctx.n(40, 400)):
        r = random.Random(f"{ctx.seed}/c06/textbytes/{i}")
        g = front.Gen(r, p_bad=0.0, max_decls=r.choice([1, 2, 4]), dup_names=False)
        R = front.Render(r, 'min' if r.random() < 0.5 else 'random')
        words = ["Größe", "déjà vu", "日本語のコメント", "π≈3", "naïve café", "😀 ok", "Ünïcödé", "текст"]
        lines = R.join(R.program(g.program())).split("\n")
        out = []
        for ln in lines:
            if r.random() < 0.5:
                out.append("# " + " ".join(r.choice(words) for _ in range(r.choice([1, 2, 4]))))
            if r.random() < 0.3 and ln.strip() and '"' not in ln:
                ln = ln + " # " + r.choice(words)
            out.append(ln)
        raw = bytearray("\n".join(out).encode("utf-8"))
        k = r.randrange(len(raw) + 1)
        m = r.random()
        if m < 0.5:
            raw[k:k] = bytes([r.choice([0xff, 0xfe, 0x80, 0xbf, 0xc0, 0xf8])])
        elif m < 0.8:
            multi = [j for j in range(len(raw)) if raw[j] >= 0xc0]
            if multi:
                j = r.choice(multi)
                del raw[j + 1]       # cut a multi-byte character short
            else:
                raw[k:k] = b"\xff"
        else:
            raw[k:k] = "é日😀".encode("utf-8") + b"\xe6\x97"
        try:
            bytes(raw).decode("utf-8")
            continue
        except UnicodeDecodeError:
            pass
        if r.random() < 0.3:
            files = {"/w/m.djinni": '# äöü 日本\n@import "sub/i.djinni"\ne0 = enum { a; }', "/w/sub/i.djinni": {"bytes_hex": bytes(raw).hex()}}
        else:
            files = {"/w/m.djinni": {"bytes_hex": bytes(raw).hex()}}
        todo.append({"files": files, "root": "/w/m.djinni", "stream": "bytes", "mut": "text-bad-byte"})
    # unusual names in @import / @extern directives (the lexer accepts any character but a quote): the file is not
    # found — or is, under its odd name — and nothing else happens; links that lead nowhere are not files
    odd = ["a\x00b.djinni", "\x00", "x" * 300 + ".djinni", "dir/" + "y" * 260, "~/x.djinni", "$HOME/x.djinni", "a\\b.djinni", "a b.djinni",
           "ä/ö.djinni", "..", ".", "", "/", "//x", "a/./b/../c.djinni", "loop.djinni", "dangling.djinni", "loopdir/x.djinni", "😀.djinni",
           "a\tb.djinni", "%41.djinni", "file:///w/m.djinni", "C:\\x.djinni"]
    for i, lit in enumerate(odd):
        for kw in ("@import", "@extern"):
            if '"' in lit or "\n" in lit:
                continue
            files = {"/w/m.djinni": f'{kw} "{lit}"\nr = record {{ a: i32; }}', "/w/loop.djinni": {"symlink": "loop.djinni"},
                     "/w/dangling.djinni": {"symlink": "nowhere/else.djinni"}, "/w/loopdir": {"symlink": "loopdir"},
                     "/w/a b.djinni": "s = enum { k; }", "/w/ä/ö.djinni": "t = enum { k; }"}
            if kw == "@extern":
                files["/w/a b.djinni"] = {"ext": [{"name": "s", "ns": [], "prim": "enum"}]}
                files["/w/ä/ö.djinni"] = {"ext": [{"name": "t", "ns": [], "prim": "enum"}]}
            todo.append({"files": files, "root": "/w/m.djinni", "stream": "imports", "mut": "odd-name", "configured": i % 2 == 0})
    # @extern files that are not text / not valid external-type YAML
    for i in range(ctx.n(8, 60)):
        r = random.Random(f"{ctx.seed}/c06/extern/{i}")
        raw = bytes(r.choice([0xff, 0xfe, 0x80, 0x6e, 0x61, 0x3a, 0x20, 0x0a, 0x2d]) for _ in range(r.choice([2, 8, 30])))
        try:
            raw.decode("utf-8")
            body = {"raw": raw.decode("utf-8")}
        except UnicodeDecodeError:
            body = {"bytes_hex": raw.hex()}
        todo.append({"files": {"/w/m.djinni": '@extern "e.yaml"\nr = record { a: i32; }', "/w/e.yaml": body}, "root": "/w/m.djinni", "stream": "extern-bytes", "mut": "extern-bytes"})
    # @extern files that are YAML-like but malformed somewhere (the stream of documents is read lazily: an error in a later
    # document, an unterminated flow collection or quote, a tab, an alias without anchor, a duplicate anchor …) or
    # well-formed but not an external type; as the only load line, after another extern, and below an import
    good = "name: ok_type\nprimitive: record\n"
    yamls = ["[", "{", "a: [1, 2", "a: {b: 1", "'unterminated", '"unterminated', "a: b: c", "a:\n\tb: 1", "- a\nb: 1", "*alias", "&a 1\n&a 2: x", "%YAML 9.9\n---\na: 1",
             good + "---\n[", good + "---\na: b: c", good + "---\n" + good.replace("ok_type", "t2") + "---\n'open", "--- >\n text\n---\n{", "? [\n: 1", "a: !!python/object:os.system 1",
             "a: !unknown_tag 1", good + "...\n]", "- - - [", "key: |\n  text\n wrong", "a: 1\na: 2", "1", "text", "[1, 2]", "null", "~", "---\n---\n", "name: 5\nprimitive: record"]
    for i, y in enumerate(yamls):
        for shape in range(3):
            if shape == 0:
                files = {"/w/m.djinni": '@extern "e.yaml"\nr = record { a: i32; }', "/w/e.yaml": {"raw": y}}
            elif shape == 1:
                files = {"/w/m.djinni": '@extern "g.yaml"\n@extern "e.yaml"\nr = record { a: x; }', "/w/e.yaml": {"raw": y},
                         "/w/g.yaml": {"ext": [{"name": "x", "ns": [], "prim": "enum"}]}}
            else:
                files = {"/w/m.djinni": '@import "sub/i.djinni"\nr = record { a: e0; }', "/w/sub/i.djinni": '@extern "../e.yaml"\ne0 = enum { k; }', "/w/e.yaml": {"raw": y}}
            todo.append({"files": files, "root": "/w/m.djinni", "stream": "extern-bytes", "mut": "extern-yaml", "configured": (i + shape) % 3 == 0})
    # import graphs (cycles, diamonds, '..' spellings across directories) — termination with imports
    import props.c16 as c16
    for i in range(ctx.n(60, 600)):
        r = random.Random(f"{ctx.seed}/c06/imports/{i}")
        nn = r.choice([2, 3, 3, 4])
        es = [(a, b) for a in range(nn) for b in range(nn) if r.random() < 0.4]
        lay = r.choice(c16.LAYOUTS)
        todo.append({"files": c16.build(nn, es, lay), "root": lay["path"](0), "include_dirs": lay["inc"], "stream": "imports", "mut": lay["name"]})
    # a root file that does not exist
    todo.append({"files": {"/w/other.djinni": "e = enum {}"}, "root": "/w/m.djinni", "stream": "missing-root", "mut": "missing-root"})

    results = front.run_many(ctx.tmp, todo, per_input_timeout=25)
    answers = ctx.driver.batch([req for _, req in results])
    breaks = []
    for t, (impl, req), m in zip(todo, results, answers):
        files = t["files"]
        text = next(iter(files.values()))
        text = text if isinstance(text, str) else str(text)
        mo = front.model_outcome(m)
        io = front.canon_outcome(impl) if impl["kind"] != "hang" else ("hang",)
        rule0 = (m["diags"][0]["rule"] if m.get("kind") == "diags" and m["diags"] else "")
        ctx.count(key=(t["stream"], t["mut"], impl["kind"], m.get("kind"), rule0), nontrivial=impl["kind"] != "ok",
                  sample={"stream": t["stream"], "mutation": t["mut"], "text": text[:200], "impl": impl["kind"]})
        ctx.stat("stream_" + t["stream"])
        ctx.stat("impl_" + impl["kind"])
        ctx.stat("model_" + str(m.get("kind")))
        # ---- specification on the implementation's observation --------------------------------
        if impl["kind"] == "crash":
            ctx.report("internal-error:" + str(impl.get("site", "?")) + ":" + str(impl.get("exc")),
                       "parsing ended in an internal Python exception", {"input": {"files": files, "root": t["root"], "configured": bool(t.get("configured"))}, "impl": impl, "stream": t["stream"]})
        elif impl["kind"] == "hang":
            ctx.report("hang", "parsing did not terminate within the wall-clock bound", {"input": {"files": files, "root": t["root"], "configured": bool(t.get("configured"))}, "impl": impl})
        else:
            bad = positions_ok(files, impl)
            if bad:
                ctx.report("position-outside-file", "a diagnostic names a file or line/column that does not exist",
                           {"input": {"files": files, "root": t["root"], "configured": bool(t.get("configured"))}, "bad": bad[:3]})
        # ---- correspondence ------------------------------------------------------------------
        if mo[0] == "syntax":
            # outside the grammar the model only predicts "the tool's own diagnostics": a diagnostic list with a syntax
            # error, or a bare application diagnostic raised while visiting the recovered tree (e.g. a duplicate type)
            own = (impl["kind"] == "diags" and any(d["cls"] == "ParsingException" for d in impl["diags"])) or impl["kind"] == "raised"
            if not own:
                breaks.append({"files": files, "why": "model: outside the grammar; implementation: " + impl["kind"], "impl": strip(impl)})
        elif mo != io:
            breaks.append({"files": files, "why": "outcome differs", "model": m, "impl": strip(impl)})
    ctx.stats["correspondence_breaks"] = len(breaks)
    if breaks and not ctx.violations:
        ctx.report("correspondence", "front-end model and implementation disagree on the outcome; no input violating the property found",
                   {"correspondence": "c05.front vs ConfiguredContext.parse", "first": breaks[0], "count": len(breaks)}, no_failing_input=True)
    elif breaks:
        ctx.stats["correspondence_first"] = breaks[0]["why"]


def strip(impl):
    return {k: v for k, v in impl.items() if k not in ("ast", "result")}


def replay(ctx, body):
    inp = body["input"]
    (impl, _), = front.run_many(ctx.tmp, [{"files": inp["files"], "root": inp["root"], "configured": bool(inp.get("configured"))}], per_input_timeout=20)
    print(json.dumps(strip(impl), indent=1)[:3000])
    return impl["kind"] in ("ok", "diags", "raised", "file-not-found") and not positions_ok(inp["files"], impl)
