"""C10 — output is a pure function of IDL and configuration (deterministic, history-free).

Proof: `Props/C10.lean` over `Sys/Api.lean`: a stable sort by a total antisymmetric order forgets the
iteration order of a set (`set_order_irrelevant`; the pinned tree's case-insensitive `| sort` does not:
`legacy_sort_leaks_order`); one API object as a state machine — from any state every generate call
equals the fresh-process result (`generate_history_free`, full statement after the repair;
`config_leak_counterexample` is the pinned tree's generate), counterexample for the accumulating report
(known finding); disjoint writes commute (`target_order_irrelevant`).

Generated obligation (every run): the `for` loops of all live templates (Jinja ASTs through each
generator's own preprocessing) with the set-typed attributes of the marshalling classes; Lean re-proves
`allSetLoopsSorted facts` by `decide`. Dynamic companion: no template loop ever receives a raw `set`.

Tie (every run): (i) the model's sort pipelines vs jinja's `do_sort` on include-like strings;
(ii) the real API in fresh processes under several PYTHONHASHSEED values: {path: sha256} of all targets,
report, diagnostics (class, position, text) must be equal — for accepted inputs and for *refused* ones
(>= 2 targets without their glue generator section, several invalid configuration values, generate for
unconfigured / unknown targets, several IDL errors spread over files; set-typed option `default_deriving`);
the targets each context configures and which "Missing configuration" refusal it gets are predicted by
the model (`c10.refusal`: registry order filtered by membership, `refusal_set_order_irrelevant`); accepted cases
are also generated with the targets in reverse order (same bytes); a third of the programs (and a seed-independent
corpus program) carry *explicit target lists that leave several targets* — on inline function types
(`function +java +cpp (…)`, `function -objc (…)`, `+any -x`, repeated flags, inclusions and exclusions mixed: the list is
written into the synthetic name of the type, hence into file names and include lines), on records and interfaces — and
refused programs carry several *unknown* targets in one list (order of the diagnostics); the model (`c10.targets`:
`targetsOrKeys`, `evalFlags_plus_written_order`, `evalFlags_minus_registry_order`; `targets_bySet_leak_order` is the
counterexample for a computation through a set) predicts every such list, order included, and the declarations every
parse hands to the generators are compared with it under every hash seed; (iii) generated histories on one API
object (context reuse, equal and different configurations interleaved, permuted order of all five targets,
repeated generation, reports, *regeneration* after an edit that keeps every rendered length — members of all
declarations permuted, same output directory —, sequences of parses of projects in different directories whose
`@import` / `@extern` names exist next to the importer, in an include directory of some context, in another
project's directory only, or in several of these) vs fresh-process baselines for every (configuration,
program, target). Every history program carries documented declarations (Markdown with `@param` over
multi-word names in several spellings, `@returns`, `@throws`, `@deprecated`): state attached to a parse
result that every target's renderer reads. The model (`c10.run`) predicts which parses are refused, the
written paths of every call and which calls equal the baseline; equal content identity => equal digest.
A failing call is minimised (calls are removed while the difference stays) and keyed by the shape of
the minimal history. Probe: the validated configuration of every context is the same after the last call.

(iv) Reserved-identifier stream: programs whose field / parameter / method / enum item / namespace names are one-word
identifiers that the live keyword tables reserve in a *proper subset* of the target languages (every language the only
reserving one in turn, words shared by several languages, two words with different language sets), generated from one
parse in several orders of all targets (forward, reversed, rotated, shuffled, alternating between two parses of the
same file) and target by target in fresh processes: for every target the written files *and the diagnostic* must be the
fresh-process ones, whichever targets ran before (keys as for the histories, e.g. `history:generate-after-generate`).

Specification on the implementation's observation: same (files, configuration, target) => same
{path: digest} and same diagnostics, whatever the hash seed and the call history; the target list of a declaration
(and the leading part of an inline function type's name) is the one the flags spell, in the order they spell it.
"""
from __future__ import annotations

import functools
import json
import random
import re

import common
import sysgen

LEAN_MODULE = "PydjinniModel.Props.C10"
THEOREMS = [
    "Pydjinni.SysC.leL_total",
    "Pydjinni.SysC.leL_trans",
    "Pydjinni.SysC.leL_antisymm",
    "Pydjinni.SysC.isort_perm",
    "Pydjinni.SysC.isort_sorted",
    "Pydjinni.SysC.isort_eq_of_perm",
    "Pydjinni.SysC.jinjaSortTotal_perm",
    "Pydjinni.SysC.set_order_irrelevant",
    "Pydjinni.SysC.legacy_sort_leaks_order",
    "Pydjinni.SysC.sorted_loops_order_irrelevant",
    "Pydjinni.SysC.configuredTargets_perm",
    "Pydjinni.SysC.refusal_set_order_irrelevant",
    "Pydjinni.SysC.evalFlags_plus_written_order",
    "Pydjinni.SysC.evalFlags_minus_registry_order",
    "Pydjinni.SysC.evalFlags_sublist",
    "Pydjinni.SysC.targets_bySet_leak_order",
    "Pydjinni.SysC.bySet_leaks_order",
    "Pydjinni.SysC.refusal_none_iff",
    "Pydjinni.SysC.wellConfigured_iff_no_refusal",
    "Pydjinni.SysC.generateGens_genCfg",
    "Pydjinni.SysC.generateGens_state_irrelevant",
    "Pydjinni.SysC.generate_history_free",
    "Pydjinni.SysC.runCalls_fromWorld",
    "Pydjinni.SysC.generate_history_free_run",
    "Pydjinni.SysC.rejected_parse_keeps_results",
    "Pydjinni.SysC.written_paths_forget_disk",
    "Pydjinni.SysC.generate_disk_history_free",
    "Pydjinni.SysC.fingerprint_skip_keeps_stale_content",
    "Pydjinni.SysC.config_leak_counterexample",
    "Pydjinni.SysC.report_accumulates_counterexample",
    "Pydjinni.SysC.applyWrites_comm",
    "Pydjinni.SysC.target_order_irrelevant",
]
LEVEL = "proof"
TRUSTED = ["template fact extractor (Jinja AST walk + return annotations of the marshalling properties); complemented by a run-time probe on jinja's LoopContext",
           "sysworker.py adapter; digests are taken after replacing the sandbox root in the bytes (imported files are named by absolute path in the banner)"]

HASHSEEDS_QUICK = ["0", "1", "2", "3"]
H_TARGETS = ["cpp", "java", "yaml", "objc", "cppcli"]


# ---------------------------------------------------------------------------------------------------
# translator: template facts
# ---------------------------------------------------------------------------------------------------

def template_facts():
    """every `for` loop of every template of every generator of the implementation under test"""
    import inspect
    from jinja2 import nodes
    from pydjinni import API
    from pydjinni.parser import ast as A, base_models as B
    api = API()

    def is_set(a):
        s = str(a).replace("typing.", "")
        return s.split("|")[0].strip().lower().startswith(("set[", "set", "frozenset"))

    setattrs = set()
    for t in api.generation_targets.values():
        for g in t.generator_instances:
            for cls in set(g.marshal_models.values()):
                for klass in cls.__mro__:
                    for n, v in vars(klass).items():
                        f = v.fget if isinstance(v, property) else v.func if isinstance(v, functools.cached_property) else None
                        r = getattr(f, "__annotations__", {}).get("return") if f is not None else None
                        if r is not None and is_set(r):
                            setattrs.add(n)
    for mod in (A, B):
        for c in vars(mod).values():
            if inspect.isclass(c) and hasattr(c, "model_fields"):
                for fn, fi in c.model_fields.items():
                    if is_set(fi.annotation):
                        setattrs.add(fn)
    rows = []
    for t in api.generation_targets.values():
        for g in t.generator_instances:
            tdir = g._generator_directory / "templates"
            for p in sorted(tdir.rglob("*")):
                if not p.is_file():
                    continue
                rel = p.relative_to(tdir)
                tree = g._jinja_env.parse(g.template_preprocessing(rel))
                for f in tree.find_all(nodes.For):
                    it, filters = f.iter, []
                    while isinstance(it, nodes.Filter):
                        name = it.name
                        for kw in it.kwargs:
                            if kw.key == "case_sensitive" and isinstance(kw.value, nodes.Const) and kw.value.value is True:
                                name += ":case_sensitive"
                        if it.args:
                            name += ":args"
                        filters.append(name)
                        it = it.node
                    chain, x = [], it
                    while isinstance(x, nodes.Getattr):
                        chain.append(x.attr)
                        x = x.node
                    chain.append(x.name if isinstance(x, nodes.Name) else "?" + type(x).__name__)
                    chain.reverse()
                    rows.append({"generator": g.key, "template": str(rel), "iter": ".".join(chain), "overSet": chain[-1] in setattrs, "filters": filters})
    return rows, sorted(setattrs)


def lean_str(s):
    return '"' + s.replace("\\", "\\\\").replace('"', '\\"') + '"'


def facts_lean(rows):
    items = ",\n  ".join(
        "{ generator := %s, template := %s, iter := %s, overSet := %s, filters := [%s] }" % (
            lean_str(r["generator"]), lean_str(r["template"]), lean_str(r["iter"]), "true" if r["overSet"] else "false",
            ", ".join(lean_str(f) for f in r["filters"])) for r in rows)
    nset = sum(1 for r in rows if r["overSet"])
    return f"""import PydjinniModel.Sys.Api
open Pydjinni.SysC
/-! generated from the live templates by harness/props/c10.py — do not edit -/
def facts : List LoopFact := [
  {items}]
/-- not vacuous: the number of loops over set-typed attributes -/
example : (facts.filter (·.overSet)).length = {nset} := by decide
/-- every template loop over a set goes through the total sort -/
example : allSetLoopsSorted facts = true := by decide
"""


# ---------------------------------------------------------------------------------------------------
# inputs
# ---------------------------------------------------------------------------------------------------

CASE_CORPUS = {
    "proj/main.pydjinni": "Foo = record { a: i32; }\nfoo = record { b: i32; }\nfOO = record { c: i32; }\nFOo = record { d: i32; }\n"
                          "user = record { x: Foo; y: foo; z: fOO; w: FOo; }\n"
                          "svc = interface +cpp { m0(p0: Foo, p1: foo, p2: fOO) -> FOo; }\n",
}


def case_options():
    return {"generate": {
        "cpp": {"out": "gen/cpp", "identifier": {"file": "none"}},
        "java": {"out": "gen/java", "package": "foo.bar"},
        "jni": {"out": "gen/jni", "namespace": "pj::jni", "identifier": {"file": {"style": "none", "prefix": "jni_"}}},
        "objc": {"out": "gen/objc", "identifier": {"type": "none"}},
        "objcpp": {"out": "gen/objcpp", "namespace": "pj::objcpp"},
        "cppcli": {"out": "gen/cppcli", "namespace": "Pj::Cli", "identifier": {"file": "none"}},
        "yaml": {"out": "gen/yaml"},
        "list_processed_files": "processed.json"}}


# explicit target lists that leave several targets: every form, on inline function types (several per interface, equal
# signatures under different lists), records, interfaces and a named function
TARGET_LIST_CORPUS = {
    "proj/main.pydjinni": "shape = record +objc +cpp +java { w: i32; h: i32; } deriving(eq)\n"
                          "namespace ui_kit {\n"
                          "  painter = interface +java +cpp {\n"
                          "    on_draw(cb: function +objc +java +cpp (s: shape) -> bool);\n"
                          "    on_key(cb: function +cpp +java (code: i32, down: bool));\n"
                          "    on_key_rev(cb: function +java +cpp (code: i32, down: bool));\n"
                          "    on_text(cb: function -yaml (t: string) -> i32);\n"
                          "    on_idle(cb: function +any -cppcli -objc ());\n"
                          "    on_move(cb: function +cppcli +cpp +cppcli +yaml (dx: f64, dy: f64));\n"
                          "    on_drop(cb: function +java +objc -java +cpp (n: i64) -> string);\n"
                          "  }\n"
                          "}\n"
                          "hub = interface -yaml -cppcli { add(p: ui_kit.painter); }\n"
                          "compare = function +objc +cpp (a: shape, b: shape) -> bool;\n",
}
TARGET_LIST_CORPUS_SITES = [
    {"kind": "record", "q": "shape", "flags": ["+objc", "+cpp", "+java"]},
    {"kind": "interface", "q": "ui_kit.painter", "flags": ["+java", "+cpp"]},
    {"kind": "inline", "q": None, "flags": ["+objc", "+java", "+cpp"]},
    {"kind": "inline", "q": None, "flags": ["+cpp", "+java"]},
    {"kind": "inline", "q": None, "flags": ["+java", "+cpp"]},
    {"kind": "inline", "q": None, "flags": ["-yaml"]},
    {"kind": "inline", "q": None, "flags": ["+any", "-cppcli", "-objc"]},
    {"kind": "inline", "q": None, "flags": ["+cppcli", "+cpp", "+cppcli", "+yaml"]},
    {"kind": "inline", "q": None, "flags": ["+java", "+objc", "-java", "+cpp"]},
    {"kind": "interface", "q": "hub", "flags": ["-yaml", "-cppcli"]},
    {"kind": "function", "q": "compare", "flags": ["+objc", "+cpp"]},
]


def full_run_job(files, root, opts, targets):
    calls = [{"op": "parse", "ctx": 0, "idl": root}] + [{"op": "generate", "gc": 0, "target": t} for t in targets] + [{"op": "report", "gc": 0}]
    return {"files": files, "cwd": ".", "contexts": [opts], "calls": calls, "normalized": True}


def seed_cases(ctx):
    cases = [(full_run_job(CASE_CORPUS, "proj/main.pydjinni", case_options(), list(sysgen.TARGETS)),
              {"kind": "corpus: headers that differ only in letter case", "targets": list(sysgen.TARGETS)}),
             (full_run_job(TARGET_LIST_CORPUS, "proj/main.pydjinni", case_options(), list(sysgen.TARGETS)),
              {"kind": "corpus: explicit target lists", "targets": list(sysgen.TARGETS), "target_sites": TARGET_LIST_CORPUS_SITES,
               "features": ["callback:explicit-targets"]})]
    for i in range(ctx.n(14, 200)):
        r = random.Random(f"{ctx.seed}/c10/seeds/{i}")
        stress = r.choice(["plain", "mixed", "case", "anon"])
        pg = sysgen.ProgGen(r, stress=stress if stress != "case" else "mixed", case_names=(stress == "case"), multi_file=r.random() < 0.3,
                            with_extern=r.random() < 0.2, max_decls=r.choice([4, 7]), fn_targets=(i % 3 == 2))
        prog = pg.program()
        targets = list(sysgen.TARGETS)
        opts = sysgen.make_options(r, targets, out_kind="rel", naming=r.choice(["default", "random"]), report="processed.yaml")
        if i % 5 == 4:
            # a set-typed configuration value
            opts["generate"]["default_deriving"] = r.choice([["eq"], ["eq", "ord"], ["ord", "eq"]])
        files = dict(prog["files"])
        if i % 2 == 1:
            # documented declarations: Markdown tokens attached to the parse result, rendered by every target
            files[prog["root"]] += render_doc(doc_decls(r, "doc_s"))
            prog["features"] = sorted(set(prog["features"]) | {"documented"})
        if i % 7 == 3:
            # a program with diagnostics: the same errors, in the same order, under every seed
            files[prog["root"]] += "\nbroken = record { a: no_such_type; b: list<also_missing>; }\n"
        cases.append((full_run_job(files, prog["root"], opts, targets), {"kind": "random:" + stress, "targets": targets, "features": prog["features"],
                                                                       "target_sites": prog.get("target_sites", [])}))
    return cases


GLUE = {"java": "jni", "objc": "objcpp"}
BAD_VALUES = [("cpp", "out", None), ("java", "package", None), ("java", "identifier", {"type": "no_such_style"}), ("jni", "namespace", None),
              ("objc", "out", None), ("objcpp", "namespace", None), ("cppcli", "namespace", None), ("yaml", "out", None),
              ("cpp", "no_such_option", 1), ("jni", "identifier", {"file": {"style": "sideways"}})]


def refused_cases(ctx):
    """Inputs the tool *refuses*: the refusal (which diagnostic, for which key, where) is part of the observable output
    and has to be the same in every process. One case = files x options x calls whose outcome is a diagnostic:
      missing-glue        >= 1 (mostly >= 2) configured targets lack the section of their glue generator -> `parse` refuses
      invalid-values      several sections carry invalid / missing values                            -> `configure` refuses
      generate-unconfigured  complete configuration, `generate` for targets that are not configured / unknown
      broken-idl          several unresolvable references / duplicate declarations spread over the files of a program
      unknown-targets     declarations whose target list names >= 2 unknown targets (one diagnostic each, in the order written)"""
    cases = []
    for i in range(ctx.n(16, 100)):
        r = random.Random(f"{ctx.seed}/c10/refused/{i}")
        kind = ["missing-glue", "missing-glue", "invalid-values", "generate-unconfigured", "broken-idl", "unknown-targets"][i % 6]
        pg = sysgen.ProgGen(r, stress="plain", multi_file=(kind == "broken-idl" and r.random() < 0.6), max_decls=r.choice([2, 4]))
        prog = pg.program()
        files = dict(prog["files"])
        targets = r.sample(sysgen.TARGETS, r.choice([2, 3, 4, 5]))
        if kind == "missing-glue":
            for t in r.sample(list(GLUE), r.choice([1, 2, 2, 2])):
                if t not in targets:
                    targets.append(t)
            r.shuffle(targets)
        opts = sysgen.make_options(r, targets, out_kind="rel", naming="default", report="processed.json", extras=False)
        gen = opts["generate"]
        # the order in which the sections are written down is part of the input; it must not matter either way
        order = list(gen)
        r.shuffle(order)
        opts = {"generate": {k: gen[k] for k in order}}
        gen = opts["generate"]
        calls = [{"op": "parse", "ctx": 0, "idl": prog["root"]}]
        meta = {"kind": "refused:" + kind, "targets": targets, "features": []}
        if kind == "missing-glue":
            glue_targets = [t for t in targets if t in GLUE]
            drop = r.sample(glue_targets, r.choice([len(glue_targets), len(glue_targets), 1]))
            for t in drop:
                gen.pop(GLUE[t], None)
            meta["features"] = [f"targets-without-glue:{len(drop)}"]
        elif kind == "invalid-values":
            n = 0
            for sec, key, val in r.sample(BAD_VALUES, len(BAD_VALUES)):
                if sec in gen and n < 3:
                    if val is None:
                        gen[sec].pop(key, None)
                    else:
                        gen[sec][key] = val
                    n += 1
            meta["features"] = [f"invalid-values:{n}"]
        elif kind == "generate-unconfigured":
            others = [t for t in sysgen.TARGETS if t not in targets] + ["swift", ""]
            calls += [{"op": "generate", "gc": 0, "target": t} for t in r.sample(others, min(2, len(others)))]
            calls += [{"op": "generate", "gc": 0, "target": targets[0]}]
        elif kind == "unknown-targets":
            fs = sorted(files)
            n = 0
            for k in range(r.choice([2, 3, 4])):
                unknown = r.sample(["zig", "rust", "swift", "kotlin", "lua", "go", "dart", "perl"], r.choice([2, 2, 3]))
                flags = ["+" + u for u in unknown] + ["+" + t for t in r.sample(["cpp", "java", "objc"], r.choice([0, 1, 2]))]
                r.shuffle(flags)
                if r.random() < 0.25:
                    flags.append("-" + r.choice(["yaml", "cpp"]))
                fl = " ".join(flags)
                n += len(unknown)
                files[r.choice(fs)] += r.choice([f"\nbad_if{k} = interface {fl} {{ m0(); }}\n", f"\nbad_rec{k} = record {fl} {{ a: i32; }}\n",
                                                 f"\nbad_holder{k} = interface +cpp {{ m0(cb: function {fl} (x: i32) -> bool); }}\n",
                                                 f"\nbad_fn{k} = function {fl} (x: i32);\n"])
            meta["features"] = [f"unknown-targets:{n}"]
        else:
            fs = sorted(files)
            for k in range(r.choice([2, 3])):
                f = r.choice(fs)
                files[f] += r.choice([f"\nbroken{k} = record {{ a: no_such_type{k}; b: list<also_missing>; }}\n",
                                      f"\ndup{k} = enum {{ item_a; }}\ndup{k} = enum {{ item_b; }}\n",
                                      f"\nnamespace lost {{ holder{k} = interface +cpp {{ m0(p0: .nowhere.t{k}) -> missing_ret; }} }}\n"])
            meta["features"] = [f"broken-files:{len(fs)}"]
        cases.append(({"files": files, "cwd": ".", "contexts": [opts], "calls": calls, "normalized": True}, meta))
    return cases


def diag_view(rec):
    return [rec["ok"], (rec["exc"] or {}).get("cls"), (rec["exc"] or {}).get("msg"), rec.get("skipped"),
            [(d["cls"], d["file"], d["line"], d["col"], d.get("msg")) for d in rec["diags"]]]


def obs_digest(obs):
    """what C10 observes of one run: {path: digest} of everything written; verdict, exception class, positions and text
    (sandbox root replaced) of every diagnostic of `configure` and of every call; the targets each context configures"""
    files, diags = {}, []
    for rec in obs.get("configure", []):
        diags.append(["configure"] + diag_view(rec))
    for rec in obs["calls"]:
        files.update(rec.get("files", {}))
        diags.append(diag_view(rec))
    return {"files": files, "diags": diags, "configured": [m.get("configured_targets") for m in obs["meta"]]}


def target_list_fails(sites, predicted, rec):
    """the target lists a parse hands to the generators against the lists the flags spell (`predicted`, from the model):
    a named declaration by its qualified name, an inline function type by a declaration that carries the list and whose
    synthetic name starts with `function_<targets…>_` -> (failures, number of sites compared)"""
    fails, n = [], 0
    if not rec.get("ok"):
        return fails, n
    defs = rec.get("defs", [])
    named = {".".join(d["ns"] + [d["name"]]): d for d in defs if not (d["kind"] == "function" and d["anonymous"])}
    inline = [d for d in defs if d["kind"] == "function" and d["anonymous"]]
    for site, want in zip(sites, predicted):
        if site["kind"] == "inline":
            n += 1
            head = "function_" + "_".join(want) + "_"
            if not any(d["targets"] == want and d["name"].startswith(head) for d in inline):
                near = [d for d in inline if sorted(d["targets"]) == sorted(want)]
                fails.append({"site": site, "want": want, "got": [(d["name"], d["targets"]) for d in (near or inline)][:3],
                              "key": "targets:order-not-as-written" if near else "targets:list-differs"})
        elif site["q"] in named:
            n += 1
            got = named[site["q"]]["targets"]
            if got != want:
                fails.append({"site": site, "want": want, "got": got,
                              "key": "targets:order-not-as-written" if sorted(got) == sorted(want) else "targets:list-differs"})
    return fails, n


def quoted_keys(msg):
    """the configuration keys a diagnostic names: last component of every quoted dotted name"""
    import re
    return sorted(q.split(".")[-1] for q in re.findall(r"'([A-Za-z_.]+)'", msg or ""))


# -- documented declarations ------------------------------------------------------------------------

PARAM_WORDS = ["latest_reading", "retry_count", "new_listener", "min_level", "user_id_2", "x", "newValue", "Max_Depth", "HTTP_status", "a_b_c", "flag"]
DOC_TEXTS = ["plain words", "uses `code_span` and *emphasis*", "a [link](https://example.org/a_b) to follow", "**strong** text, with a comma",
             "mentions latest_reading and retry_count in the text", "first line\ncontinued on a second line", "a list:\n\n- first_item\n- second_item"]


def doc_lines(r, ind, commands=()):
    """comment lines: a text (possibly several lines / paragraphs) followed by block commands"""
    out = [f"{ind}# {line}".rstrip() for line in r.choice(DOC_TEXTS).split("\n")]
    for c in commands:
        out.append(f"{ind}# {c}")
    return out


def doc_decls(r: random.Random, tag: str):
    """Documented declarations of every kind: [{"head": lines, "members": [lines], "tail": lines}]. The documentation is
    parsed once per declaration (Markdown tokens attached to the AST node) and rendered by every target: `@param` /
    `@throws` carry a *name* that each renderer converts to its own identifier style — multi-word names in several
    spellings, so that the conversions differ between the targets and are not idempotent."""
    w = lambda: r.choice(DOC_TEXTS[:5])
    dep = lambda p=0.25: ([f"@deprecated {r.choice(['', 'use the other one', 'since 2.0, see other_item'])}".rstrip()] if r.random() < p else [])
    ds = []

    def decl(head, members, tail):
        ds.append({"head": head, "members": members, "tail": tail})
    decl(doc_lines(r, "", dep(0.15)) + [f"{tag}_level = enum {{"],
         [doc_lines(r, "    ", dep()) + [f"    {it};"] for it in r.sample(["low_water", "high_water", "mid", "over_the_top"], r.choice([2, 3]))], ["}"])
    decl(doc_lines(r, "", dep(0.15)) + [f"{tag}_mode = flags {{"],
         [doc_lines(r, "    ", dep()) + [f"    {it};"] for it in r.sample(["read_only", "write_back", "exec"], r.choice([2, 3]))]
         + [["    # everything at once", "    every_mode = all;"]], ["}"])
    fields = r.sample([("sensor_id", "i32"), ("current_level", f"{tag}_level"), ("display_name", "string"), ("measured_ratio", "f64?")], r.choice([2, 3]))
    decl(doc_lines(r, "", dep(0.15)) + [f"{tag}_reading = record {{"],
         [doc_lines(r, "    ", dep()) + [f"    {f}: {t};"] for f, t in fields], ["}" + r.choice(["", " deriving(eq)"])])
    codes = []
    for c in ["not_found", "too_many_requests"][: r.choice([1, 2])]:
        ps = r.sample(PARAM_WORDS, r.choice([0, 1, 2]))
        sig = ("(" + " ".join(f"{p}: {r.choice(['i32', 'string'])}" for p in ps) + ")") if ps else ""
        codes.append(doc_lines(r, "    ", [f"@param {p} {w()}" for p in ps]) + [f"    {c}{sig};"])
    decl(doc_lines(r, "") + [f"{tag}_failure = error {{"], codes, ["}"])
    for k in range(r.choice([1, 2])):
        tg = r.choice([" +cpp", "", " +java", " +objc", " +cppcli"])
        methods = []
        for m in range(r.choice([1, 2, 3])):
            ps = r.sample(PARAM_WORDS, r.choice([1, 2, 3]))
            ret = r.choice(["", " -> bool", f" -> {tag}_reading"])
            thr = r.random() < 0.3
            cmds = [f"@param {p} {w()}" for p in ps]
            if r.random() < 0.3:
                r.shuffle(cmds)
            if ret and r.random() < 0.8:
                cmds.append(f"@returns {w()}")
            if thr:
                cmds.append(f"@throws {tag}_failure {w()}")
            cmds += dep()
            types = [r.choice(["i32", "string", f"{tag}_reading", f"{tag}_level"]) for _ in ps]
            methods.append(doc_lines(r, "    ", cmds) + [f"    on_event_{m}({', '.join(f'{p}: {t}' for p, t in zip(ps, types))}){' throws ' + tag + '_failure' if thr else ''}{ret};"])
        decl(doc_lines(r, "", dep(0.15)) + [f"{tag}_listener{k} = interface{tg} {{"], methods, ["}"])
    ps = r.sample(PARAM_WORDS, 2)
    decl(doc_lines(r, "", [f"@param {p} {w()}" for p in ps] + [f"@returns {w()}"]) + [f"{tag}_combine = function ({ps[0]}: i32, {ps[1]}: string) -> i32;"], [], [])
    return ds


def render_doc(ds, perm: random.Random | None = None) -> str:
    """`perm`: the members of every declaration in another order (each with its documentation)"""
    out = []
    for d in ds:
        ms = list(d["members"])
        if perm is not None and len(ms) > 1:
            first = list(ms)
            while ms == first:
                perm.shuffle(ms)
        out += d["head"] + [line for m in ms for line in m] + d["tail"]
    return "\n".join(out) + "\n"


_BLOCK = re.compile(r"\{([^{}\n]*;[^{}\n]*)\}")


def permute_members(text: str, r: random.Random) -> str:
    """An edit that keeps the length of everything rendered from a declaration: the members of every one-line body
    (`{ a; b; c; }`: enum items, flags, record fields, methods, error codes) in another order."""
    def sub(m):
        ms = [x.strip() for x in m.group(1).split(";") if x.strip()]
        if len(ms) > 1:
            first = list(ms)
            while ms == first:
                r.shuffle(ms)
        return "{ " + " ".join(x + ";" for x in ms) + " }"
    return _BLOCK.sub(sub, text)


# -- projects in different directories that import equally named files ---------------------------------

WS_DIRS = ["wsA", "wsB", "wsC"]
INC_DIRS = ["incX", "incY"]


def import_projects(r: random.Random):
    """Three projects (`wsA..C/main.pydjinni`) import `shared.pydjinni` and/or pull in `common.yaml`; `shared.pydjinni`
    may import `deep.pydjinni`. Every one of these names exists, with *different* content (the place is written into the
    declared types), in a random non-empty subset of {wsA, wsB, wsC, incX, incY}: next to the importer, in an include
    directory (that some context configures and another does not), only in another project's directory (a fresh
    context cannot resolve it), or in several of them (candidates for shadowing)."""
    files = {}
    places = WS_DIRS + INC_DIRS
    tys = {"wsA": "i8", "wsB": "i16", "wsC": "i32", "incX": "i64", "incY": "string"}
    present = {}
    for name in ("shared.pydjinni", "deep.pydjinni", "common.yaml"):
        ps = [d for d in places if r.random() < 0.45]
        if not ps:
            ps = [r.choice(places)]
        if name == "shared.pydjinni" and not any(d in WS_DIRS for d in ps):
            ps.append(r.choice(WS_DIRS))          # at least one project resolves it next to itself (and so leaves a trace)
        present[name] = ps
    for d in present["deep.pydjinni"]:
        files[f"{d}/deep.pydjinni"] = f"lib_deep = record {{ v: {tys[d]}; from_{d.lower()}: bool; }}\n"
    for d in present["shared.pydjinni"]:
        deep = r.random() < 0.4
        files[f"{d}/shared.pydjinni"] = (('@import "deep.pydjinni"\n' if deep else "")
                                         + f"lib_shared = record {{ key_id: {tys[d]}; from_{d.lower()}: i32;{' d: lib_deep;' if deep else ''} }} deriving(eq)\n")
    for d in present["common.yaml"]:
        files[f"{d}/common.yaml"] = sysgen.extern_yaml("ext_common", []).replace("ext/", f"ext_{d.lower()}/").replace("ext_jni_", f"ext_{d.lower()}_jni_")
    roots = []
    for d in WS_DIRS:
        use_shared = r.random() < 0.8
        use_ext = r.random() < 0.5 or not use_shared
        heads = (['@extern "common.yaml"'] if use_ext else []) + (['@import "shared.pydjinni"'] if use_shared else [])
        tag = d.lower()
        body = [f"user_{tag} = record {{ n: i32;{' k: lib_shared;' if use_shared else ''}{' e: ext_common;' if use_ext else ''} }}",
                f"svc_{tag} = interface +cpp {{ lookup({'key: lib_shared' if use_shared else 'key: i32'}) -> string; }}"]
        files[f"{d}/main.pydjinni"] = "\n".join(heads + body) + "\n"
        roots.append(f"{d}/main.pydjinni")
    return {"files": files, "roots": roots}


def resolve_import(files: dict, importer: str, name: str, include_dirs: list[str]):
    """the documented search order: the literal path (relative to the working directory = sandbox root), the directory of
    the importing file, the configured include directories"""
    import posixpath
    for cand in [name, posixpath.join(posixpath.dirname(importer), name)] + [posixpath.join(i, name) for i in include_dirs]:
        cand = posixpath.normpath(cand)
        if cand in files:
            return cand
    return None


def expect_accepted(files: dict, root: str, include_dirs: list[str]) -> bool:
    """whether every `@import` / `@extern` reachable from `root` resolves (the generator's expectation, used only to decide
    where a history may call `generate`; the verdict compared is that of the fresh-process baseline)"""
    todo, seen = [root], set()
    while todo:
        f = todo.pop()
        if f in seen:
            continue
        seen.add(f)
        for kind, name in re.findall(r'^@(import|extern) "([^"]*)"', files[f], flags=re.M):
            t = resolve_import(files, f, name, include_dirs)
            if t is None:
                return False
            if kind == "import":
                todo.append(t)
    return True


# -- histories ------------------------------------------------------------------------------------

def build_world(r: random.Random, parts, imp, inc_a, inc_b):
    progs, files = [], {}
    for name, (body, docs) in zip(("p", "q"), parts):
        root = f"proj/{name}.pydjinni"
        text = body + render_doc(docs)
        files[root] = text
        progs.append({"root": root, "text": text, "write": {root: text}, "kind": "plain"})
    for j, (body, docs) in enumerate(parts):
        text = permute_members(body, r) + render_doc(docs, perm=r)
        progs.append({"root": progs[j]["root"], "text": text, "write": {progs[j]["root"]: text}, "kind": "edited", "of": j})
    files.update(imp["files"])
    for root in imp["roots"]:
        progs.append({"root": root, "text": imp["files"][root], "write": None, "kind": "imports"})
    a = sysgen.make_options(r, H_TARGETS, out_kind="rel", out_root="genA", naming="default", report="repA.json", extras=False, include_dirs=inc_a)
    b = sysgen.make_options(r, H_TARGETS, out_kind=r.choice(["rel", "split"]), out_root="genB", naming="random", report="repB.json", extras=False, include_dirs=inc_b)
    b["generate"]["cpp"]["namespace"] = "other::space"
    b["generate"]["cpp"]["header_extension"] = "hxx"
    b["generate"]["java"]["package"] = "com.other"
    c = json.loads(json.dumps(a))          # an equal configuration in a context of its own
    incs = [inc_a, inc_b, inc_a]
    expect = {(ci, pj): (expect_accepted(files, p["root"], incs[ci]) if p["kind"] == "imports" else True)
              for ci in range(3) for pj, p in enumerate(progs)}
    return {"progs": progs, "options": [a, b, c], "files": files, "expect": expect}


def make_world(r: random.Random):
    """programs 0, 1: unrelated programs `proj/p`, `proj/q` (generated declarations + documented declarations);
    2, 3: the same files after an edit that permutes the members of every declaration (same output paths, same rendered
    lengths); 4..6: the projects of `import_projects`. Contexts 0 (A), 1 (B: other directories, naming, include
    directories), 2 (a configuration equal to A in a context of its own)."""
    parts = []
    for name in ("p", "q"):
        pg = sysgen.ProgGen(r, stress="plain", max_decls=r.choice([2, 4]))
        parts.append((pg.body(pg.max_decls), doc_decls(r, "doc_" + name)))
    imp = import_projects(r)
    inc_a = r.choice([["incX"], ["incX"], ["incY"], []])
    inc_b = r.choice([["incY", "incX"], ["incX", "incY"], ["incY"]])
    return build_world(r, parts, imp, inc_a, inc_b)


def corpus_world():
    """Seed-independent world of the classes that once went unnoticed: documented multi-word parameter names rendered by
    all targets from one parse; an edit that swaps items; an import that only another project's directory (or an include
    directory *and* another project's directory) can serve. With its histories."""
    r = random.Random("c10/corpus-world")
    doc_p = [{"head": ["# how full", "level = enum {"], "members": [["    # nearly empty", "    low_water;"], ["    mid;"], ["    # nearly full", "    high_water;"]], "tail": ["}"]},
             {"head": ["mode = flags {"], "members": [["    read_only;"], ["    exec;"], ["    write_back;"]], "tail": ["}"]},
             {"head": ["reading = record {"], "members": [["    sensor_id: i32;"], ["    current_level: level;"]], "tail": ["} deriving(eq)"]},
             {"head": ["# receives readings", "listener = interface +cpp {"],
              "members": [["    # called for every reading", "    # @param latest_reading the reading that was just taken", "    # @param retry_count how often the sensor was asked",
                           "    # @returns whether more readings are wanted", "    on_reading(latest_reading: reading, retry_count: i32) -> bool;"],
                          ["    # @param min_level readings below are not reported", "    # @deprecated use on_reading", "    set_level(min_level: level);"]], "tail": ["}"]}]
    doc_q = [{"head": ["failure = error {"], "members": [["    # @param error_code what the device said", "    device_failed(error_code: i32);"], ["    timed_out;"]], "tail": ["}"]},
             {"head": ["hub = interface {"], "members": [["    # @param new_listener the listener to inform", "    # @throws failure when the device is gone",
                                                           "    subscribe(new_listener: i32) throws failure;"], ["    close_all();"]], "tail": ["}"]}]
    files = {"wsA/shared.pydjinni": "lib_shared = record { key_id: i64; scope: string; } deriving(eq)\n",
             "incX/shared.pydjinni": "lib_shared = record { key_id: i32; } deriving(eq)\n",
             "wsA/only_here.pydjinni": "lib_local = enum { one; two; }\n",
             "wsA/main.pydjinni": '@import "shared.pydjinni"\n@import "only_here.pydjinni"\nuser_a = record { k: lib_shared; l: lib_local; }\n',
             "wsB/main.pydjinni": '@import "shared.pydjinni"\nuser_b = record { k: lib_shared; }\nsvc_b = interface +cpp { lookup(key: lib_shared) -> string; }\n',
             "wsC/main.pydjinni": '@import "only_here.pydjinni"\nuser_c = record { l: lib_local; }\n'}
    world = build_world(r, [("", doc_p), ("", doc_q)], {"files": files, "roots": ["wsA/main.pydjinni", "wsB/main.pydjinni", "wsC/main.pydjinni"]}, ["incX"], ["incX"])
    hists = [("corpus:objc-first", [("parse", 0, 0), ("generate", 0, "objc"), ("generate", 0, "cpp"), ("generate", 0, "java"), ("generate", 0, "cppcli"), ("generate", 0, "yaml")]),
             ("corpus:regenerate", [("parse", 0, 0), ("generate", 0, "cpp"), ("generate", 0, "java"), ("parse", 0, 2), ("generate", 1, "cpp"), ("generate", 1, "java")]),
             ("corpus:regenerate-other-context", [("parse", 0, 1), ("generate", 0, "objc"), ("parse", 2, 3), ("generate", 1, "objc")]),
             ("corpus:imports", [("parse", 0, 4), ("generate", 0, "cpp"), ("parse", 0, 5), ("generate", 1, "cpp"), ("parse", 0, 6)]),
             ("corpus:imports", [("parse", 1, 6), ("parse", 1, 4), ("parse", 1, 6), ("parse", 1, 5), ("generate", 3, "yaml")])]
    return world, hists


def make_history(r: random.Random, shape: str, world: dict | None = None):
    """calls over contexts 0 (A), 1 (B), 2 (A again) and the programs of the world"""
    t = lambda: r.choice(H_TARGETS)
    expect = (world or {}).get("expect", {})
    if shape == "reuse":
        h = [("parse", 0, 0), ("parse", 0, 1), ("generate", 0, t()), ("generate", 1, t()), ("generate", 0, t()), ("report", 1)]
    elif shape == "equal-config-contexts":
        h = [("parse", 0, 0), ("parse", 2, 1), ("generate", 0, t()), ("generate", 1, t()), ("generate", 0, t())]
    elif shape == "interleaved":
        h = [("parse", 0, 0), ("parse", 1, 1), ("generate", 0, t()), ("generate", 1, t())]
        if r.random() < 0.5:
            h += [("parse", 0, 1), ("generate", 0, t()), ("generate", 2, t())]
    elif shape == "target-order":
        ts = list(H_TARGETS)
        r.shuffle(ts)
        h = [("parse", r.choice([0, 0, 1]), r.choice([0, 1]))] + [("generate", 0, x) for x in ts] + [("generate", 0, ts[0]), ("report", 0)]
    elif shape == "one-at-a-time":
        h = [("parse", 0, 0), ("generate", 0, t())]
    elif shape == "regenerate":
        # generate, edit the IDL file (members permuted: every rendered length stays), generate again into the same directories
        c1, j = r.choice([0, 0, 1]), r.choice([0, 1])
        c2 = 2 if (c1 == 0 and r.random() < 0.35) else c1
        ts = r.sample(H_TARGETS, r.choice([1, 2, 2]))
        h = [("parse", c1, j)] + [("generate", 0, x) for x in ts] + [("parse", c2, j + 2)] + [("generate", 1, x) for x in reversed(ts)]
        if r.random() < 0.4:
            h += [("parse", c1, j), ("generate", 2, ts[0])]
    elif shape == "imports":
        # the projects one after the other on one context (sometimes a second one in between)
        order = [4, 5, 6]
        r.shuffle(order)
        if r.random() < 0.5:
            order.append(r.choice(order[:2]))
        c0 = r.choice([0, 0, 1])
        h, k = [], 0
        for pj in order:
            ci = c0 if r.random() < 0.85 else r.choice([0, 1, 2])
            h.append(("parse", ci, pj))
            if expect.get((ci, pj), True) and r.random() < 0.8:
                h.append(("generate", k, r.choice(["cpp", "cpp", "java", "objc", "yaml"])))
            k += 1
    else:  # random
        h, n, okk = [], 0, []
        nprogs = len((world or {}).get("progs", [0, 1]))
        for _ in range(r.choice([4, 6, 8])):
            if not okk or r.random() < 0.35:
                c = ("parse", r.choice([0, 0, 1, 2]), r.randrange(nprogs))
                h.append(c)
                if expect.get((c[1], c[2]), True):
                    okk.append(n)
                n += 1
            elif r.random() < 0.15:
                h.append(("report", r.choice(okk)))
            else:
                h.append(("generate", r.choice(okk), t()))
    return h


def history_job(world, hist):
    calls = []
    for c in hist:
        if c[0] == "parse":
            p = world["progs"][c[2]]
            calls.append({"op": "parse", "ctx": c[1], "idl": p["root"], **({"write": p["write"]} if p.get("write") else {})})
        elif c[0] == "generate":
            calls.append({"op": "generate", "gc": c[1], "target": c[2]})
        else:
            calls.append({"op": "report", "gc": c[1]})
    return {"files": world["files"], "cwd": ".", "contexts": world["options"], "calls": calls, "normalized": True}


def restrict(hist, k):
    """the calls of a history that concern the k-th parse result only, re-indexed (what a fresh process would run)"""
    out, n = [], -1
    for c in hist:
        if c[0] == "parse":
            n += 1
            if n == k:
                out.append(c)
        elif c[1] == k:
            out.append((c[0], 0) + tuple(c[2:]))
    return out


def sub_history(hist, keep):
    """the calls `keep` (indices) of a history with the parse results re-indexed; None if a kept call needs a dropped parse"""
    parses = [i for i, c in enumerate(hist) if c[0] == "parse"]
    pmap, out = {}, []
    for i in sorted(keep):
        c = hist[i]
        if c[0] == "parse":
            pmap[parses.index(i)] = len(pmap)
            out.append(tuple(c))
        elif c[1] in pmap:
            out.append((c[0], pmap[c[1]]) + tuple(c[2:]))
        else:
            return None
    return out


def parse_view(rec):
    """what a parse shows: verdict, diagnostics (class, position), and the declarations it hands to the generators with
    the file and line they come from (which of several equally named files an import resolved to)"""
    return [rec["ok"], (rec["exc"] or {}).get("cls"), [(d["cls"], d["file"], d["line"], d["col"]) for d in rec["diags"]],
            [(d["name"], ".".join(d["ns"]), d["kind"], d["src"]["file"], d["src"]["line"]) for d in rec.get("defs", [])]]


def classify(hm):
    """the key of a failing call from the *minimal* history that still shows it (last call = the failing one)"""
    last = hm[-1]
    if last[0] == "parse":
        return "history:parse-differs"
    k = last[1]
    parses = [c for c in hm if c[0] == "parse"]
    if any(c[0] == "generate" and c[1] != k for c in hm[:-1]):
        return "history:earlier-output"             # what was generated before for another parse result (files on disk, writer state)
    if any(c[0] == "generate" and c[1] == k for c in hm[:-1]):
        return "history:generate-after-generate"    # another target generated before from the same parse result
    if len(parses) > 1:
        return "history:context-reuse" if any(c[1] == parses[k][1] for i, c in enumerate(parses) if i != k) else "history:other-context"
    return "history:unexplained"


def minimise(ctx, world, hist, idx, differs):
    """drop calls while the last call still `differs(observation of the last call)`; every round tries all single removals in
    parallel (a removed parse takes the calls on its result with it)"""
    h = [tuple(c) for c in hist[: idx + 1]]
    for _ in range(len(h)):
        last = len(h) - 1
        need = {last}
        if h[last][0] != "parse":
            need.add([i for i, c in enumerate(h) if c[0] == "parse"][h[last][1]])
        cands = []
        for i in range(len(h)):
            if i in need:
                continue
            keep = set(range(len(h))) - {i}
            if h[i][0] == "parse":
                k = [j for j, c in enumerate(h) if c[0] == "parse"].index(i)
                keep -= {j for j, c in enumerate(h) if c[0] != "parse" and c[1] == k}
            sh = sub_history(h, keep)
            if sh is not None and len(sh) < len(h):
                cands.append(sh)
        if not cands:
            break
        res = sysgen.run_jobs(ctx, [history_job(world, c) for c in cands], hashseed="0", tag=f"c10m{len(h)}")
        good = [c for c, o in zip(cands, res) if "fatal" not in o and len(o["calls"]) == len(c) and differs(o["calls"][-1])]
        if not good:
            break
        h = min(good, key=len)
    return h


def rel_to(root, paths):
    import os
    return [os.path.relpath(p, root) if os.path.isabs(p) else p for p in paths]


def model_world(world, obs_cfgs, obs_meta, fresh_parse, tables):
    """`fresh_parse`: (context, program) -> observation of a fresh process that only parses. The model's program is the
    program *as resolved under the context's configuration*: index = context * #programs + program."""
    progs = []
    for ci in range(len(world["options"])):
        for pj, p in enumerate(world["progs"]):
            o = fresh_parse.get((ci, pj))
            if o is None:
                progs.append({"id": f"unused-{ci}-{pj}", "reads": [p["root"]], "exts": [], "defs": [], "accepted": False})
                continue
            rec = o["calls"][0]
            reads, exts = rel_to(o["root"], o.get("parsed_idl", [])), rel_to(o["root"], o.get("parsed_ext", []))
            texts = {**world["files"], **(p.get("write") or {})}
            pid = common.sha(json.dumps([[f, common.sha(texts.get(f, ""))] for f in [p["root"]] + reads + exts]))[:12]
            progs.append({"id": pid, "reads": reads or [p["root"]], "exts": exts, "defs": rec.get("defs", []), "accepted": bool(rec["ok"])})
    return {"cfgs": [{"gens": g, "supportLib": m["supportLib"], "report": m["report"]} for g, m in zip(obs_cfgs, obs_meta)],
            "progs": progs, "support": tables["support"]}


def model_calls(hist, nprogs, accepted):
    """-> (calls for `c10.run`, index of the model call for every call of the history | None). The model's `gc` counts
    the accepted parses (a refused parse returns nothing); `accepted`: (context, program) -> verdict of the fresh process"""
    calls, where, mk, n = [], [], {}, 0
    for c in hist:
        if c[0] == "parse":
            k = len(mk)
            if accepted.get((c[1], c[2]), True):
                mk[k] = n
                n += 1
            else:
                mk[k] = None
            where.append(len(calls))
            calls.append({"op": "parse", "ctx": c[1], "prog": c[1] * nprogs + c[2]})
        elif mk.get(c[1]) is None:
            where.append(None)
        else:
            where.append(len(calls))
            calls.append({"op": "generate", "gc": mk[c[1]], "target": c[2]} if c[0] == "generate" else {"op": "report", "gc": mk[c[1]]})
    return calls, where


# ---------------------------------------------------------------------------------------------------
# (K iv) identifiers that only some target languages reserve: outcome per target vs target order
# ---------------------------------------------------------------------------------------------------

def subset_reserved_words():
    """{word: [languages that reserve it]} for every one-word lower-case identifier (same spelling under every default
    identifier style that keeps one-word names) that the live keyword tables reserve in a *proper, non-empty subset* of
    the languages and that the IDL itself does not reserve; and the list of languages"""
    import kwtables
    kw, idl = kwtables.live_tables(), kwtables.idl_keywords()
    words = {}
    for lang, ks in kw.items():
        for k in ks:
            if re.fullmatch(r"[a-z][a-z0-9]*", k) and k not in idl:
                words.setdefault(k, set()).add(lang)
    return {w: sorted(ls) for w, ls in sorted(words.items()) if len(ls) < len(kw)}, sorted(kw)


KW_SITES = ["field", "param", "method", "field+param", "enum-item", "namespace", "two-words"]


def keyword_program(r: random.Random, site: str, w: str, w2: str) -> str:
    other = r.choice(sysgen.WORDS)
    if site == "field":
        return f"kw_rec = record {{ {other}: string; {w}: i32; }}\n"
    if site == "param":
        return f"kw_svc = interface +cpp {{ run_it({other}: i32, {w}: string) -> bool; }}\n"
    if site == "method":
        return f"kw_svc = interface +cpp {{ {other}(); {w}(x: i32); }}\n"
    if site == "field+param":
        return f"kw_rec = record {{ {w}: i32; }} deriving(eq)\nkw_svc = interface +cpp {{ take(v: kw_rec, {w}: i64); }}\n"
    if site == "enum-item":
        return f"kw_en = enum {{ {other}; {w}; }}\nkw_fl = flags {{ {w}; {other}; }}\n"
    if site == "namespace":
        return f"namespace {w} {{ kw_in = record {{ a: i32; }} }}\nkw_user = record {{ v: {w}.kw_in; }}\n"
    # two words, reserved by different language sets, in two declarations
    return f"kw_rec = record {{ {w}: i32; {other}: bool; }}\nkw_other = record {{ {w2}: string; }}\nkw_svc = interface +cpp {{ m({w2}: i32, {w}: i32); }}\n"


def keyword_cases(ctx):
    """[{files, root, opts, words, site, orders}] — one word (two for `two-words`) per program, every language is the only
    reserving one in turn; seed-independent first cases (the corpus of the class), then random ones"""
    words, langs = subset_reserved_words()
    exclusive = {l: [w for w, ls in words.items() if ls == [l]] for l in langs}
    shared = [w for w, ls in words.items() if len(ls) > 1]
    cases = []
    fixed = [(l, exclusive[l][0], "field") for l in langs if exclusive[l]] + [(l, exclusive[l][-1], "param") for l in langs[:2] if exclusive[l]]
    n = max(ctx.n(12, 60), len(fixed))
    for i in range(n):
        r = random.Random(f"{ctx.seed}/c10/keywords/{i}")
        if i < len(fixed):
            lang, w, site = fixed[i]
            r = random.Random(f"c10/keywords/corpus/{i}")
        else:
            lang = langs[i % len(langs)]
            pool = exclusive[lang] if (exclusive[lang] and r.random() < 0.75) else (shared or exclusive[lang])
            w, site = r.choice(pool), KW_SITES[(i // len(langs) + i) % len(KW_SITES)]
        w2 = r.choice([x for x in words if x != w and words[x] != words[w]] or [w])
        root = "proj/kw.pydjinni"
        files = {root: keyword_program(r, site, w, w2)}
        targets = list(sysgen.TARGETS)
        opts = sysgen.make_options(r, targets, out_kind="rel", naming="default" if i % 4 else "random", report="processed.json", extras=False)
        fwd = list(targets)
        k = 1 + i % (len(targets) - 1)
        shuffled = list(targets)
        r.shuffle(shuffled)
        orders = [("forward", fwd), ("reversed", fwd[::-1]), ("rotated", fwd[k:] + fwd[:k]), ("shuffled", shuffled)]
        cases.append({"files": files, "root": root, "opts": opts, "words": {x: words[x] for x in ({w, w2} if site == "two-words" else {w})},
                      "site": site, "orders": orders, "targets": targets})
    return cases


def keyword_history(order_name, ts):
    """one parse, the targets in the given order; `two-parses`: the same file parsed twice on one context, the targets
    alternate between the two results (what an earlier generation *in the process* leaves behind)"""
    if order_name == "two-parses":
        return [("parse", 0, 0), ("parse", 0, 0)] + [("generate", j % 2, t) for j, t in enumerate(ts)]
    return [("parse", 0, 0)] + [("generate", 0, t) for t in ts]


def keyword_job(case, hist):
    calls = [{"op": "parse", "ctx": 0, "idl": case["root"]} if c[0] == "parse" else {"op": "generate", "gc": c[1], "target": c[2]} for c in hist]
    return {"files": case["files"], "cwd": ".", "contexts": [case["opts"]], "calls": calls, "normalized": True}


def gen_view(rec):
    return [rec.get("files", {}), diag_view(rec)]


def evaluate_keyword_cases(ctx, cases):
    """specification: what `generate(t)` does (files written, diagnostic) for a program is what a fresh process that
    generates only `t` does — whichever targets were generated before from the same parse / in the same process"""
    jobs, index = [], []
    for ci, case in enumerate(cases):
        for t in case["targets"]:
            index.append((ci, "alone", t))
            jobs.append(keyword_job(case, keyword_history("alone", [t])))
        for name, ts in case["orders"] + [("two-parses", case["orders"][ci % len(case["orders"])][1])]:
            index.append((ci, name, ts))
            jobs.append(keyword_job(case, keyword_history(name, ts)))
    res = sysgen.run_jobs(ctx, jobs, hashseed="0", tag="c10k")
    alone = {}
    for (ci, name, t), o in zip(index, res):
        if "fatal" in o:
            raise RuntimeError(f"worker failed: {o['fatal']}")
        if name == "alone":
            alone[(ci, t)] = o["calls"][-1]
    reported = set()
    for (ci, name, ts), o in zip(index, res):
        case = cases[ci]
        if name == "alone":
            continue
        if not o["calls"][0]["ok"]:
            raise RuntimeError(f"keyword program rejected by the front end: {case['files']} {o['calls'][0]['exc']}")
        hist = keyword_history(name, ts)
        refused = sorted(t for t in case["targets"] if not alone[(ci, t)]["ok"])
        ctx.count(key=json.dumps(["keywords", case["site"], sorted(map(tuple, case["words"].values())), name, refused]),
                  nontrivial=0 < len(refused) < len(case["targets"]),
                  sample={"idl": case["files"][case["root"]], "reserved_in": case["words"], "order": ts, "targets_refusing_alone": refused})
        ctx.stat("keyword_orders")
        ctx.stat("keyword_site_" + case["site"])
        for t in refused:
            ctx.stat("keyword_refused_by_" + t)
        for idx, (c, rec) in enumerate(zip(hist, o["calls"])):
            if c[0] != "generate":
                continue
            b = alone[(ci, c[2])]
            ctx.stat("keyword_generate_calls")
            if not b["ok"] and any(alone[(ci, x[2])]["ok"] for x in hist[:idx] if x[0] == "generate"):
                ctx.stat("keyword_refusing_target_after_an_accepting_one")
            if gen_view(rec) == gen_view(b):
                continue
            key = classify([tuple(x) for x in hist[: idx + 1]])
            if (ci, key) in reported:
                continue
            reported.add((ci, key))
            differing = sorted(p for p in set(b.get("files", {})) | set(rec.get("files", {})) if b.get("files", {}).get(p) != rec.get("files", {}).get(p))
            before = [x[2] for x in hist[:idx] if x[0] == "generate"]
            ctx.report(key, f"generate('{c[2]}') after generating {before} in the same process differs from a fresh process that generates only '{c[2]}' "
                            f"(program with the identifier(s) {case['words']} — word: languages that reserve it — at site '{case['site']}'): "
                            f"here ok={rec['ok']} {json.dumps((rec['exc'] or {}).get('msg'))[:160]} writing {len(rec.get('files', {}))} file(s), "
                            f"alone ok={b['ok']} {json.dumps((b['exc'] or {}).get('msg'))[:160]} writing {len(b.get('files', {}))} file(s); differing paths {differing[:3]}",
                       {"kind": "keywords", "case": case, "order": name, "targets": ts, "call": idx, "differing": differing[:10]})
    ctx.stats["keyword_programs"] = len(cases)


# ---------------------------------------------------------------------------------------------------

def run(ctx):
    ctx.coverage["rule"] = ("seeds: one case = program x configuration run under every hash seed; histories: one case = call history on one API object "
                            "vs fresh-process baselines; distinct = distinct (kind, feature set) resp. distinct history (shape + calls); "
                            "non-trivial = more than one seed / more than one call after the first parse")
    tables = sysgen.live_tables(ctx)

    # ---- (G) template facts --------------------------------------------------------------------
    rows, setattrs = template_facts()
    ok, out = common.lean_check_file(facts_lean(rows), "C10_template_facts")
    ctx.obligation("TemplateFacts: every `for` over a set-typed attribute passes through a sort by a total order, `sort(case_sensitive=true) [| sort]` (allSetLoopsSorted, decide)",
                   ok, kind="generated", detail=out if not ok else f"{len(rows)} loops, {sum(r['overSet'] for r in rows)} over sets; set-typed attributes: {setattrs}")
    ctx.stats["template_loops"] = len(rows)
    ctx.stats["template_loops_over_sets"] = sum(r["overSet"] for r in rows)
    unsorted = [r for r in rows if r["overSet"] and r["filters"] not in (["sort", "sort:case_sensitive"], ["sort:case_sensitive"])]

    # ---- (K i) sort pipelines vs jinja ----------------------------------------------------------
    import jinja2
    from jinja2.filters import do_sort
    env = jinja2.Environment()
    r = random.Random(f"{ctx.seed}/c10/sort")
    reqs, lists = [], []
    stems = ["foo", "Foo", "FOO", "fOo", "bar", "Bar", "a/b", "a/B", "A/b", "pydjinni/x", "z9", "Z9", "_x", "<vector>", "<Vector>"]
    for i in range(ctx.n(400, 4000)):
        k = r.randrange(0, 7)
        items = r.sample(stems, min(k, len(stems)))
        items = [f'"{s}.hpp"' if not s.startswith("<") else s for s in items]
        r.shuffle(items)
        lists.append(items)
        reqs.append({"op": "c10.sort", "items": items})
    sort_breaks = []
    for items, a in zip(lists, ctx.driver.batch(reqs)):
        legacy = do_sort(env, items)
        total = do_sort(env, do_sort(env, items, case_sensitive=True))
        ctx.count(key=("sort", tuple(sorted(items))), nontrivial=len(items) > 1)
        if a.get("legacy") != legacy or a.get("total") != total:
            sort_breaks.append({"items": items, "model": a, "jinja": {"legacy": legacy, "total": total}})
    ctx.stats["sort_lists"] = len(lists)

    # ---- (K ii) hash seeds ------------------------------------------------------------------------
    cases = seed_cases(ctx) + refused_cases(ctx)
    seeds = HASHSEEDS_QUICK if ctx.quick else [str(i) for i in range(16)]
    from concurrent.futures import ThreadPoolExecutor
    with ThreadPoolExecutor(max_workers=4) as ex:      # the seeds side by side (each run is a set of worker processes of its own)
        futs = {s: ex.submit(sysgen.run_jobs, ctx, [c[0] for c in cases], 8, s, 600, "c10s") for s in seeds}
        per_seed = {s: f.result() for s, f in futs.items()}
    # the accepted cases once more with the targets in reverse order (same hash seed): same bytes, same diagnostics per target
    rev_idx = [i for i, (job, meta) in enumerate(cases) if not meta["kind"].startswith("refused:")]
    rev_jobs = []
    for i in rev_idx:
        job = cases[i][0]
        gens = [c for c in job["calls"] if c["op"] == "generate"]
        rev_jobs.append({**job, "calls": [c for c in job["calls"] if c["op"] == "parse"] + gens[::-1] + [c for c in job["calls"] if c["op"] == "report"]})
    rev_res = sysgen.run_jobs(ctx, rev_jobs, hashseed=seeds[0], tag="c10o")
    for i, job, o in zip(rev_idx, rev_jobs, rev_res):
        if "fatal" in o:
            raise RuntimeError(f"worker failed: {o['fatal']}")
        fwd = per_seed[seeds[0]][i]
        if "fatal" in fwd:
            continue
        ctx.stat("target_order_reversed_runs")

        def per_target(j, ob):
            return {c.get("target", c["op"]): (rec.get("files", {}), diag_view(rec)) for c, rec in zip(j["calls"], ob["calls"])}
        a, b = per_target(cases[i][0], fwd), per_target(job, o)
        bad = sorted(t for t in a if a[t] != b.get(t))
        if bad:
            t = bad[0]
            differing = sorted(p for p in set(a[t][0]) | set(b[t][0]) if a[t][0].get(p) != b[t][0].get(p))
            ctx.report("nondeterministic:target-order",
                       f"generating the targets {[c['target'] for c in job['calls'] if c['op'] == 'generate']} instead of the reverse order changes what "
                       f"'{t}' produces ({len(differing)} file(s) differ, first {differing[:3]})" if differing else
                       f"generating the targets in reverse order changes the diagnostics of '{t}': {json.dumps(a[t][1])[:200]} vs {json.dumps(b[t][1])[:200]}",
                       {"job": job, "forward": cases[i][0], "meta": cases[i][1], "seed": seeds[0], "differing": differing[:10], "kind": "order"})
    rawset = 0
    refusal_reqs, refusal_meta, refusal_breaks = [], [], []
    # the target list every flag list spells (model), for the programs that carry explicit lists
    site_cases = [i for i, (job, meta) in enumerate(cases) if meta.get("target_sites")]
    site_answers = ctx.driver.batch([{"op": "c10.targets", "keys": list(tables["targets"]), "sites": [x["flags"] for x in cases[i][1]["target_sites"]]}
                                     for i in site_cases])
    predicted_lists = {}
    for i, a in zip(site_cases, site_answers):
        if "error" in a:
            raise RuntimeError(f"driver error {a}")
        predicted_lists[i] = a["targets"]
    for i, (job, meta) in enumerate(cases):
        views = {}
        for s in seeds:
            o = per_seed[s][i]
            if "fatal" in o:
                raise RuntimeError(f"worker failed: {o['fatal']}")
            rawset += o.get("rawset_loops", 0)
            views[s] = obs_digest(o)
        ctx.count(key=json.dumps(["seeds", meta["kind"], meta.get("features", [])]), nontrivial=True,
                  sample={"kind": meta["kind"], "files": len(views[seeds[0]]["files"]), "seeds": len(seeds)})
        ctx.stat("seed_runs", len(seeds))
        ctx.stat("seed_files_compared", len(views[seeds[0]]["files"]) * len(seeds))
        base = views[seeds[0]]
        if i in predicted_lists:
            # ---- specification + correspondence: the lists are the ones the flags spell, in that order, under every seed
            ctx.stat("programs_with_explicit_target_lists")
            for s in seeds:
                tf, nsites = target_list_fails(meta["target_sites"], predicted_lists[i], per_seed[s][i]["calls"][0])
                ctx.stat("target_lists_compared", nsites)
                ctx.stat("inline_function_target_lists_compared", sum(1 for x in meta["target_sites"] if x["kind"] == "inline") if nsites else 0)
                if tf:
                    f = tf[0]
                    ctx.report(f["key"], f"under PYTHONHASHSEED={s} the {f['site']['kind']} declaration {f['site']['q'] or ''} written with the targets "
                                         f"'{' '.join(f['site']['flags'])}' carries {json.dumps(f['got'])[:200]}; the flags spell {f['want']} "
                                         f"(for an inline function type this list is part of its name, hence of file names and include lines)",
                               {"job": job, "meta": meta, "seeds": [s, s], "failure": f, "kind": "targets", "predicted": predicted_lists[i]})
                    break
        if meta["kind"].startswith("refused:"):
            ctx.stat("refused_" + meta["kind"].split(":")[1])
            refused_n = sum(1 for d in base["diags"] if not d[-5])
            ctx.stat("refused_runs_with_a_diagnostic", 1 if refused_n else 0)
        for s in seeds[1:]:
            v = views[s]
            if {k: v[k] for k in ("files", "diags")} != {k: base[k] for k in ("files", "diags")}:
                diff_paths = sorted(p for p in set(base["files"]) | set(v["files"]) if base["files"].get(p) != v["files"].get(p))
                if diff_paths:
                    what = f"bytes depend on PYTHONHASHSEED: {len(diff_paths)} file(s) differ between seed {seeds[0]} and seed {s}, first {diff_paths[:3]}"
                    key = "nondeterministic:hashseed" + (":case-insensitive-sort" if unsorted else "")
                else:
                    k = next(i for i, (a, b) in enumerate(zip(base["diags"], v["diags"])) if a != b)
                    what = (f"diagnostics depend on PYTHONHASHSEED ({meta['kind']}): seed {seeds[0]} gives {json.dumps(base['diags'][k])[:220]}, "
                            f"seed {s} gives {json.dumps(v['diags'][k])[:220]}")
                    key = "nondeterministic:hashseed:diagnostics"
                ctx.report(key, what, {"job": job, "meta": meta, "seeds": [seeds[0], s], "differing": diff_paths[:10], "kind": "seeds"})
                break
        # ---- correspondence: the targets a context configures (registry order, whatever the set order) and which refusal it gets
        if job["contexts"] and all("fatal" not in per_seed[s][i] for s in seeds):
            keys = [k for k in job["contexts"][0]["generate"] if k in tables["writes_header"]]
            refusal_reqs.append({"op": "c10.refusal", "keys": keys})
            refusal_meta.append((job, meta, {s: per_seed[s][i] for s in seeds}))
    for (job, meta, obss), a in zip(refusal_meta, ctx.driver.batch(refusal_reqs)):
        if "error" in a:
            raise RuntimeError(f"driver error {a}")
        for s, o in obss.items():
            if not o["configure"][0]["ok"]:
                continue
            if o["meta"][0].get("configured_targets") != a["targets"]:
                refusal_breaks.append({"what": "configured_targets of the context", "seed": s, "impl": o["meta"][0].get("configured_targets"),
                                       "model": a["targets"], "options": job["contexts"][0]})
            p = o["calls"][0]
            got = quoted_keys((p["exc"] or {}).get("msg")) if (p["exc"] or {}).get("cls") == "ConfigurationException" else None
            want = sorted([a["refused"]["target"], a["refused"]["generator"]]) if a["refused"] else None
            if got != want:
                refusal_breaks.append({"what": "refusal of an incompletely configured generate section (keys named by the diagnostic)", "seed": s,
                                       "impl": (p["exc"] or {}).get("msg"), "model": a["refused"], "options": job["contexts"][0]})
            ctx.stat("refusal_predictions_compared")
    if list(tables["targets"]) != ctx.driver.one({"op": "c10.refusal", "keys": list(tables["writes_header"])})["targets"]:
        refusal_breaks.append({"what": "order of the target registry", "impl": list(tables["targets"])})
    ctx.obligation("no template loop receives a raw Python set at run time (probe on jinja2.runtime.LoopContext)", rawset == 0, kind="dynamic",
                   detail=f"{rawset} loops over raw sets")

    # ---- (K iii) histories ------------------------------------------------------------------------
    shapes = ["reuse", "equal-config-contexts", "interleaved", "target-order", "regenerate", "imports", "random", "one-at-a-time",
              "imports", "regenerate", "target-order", "random", "interleaved"]
    hjobs, hmeta, bjobs, bindex = [], [], [], {}
    nworlds = ctx.n(5, 40)
    worlds = {}
    for wi in [-1] + list(range(nworlds)):
        if wi < 0:
            world, hists = corpus_world()
        else:
            r = random.Random(f"{ctx.seed}/c10/world/{wi}")
            world = make_world(r)
            hists = [(sh, make_history(r, sh, world)) for sh in shapes[: ctx.n(9, 13)]]
        worlds[wi] = world
        for sh, h in hists:
            hjobs.append(history_job(world, h))
            hmeta.append({"world": wi, "shape": sh, "hist": h, "w": world})
            # fresh-process baselines: what each parse result's calls produce on their own
            nparse = sum(1 for c in h if c[0] == "parse")
            for c in h:
                if c[0] == "parse" and (wi, (c,)) not in bindex:
                    bindex[(wi, (c,))] = len(bjobs)
                    bjobs.append(history_job(world, [c]))
            for k in range(nparse):
                sub = restrict(h, k)
                for upto in range(1, len(sub) + 1):
                    pre = tuple(sub[:upto])
                    # a generate call's baseline: parse + that generate alone; a report's baseline: the whole restricted prefix
                    if pre[-1][0] == "generate":
                        bkey = (wi, (pre[0], pre[-1]))
                        calls = [pre[0], pre[-1]]
                    elif pre[-1][0] == "report":
                        bkey = (wi, pre)
                        calls = list(pre)
                    else:
                        continue
                    if bkey not in bindex:
                        bindex[bkey] = len(bjobs)
                        bjobs.append(history_job(world, calls))
    allres = sysgen.run_jobs(ctx, hjobs + bjobs, hashseed="0", tag="c10h")
    hres, bres = allres[:len(hjobs)], allres[len(hjobs):]
    for o in allres:
        if "fatal" in o:
            raise RuntimeError(f"worker failed: {o['fatal']}")
    mutated = [(i, o["config_unchanged"]) for i, o in enumerate(allres) if not all(x is not False for x in o.get("config_unchanged", []))]
    ctx.obligation("the validated configuration of every context is unchanged by the calls made on it (dump before the first = dump after the last call)",
                   not mutated, kind="dynamic", detail=f"{len(mutated)} of {len(allres)} jobs changed a context's configuration" +
                   (f"; first: calls {json.dumps((hjobs + bjobs)[mutated[0][0]]['calls'])[:250]}" if mutated else ""))
    breaks = []
    by_cid = {}
    mreqs = []
    fresh_parse = {}      # world -> (context, program) -> observation of the fresh process that only parses
    for (wi, calls), bi in bindex.items():
        if len(calls) == 1 and calls[0][0] == "parse":
            fresh_parse.setdefault(wi, {})[(calls[0][1], calls[0][2])] = bres[bi]
    for meta, o in zip(hmeta, hres):
        fp = fresh_parse.get(meta["world"], {})
        mw = model_world(meta["w"], o["cfg"], o["meta"], fp, tables)
        meta["mw"] = mw
        meta["mcalls"], meta["mwhere"] = model_calls(meta["hist"], len(meta["w"]["progs"]), {k: bool(v["calls"][0]["ok"]) for k, v in fp.items()})
        mreqs.append({"op": "c10.run", "world": mw, "calls": meta["mcalls"]})
    manswers = ctx.driver.batch(mreqs)
    pending = []          # failing calls: minimised and keyed after the loop
    for meta, o, m in zip(hmeta, hres, manswers):
        if "error" in m:
            raise RuntimeError(f"driver error {m}")
        h = meta["hist"]
        wi = meta["world"]
        wrep = {"files": meta["w"]["files"], "options": meta["w"]["options"], "progs": meta["w"]["progs"]}
        ctx.count(key=json.dumps([meta["shape"], h]), nontrivial=len(h) > 2, sample={"shape": meta["shape"], "history": h})
        ctx.stat("history_" + meta["shape"])
        origin = []
        desync = False        # a parse verdict differed from the fresh one: the model's numbering of the results no longer applies
        prev_sizes = {}       # path -> (size, digest) of what earlier calls of this history left there
        for idx, (c, rec) in enumerate(zip(h, o["calls"])):
            mc = m["calls"][meta["mwhere"][idx]] if meta["mwhere"][idx] is not None and not desync else None
            if c[0] == "parse":
                origin.append(c)
                kind = meta["w"]["progs"][c[2]]["kind"]
                ctx.stat("parse_" + kind + ("" if rec["ok"] else "_refused"))
                # ---- specification: a parse gives the same verdict, diagnostics and declarations as in a fresh process
                b = bres[bindex[(wi, (c,))]]["calls"][0]
                if parse_view(rec) != parse_view(b):
                    bv = parse_view(b)
                    pending.append({"meta": meta, "idx": idx, "differs": (lambda x, bv=bv: parse_view(x) != bv), "key": "history:parse-differs",
                                    "what": f"parse of program {c[2]} ({meta['w']['progs'][c[2]]['root']}) in context {c[1]} differs from a fresh process in "
                                            f"{[n for n, x, y in zip(['verdict', 'exception', 'diagnostics', 'declarations / the files they come from'], parse_view(rec), bv) if x != y]}: "
                                            f"accepted={rec['ok']} with {len(rec['diags'])} diagnostic(s) and {len(parse_view(rec)[3])} declaration(s) here, "
                                            f"accepted={bv[0]} with {len(bv[2])} and {len(bv[3])} in the fresh process",
                                    "replay": {"kind": "history", "world": wrep, "history": h, "call": idx}})
                    if rec["ok"] != b["ok"]:
                        desync = True
                elif mc is not None and mc["kind"] != ("parsed" if rec["ok"] else "rejected"):
                    breaks.append({"history": h, "call": idx, "what": "verdict of a parse", "impl": rec["ok"], "model": mc["kind"]})
                continue
            k = c[1]
            if k >= len(origin):
                continue
            if rec.get("skipped"):
                ctx.stat("calls_on_a_refused_parse")
                continue
            # ---- correspondence: paths written by this call, equal content identity => equal digest
            if mc is not None:
                ipaths = sorted(e[1] for e in rec["log"])
                mpaths = sorted(p for p, _ in mc.get("files", []))
                if not rec["ok"] or mc["kind"] != "wrote":
                    breaks.append({"history": h, "call": idx, "what": "outcome", "impl": rec["exc"], "model": mc["kind"]})
                elif ipaths != mpaths and c[0] == "generate":
                    breaks.append({"history": h, "call": idx, "what": "paths written by the call", "only_impl": sorted(set(ipaths) - set(mpaths))[:4],
                                   "only_model": sorted(set(mpaths) - set(ipaths))[:4]})
            if c[0] == "generate":
                if mc is not None:
                    for p, cid in mc.get("files", []):
                        d = rec.get("files", {}).get(p)
                        if d is not None:
                            by_cid.setdefault(cid, set()).add(d)
                ctx.stat("generate_calls")
                # ---- specification: equals the fresh-process result
                b = bres[bindex[(wi, (origin[k], ("generate", 0, c[2])))]]
                bfiles = b["calls"][1].get("files", {})
                bsizes = b["calls"][1].get("sizes", {})
                # what the call found on disk: a path that held other bytes of the same length is the case a "looks up to date" shortcut gets wrong
                for p, d in bfiles.items():
                    if p in prev_sizes and prev_sizes[p][1] != d:
                        ctx.stat("overwrites_of_other_content" + ("_of_equal_length" if prev_sizes[p][0] == bsizes.get(p) else ""))
                if any(x[0] == "generate" and x[1] == k and x[2] != c[2] for x in h[:idx]):
                    ctx.stat("generate_after_another_target_of_the_same_parse")
                if rec.get("files", {}) != bfiles:
                    leak = bool(mc) and not mc.get("sameAsFresh", True)
                    differing = sorted(p for p in set(bfiles) | set(rec.get("files", {})) if bfiles.get(p) != rec.get("files", {}).get(p))
                    pending.append({"meta": meta, "idx": idx, "differs": (lambda x, bf=bfiles: x.get("files", {}) != bf),
                                    "key": "history:config-of-last-parse" if leak else None,
                                    "what": f"generate('{c[2]}') for parse result {k} ({meta['w']['progs'][origin[k][2]]['root']}, context {origin[k][1]}) differs from a "
                                            f"fresh process with the same inputs ({len(differing)} path(s), e.g. {differing[:2]})",
                                    "replay": {"kind": "history", "world": wrep, "history": h, "call": idx, "differing": differing[:10], "model_predicts_leak": leak}})
                elif mc is not None and not mc.get("sameAsFresh", True):
                    breaks.append({"history": h, "call": idx, "what": "model predicts a configuration leak, implementation equals the fresh result"})
                for p, d in rec.get("files", {}).items():
                    prev_sizes[p] = (rec.get("sizes", {}).get(p), d)
            else:  # report
                ctx.stat("report_calls")
                sub = restrict(h[: idx + 1], k)
                b = bres[bindex[(wi, tuple(sub))]]
                bfiles = b["calls"][-1].get("files", {})
                if rec.get("files", {}) != bfiles:
                    ctx.report("history:report-accumulates",
                               f"the processed-files report written for parse result {k} differs from the report of a fresh process running only "
                               f"that result's calls, after the history {h[:idx]}",
                               {"kind": "history", "world": wrep, "history": h, "call": idx})
    # ---- failing calls: the first of every (provisional key, shape) is minimised; the key is the shape of the minimal history
    done = set()
    pending.sort(key=lambda f: (len(f["meta"]["hist"][: f["idx"] + 1]), f["idx"]))
    for f in pending:
        h, idx = f["meta"]["hist"], f["idx"]
        group = (f["key"], h[idx][0], classify([tuple(c) for c in h[: idx + 1]]))
        if f["key"] is None or f["key"] == "history:parse-differs":
            if group not in done and len(done) < 4:
                done.add(group)
                hm = minimise(ctx, f["meta"]["w"], h, idx, f["differs"])
                f["replay"]["history"], f["replay"]["call"], f["replay"]["full_history"] = hm, len(hm) - 1, h[: idx + 1]
                f["key"] = f["key"] or classify(hm)
                f["what"] += f" after the history {hm[:-1]} (minimal: no call can be left out)"
            else:
                f["key"] = f["key"] or classify([tuple(c) for c in h[: idx + 1]])      # of the whole prefix: not minimised
                f["what"] += f" after the history {h[:idx]}"
        else:
            f["what"] += f" after the history {h[:idx]}"
        ctx.report(f["key"], f["what"], f["replay"])
    # ---- (K iv) identifiers reserved by some target languages only: every target's outcome vs the target order ----------
    evaluate_keyword_cases(ctx, keyword_cases(ctx))
    multi = {cid: ds for cid, ds in by_cid.items() if len(ds) > 1}
    if multi:
        cid = sorted(multi)[0]
        breaks.append({"what": "one content identity, several digests (the model's ContentId misses an input of the renderer)", "cid": cid, "n": len(multi)})
    ctx.stats["content_ids"] = len(by_cid)
    breaks = refusal_breaks + breaks
    ctx.stats["correspondence_breaks"] = len(breaks) + len(sort_breaks)
    if (breaks or sort_breaks) and not ctx.violations:
        first = sort_breaks[0] if sort_breaks else breaks[0]
        ctx.report("correspondence", "API/sort model and implementation disagree; determinism and history-freedom hold on everything sampled",
                   {"correspondence": "c10.sort vs jinja do_sort; c10.refusal vs configured_targets / refusal; c10.run vs API histories", "first": first, "count": len(breaks) + len(sort_breaks)},
                   no_failing_input=True)
    elif breaks or sort_breaks:
        ctx.stats["correspondence_first"] = json.dumps((sort_breaks or breaks)[0])[:400]
    ctx.assumptions += [
        "Dom freshApiPerReport: the report is a function of the whole call history of the API object (known finding)",
        "target_order_irrelevant assumes that different targets write different paths (disjoint output directories, C14)",
        "digests are compared after replacing the sandbox root; hash seeds 0-3 (quick) / 0-15 (thorough)",
        "target lists: `c10.targets` models `visitTargets` + `or self.target_keys`; a record whose flags evaluate to the empty list is outside the generated class (every generated list leaves >= 2 targets)",
        "which file an @import / @extern resolves to, and whether the front end accepts a program, is taken from the fresh-process parse of the same (configuration, program) (the search order itself is C16's); the model's program is the program as resolved under that configuration",
        "regeneration histories edit the IDL between two runs of one API object; output of a *different process* left in the directories is covered only through the same file system state (C08's regeneration stream uses a second API object)",
    ]


def replay(ctx, body):
    if body.get("kind") == "seeds":
        outs = [obs_digest(sysgen.run_jobs(ctx, [body["job"]], workers=1, hashseed=s, tag="c10r")[0]) for s in body["seeds"]]
        same = outs[0] == outs[1]
        print(json.dumps({"seeds": body["seeds"], "equal": same,
                          "differing": sorted(p for p in outs[0]["files"] if outs[0]["files"].get(p) != outs[1]["files"].get(p))[:10]}, indent=1))
        return same
    if body.get("kind") == "targets":
        o = sysgen.run_jobs(ctx, [body["job"]], workers=1, hashseed=body["seeds"][0], tag="c10r")[0]
        tf, n = target_list_fails(body["meta"]["target_sites"], body["predicted"], o["calls"][0])
        print(json.dumps({"seed": body["seeds"][0], "sites_compared": n, "failures": tf[:5]}, indent=1)[:3000])
        return not tf
    if body.get("kind") == "order":
        a, b = sysgen.run_jobs(ctx, [body["forward"], body["job"]], workers=2, hashseed=body["seed"], tag="c10r")
        fa, fb = obs_digest(a)["files"], obs_digest(b)["files"]
        print(json.dumps({"equal": fa == fb, "differing": sorted(p for p in set(fa) | set(fb) if fa.get(p) != fb.get(p))[:10]}, indent=1))
        return fa == fb
    if body.get("kind") == "history":
        w = body["world"]
        h = [tuple(c) for c in body["history"]]
        idx = body["call"]
        c = h[idx]
        sub = restrict(h[: idx + 1], c[1]) if c[0] != "parse" else [c]
        base_calls = [sub[0], sub[-1]] if c[0] == "generate" else sub
        o, b = sysgen.run_jobs(ctx, [history_job(w, h), history_job(w, base_calls)], workers=2, hashseed="0", tag="c10r")
        if c[0] == "parse":
            got, want = parse_view(o["calls"][idx]), parse_view(b["calls"][-1])
            print(json.dumps({"call": c, "equal": got == want, "history": got, "fresh": want}, indent=1)[:3000])
            return got == want
        got, want = o["calls"][idx].get("files", {}), b["calls"][-1].get("files", {})
        print(json.dumps({"call": c, "equal": got == want, "differing": sorted(p for p in set(got) | set(want) if got.get(p) != want.get(p))[:10]}, indent=1))
        return got == want
    if body.get("kind") == "keywords":
        before = len(ctx.violations) + sum(ctx.known_hits.values())
        case = body["case"]
        case["orders"] = [(body["order"], body["targets"])] if body["order"] != "two-parses" else [("forward", body["targets"])]
        evaluate_keyword_cases(ctx, [case])
        print(json.dumps({"violations": ctx.violations}, indent=1)[:3000])
        return len(ctx.violations) + sum(ctx.known_hits.values()) == before
    print("nothing to replay for this record")
    return True
