"""C10 — output is a pure function of IDL and configuration (deterministic, history-free).

Proof: `Props/C10.lean` over `Sys/Api.lean`: a stable sort by a total antisymmetric order forgets the
iteration order of a set (`set_order_irrelevant`; the pinned tree's case-insensitive `| sort` does not:
`legacy_sort_leaks_order`); one API object as a state machine — from any state every generate call
equals the fresh-process result (`generate_history_free`, full statement after the repair;
`config_leak_counterexample` is the pinned tree's generate), counterexample for the accumulating report
(known finding); disjoint writes commute (`target_order_irrelevant`).

Generated obligation (every run): the `for` loops of all live templates (Jinja ASTs through each
generator's own preprocessing) with the set-typed attributes of the marshalling classes; Lean re-proves
`allSetLoopsSorted facts` by `decide`. Dynamic companion: no template loop ever receives a raw `set`.

Tie (every run): (i) the model's sort pipelines vs jinja's `do_sort` on include-like strings;
(ii) the real API in fresh processes under several PYTHONHASHSEED values: {path: sha256} of all targets,
report, diagnostics (class, position, text) must be equal — for accepted inputs and for *refused* ones
(>= 2 targets without their glue generator section, several invalid configuration values, generate for
unconfigured / unknown targets, several IDL errors spread over files; set-typed option `default_deriving`);
the targets each context configures and which "Missing configuration" refusal it gets are predicted by
the model (`c10.refusal`: registry order filtered by membership, `refusal_set_order_irrelevant`); (iii) generated histories on one API object (context reuse, equal
and different configurations interleaved, permuted target order, repeated generation, reports) vs
fresh-process baselines for every (configuration, program, target): the model (`c10.run`) predicts the
written paths of every call and which calls equal the baseline; equal content identity => equal digest.

Specification on the implementation's observation: same (files, configuration, target) => same
{path: digest} and same diagnostics, whatever the hash seed and the call history.
"""
from __future__ import annotations

import functools
import json
import random

import common
import sysgen

LEAN_MODULE = "PydjinniModel.Props.C10"
THEOREMS = [
    "Pydjinni.SysC.leL_total",
    "Pydjinni.SysC.leL_trans",
    "Pydjinni.SysC.leL_antisymm",
    "Pydjinni.SysC.isort_perm",
    "Pydjinni.SysC.isort_sorted",
    "Pydjinni.SysC.isort_eq_of_perm",
    "Pydjinni.SysC.jinjaSortTotal_perm",
    "Pydjinni.SysC.set_order_irrelevant",
    "Pydjinni.SysC.legacy_sort_leaks_order",
    "Pydjinni.SysC.sorted_loops_order_irrelevant",
    "Pydjinni.SysC.configuredTargets_perm",
    "Pydjinni.SysC.refusal_set_order_irrelevant",
    "Pydjinni.SysC.bySet_leaks_order",
    "Pydjinni.SysC.refusal_none_iff",
    "Pydjinni.SysC.wellConfigured_iff_no_refusal",
    "Pydjinni.SysC.generateGens_genCfg",
    "Pydjinni.SysC.generateGens_state_irrelevant",
    "Pydjinni.SysC.generate_history_free",
    "Pydjinni.SysC.runCalls_fromWorld",
    "Pydjinni.SysC.generate_history_free_run",
    "Pydjinni.SysC.config_leak_counterexample",
    "Pydjinni.SysC.report_accumulates_counterexample",
    "Pydjinni.SysC.applyWrites_comm",
    "Pydjinni.SysC.target_order_irrelevant",
]
LEVEL = "proof"
TRUSTED = ["template fact extractor (Jinja AST walk + return annotations of the marshalling properties); complemented by a run-time probe on jinja's LoopContext",
           "sysworker.py adapter; digests are taken after replacing the sandbox root in the bytes (imported files are named by absolute path in the banner)"]

HASHSEEDS_QUICK = ["0", "1", "2", "3"]
H_TARGETS = ["cpp", "java", "yaml"]


# ---------------------------------------------------------------------------------------------------
# translator: template facts
# ---------------------------------------------------------------------------------------------------

def template_facts():
    """every `for` loop of every template of every generator of the implementation under test"""
    import inspect
    from jinja2 import nodes
    from pydjinni import API
    from pydjinni.parser import ast as A, base_models as B
    api = API()

    def is_set(a):
        s = str(a).replace("typing.", "")
        return s.split("|")[0].strip().lower().startswith(("set[", "set", "frozenset"))

    setattrs = set()
    for t in api.generation_targets.values():
        for g in t.generator_instances:
            for cls in set(g.marshal_models.values()):
                for klass in cls.__mro__:
                    for n, v in vars(klass).items():
                        f = v.fget if isinstance(v, property) else v.func if isinstance(v, functools.cached_property) else None
                        r = getattr(f, "__annotations__", {}).get("return") if f is not None else None
                        if r is not None and is_set(r):
                            setattrs.add(n)
    for mod in (A, B):
        for c in vars(mod).values():
            if inspect.isclass(c) and hasattr(c, "model_fields"):
                for fn, fi in c.model_fields.items():
                    if is_set(fi.annotation):
                        setattrs.add(fn)
    rows = []
    for t in api.generation_targets.values():
        for g in t.generator_instances:
            tdir = g._generator_directory / "templates"
            for p in sorted(tdir.rglob("*")):
                if not p.is_file():
                    continue
                rel = p.relative_to(tdir)
                tree = g._jinja_env.parse(g.template_preprocessing(rel))
                for f in tree.find_all(nodes.For):
                    it, filters = f.iter, []
                    while isinstance(it, nodes.Filter):
                        name = it.name
                        for kw in it.kwargs:
                            if kw.key == "case_sensitive" and isinstance(kw.value, nodes.Const) and kw.value.value is True:
                                name += ":case_sensitive"
                        if it.args:
                            name += ":args"
                        filters.append(name)
                        it = it.node
                    chain, x = [], it
                    while isinstance(x, nodes.Getattr):
                        chain.append(x.attr)
                        x = x.node
                    chain.append(x.name if isinstance(x, nodes.Name) else "?" + type(x).__name__)
                    chain.reverse()
                    rows.append({"generator": g.key, "template": str(rel), "iter": ".".join(chain), "overSet": chain[-1] in setattrs, "filters": filters})
    return rows, sorted(setattrs)


def lean_str(s):
    return '"' + s.replace("\\", "\\\\").replace('"', '\\"') + '"'


def facts_lean(rows):
    items = ",\n  ".join(
        "{ generator := %s, template := %s, iter := %s, overSet := %s, filters := [%s] }" % (
            lean_str(r["generator"]), lean_str(r["template"]), lean_str(r["iter"]), "true" if r["overSet"] else "false",
            ", ".join(lean_str(f) for f in r["filters"])) for r in rows)
    nset = sum(1 for r in rows if r["overSet"])
    return f"""import PydjinniModel.Sys.Api
open Pydjinni.SysC
/-! generated from the live templates by harness/props/c10.py — do not edit -/
def facts : List LoopFact := [
  {items}]
/-- not vacuous: the number of loops over set-typed attributes -/
example : (facts.filter (·.overSet)).length = {nset} := by decide
/-- every template loop over a set goes through the total sort -/
example : allSetLoopsSorted facts = true := by decide
"""


# ---------------------------------------------------------------------------------------------------
# inputs
# ---------------------------------------------------------------------------------------------------

CASE_CORPUS = {
    "proj/main.pydjinni": "Foo = record { a: i32; }\nfoo = record { b: i32; }\nfOO = record { c: i32; }\nFOo = record { d: i32; }\n"
                          "user = record { x: Foo; y: foo; z: fOO; w: FOo; }\n"
                          "svc = interface +cpp { m0(p0: Foo, p1: foo, p2: fOO) -> FOo; }\n",
}


def case_options():
    return {"generate": {
        "cpp": {"out": "gen/cpp", "identifier": {"file": "none"}},
        "java": {"out": "gen/java", "package": "foo.bar"},
        "jni": {"out": "gen/jni", "namespace": "pj::jni", "identifier": {"file": {"style": "none", "prefix": "jni_"}}},
        "objc": {"out": "gen/objc", "identifier": {"type": "none"}},
        "objcpp": {"out": "gen/objcpp", "namespace": "pj::objcpp"},
        "cppcli": {"out": "gen/cppcli", "namespace": "Pj::Cli", "identifier": {"file": "none"}},
        "yaml": {"out": "gen/yaml"},
        "list_processed_files": "processed.json"}}


def full_run_job(files, root, opts, targets):
    calls = [{"op": "parse", "ctx": 0, "idl": root}] + [{"op": "generate", "gc": 0, "target": t} for t in targets] + [{"op": "report", "gc": 0}]
    return {"files": files, "cwd": ".", "contexts": [opts], "calls": calls, "normalized": True}


def seed_cases(ctx):
    cases = [(full_run_job(CASE_CORPUS, "proj/main.pydjinni", case_options(), list(sysgen.TARGETS)),
              {"kind": "corpus: headers that differ only in letter case", "targets": list(sysgen.TARGETS)})]
    for i in range(ctx.n(14, 200)):
        r = random.Random(f"{ctx.seed}/c10/seeds/{i}")
        stress = r.choice(["plain", "mixed", "case", "anon"])
        pg = sysgen.ProgGen(r, stress=stress if stress != "case" else "mixed", case_names=(stress == "case"), multi_file=r.random() < 0.3,
                            with_extern=r.random() < 0.2, max_decls=r.choice([4, 7]))
        prog = pg.program()
        targets = list(sysgen.TARGETS)
        opts = sysgen.make_options(r, targets, out_kind="rel", naming=r.choice(["default", "random"]), report="processed.yaml")
        if i % 5 == 4:
            # a set-typed configuration value
            opts["generate"]["default_deriving"] = r.choice([["eq"], ["eq", "ord"], ["ord", "eq"]])
        files = dict(prog["files"])
        if i % 7 == 3:
            # a program with diagnostics: the same errors, in the same order, under every seed
            files[prog["root"]] += "\nbroken = record { a: no_such_type; b: list<also_missing>; }\n"
        cases.append((full_run_job(files, prog["root"], opts, targets), {"kind": "random:" + stress, "targets": targets, "features": prog["features"]}))
    return cases


GLUE = {"java": "jni", "objc": "objcpp"}
BAD_VALUES = [("cpp", "out", None), ("java", "package", None), ("java", "identifier", {"type": "no_such_style"}), ("jni", "namespace", None),
              ("objc", "out", None), ("objcpp", "namespace", None), ("cppcli", "namespace", None), ("yaml", "out", None),
              ("cpp", "no_such_option", 1), ("jni", "identifier", {"file": {"style": "sideways"}})]


def refused_cases(ctx):
    """Inputs the tool *refuses*: the refusal (which diagnostic, for which key, where) is part of the observable output
    and has to be the same in every process. One case = files x options x calls whose outcome is a diagnostic:
      missing-glue        >= 1 (mostly >= 2) configured targets lack the section of their glue generator -> `parse` refuses
      invalid-values      several sections carry invalid / missing values                            -> `configure` refuses
      generate-unconfigured  complete configuration, `generate` for targets that are not configured / unknown
      broken-idl          several unresolvable references / duplicate declarations spread over the files of a program"""
    cases = []
    for i in range(ctx.n(16, 100)):
        r = random.Random(f"{ctx.seed}/c10/refused/{i}")
        kind = ["missing-glue", "missing-glue", "invalid-values", "generate-unconfigured", "broken-idl"][i % 5]
        pg = sysgen.ProgGen(r, stress="plain", multi_file=(kind == "broken-idl" and r.random() < 0.6), max_decls=r.choice([2, 4]))
        prog = pg.program()
        files = dict(prog["files"])
        targets = r.sample(sysgen.TARGETS, r.choice([2, 3, 4, 5]))
        if kind == "missing-glue":
            for t in r.sample(list(GLUE), r.choice([1, 2, 2, 2])):
                if t not in targets:
                    targets.append(t)
            r.shuffle(targets)
        opts = sysgen.make_options(r, targets, out_kind="rel", naming="default", report="processed.json", extras=False)
        gen = opts["generate"]
        # the order in which the sections are written down is part of the input; it must not matter either way
        order = list(gen)
        r.shuffle(order)
        opts = {"generate": {k: gen[k] for k in order}}
        gen = opts["generate"]
        calls = [{"op": "parse", "ctx": 0, "idl": prog["root"]}]
        meta = {"kind": "refused:" + kind, "targets": targets, "features": []}
        if kind == "missing-glue":
            glue_targets = [t for t in targets if t in GLUE]
            drop = r.sample(glue_targets, r.choice([len(glue_targets), len(glue_targets), 1]))
            for t in drop:
                gen.pop(GLUE[t], None)
            meta["features"] = [f"targets-without-glue:{len(drop)}"]
        elif kind == "invalid-values":
            n = 0
            for sec, key, val in r.sample(BAD_VALUES, len(BAD_VALUES)):
                if sec in gen and n < 3:
                    if val is None:
                        gen[sec].pop(key, None)
                    else:
                        gen[sec][key] = val
                    n += 1
            meta["features"] = [f"invalid-values:{n}"]
        elif kind == "generate-unconfigured":
            others = [t for t in sysgen.TARGETS if t not in targets] + ["swift", ""]
            calls += [{"op": "generate", "gc": 0, "target": t} for t in r.sample(others, min(2, len(others)))]
            calls += [{"op": "generate", "gc": 0, "target": targets[0]}]
        else:
            fs = sorted(files)
            for k in range(r.choice([2, 3])):
                f = r.choice(fs)
                files[f] += r.choice([f"\nbroken{k} = record {{ a: no_such_type{k}; b: list<also_missing>; }}\n",
                                      f"\ndup{k} = enum {{ item_a; }}\ndup{k} = enum {{ item_b; }}\n",
                                      f"\nnamespace lost {{ holder{k} = interface +cpp {{ m0(p0: .nowhere.t{k}) -> missing_ret; }} }}\n"])
            meta["features"] = [f"broken-files:{len(fs)}"]
        cases.append(({"files": files, "cwd": ".", "contexts": [opts], "calls": calls, "normalized": True}, meta))
    return cases


def diag_view(rec):
    return [rec["ok"], (rec["exc"] or {}).get("cls"), (rec["exc"] or {}).get("msg"), rec.get("skipped"),
            [(d["cls"], d["file"], d["line"], d["col"], d.get("msg")) for d in rec["diags"]]]


def obs_digest(obs):
    """what C10 observes of one run: {path: digest} of everything written; verdict, exception class, positions and text
    (sandbox root replaced) of every diagnostic of `configure` and of every call; the targets each context configures"""
    files, diags = {}, []
    for rec in obs.get("configure", []):
        diags.append(["configure"] + diag_view(rec))
    for rec in obs["calls"]:
        files.update(rec.get("files", {}))
        diags.append(diag_view(rec))
    return {"files": files, "diags": diags, "configured": [m.get("configured_targets") for m in obs["meta"]]}


def quoted_keys(msg):
    """the configuration keys a diagnostic names: last component of every quoted dotted name"""
    import re
    return sorted(q.split(".")[-1] for q in re.findall(r"'([A-Za-z_.]+)'", msg or ""))


# -- histories ------------------------------------------------------------------------------------

def make_world(r: random.Random):
    progs = []
    for name in ("p", "q"):
        pg = sysgen.ProgGen(r, stress="plain", max_decls=r.choice([2, 4]))
        progs.append({"root": f"proj/{name}.pydjinni", "text": pg.body(pg.max_decls)})
    a = sysgen.make_options(r, H_TARGETS, out_kind="rel", out_root="genA", naming="default", report="repA.json", extras=False)
    b = sysgen.make_options(r, H_TARGETS, out_kind=r.choice(["rel", "split"]), out_root="genB", naming="random", report="repB.json", extras=False)
    b["generate"]["cpp"]["namespace"] = "other::space"
    b["generate"]["cpp"]["header_extension"] = "hxx"
    b["generate"]["java"]["package"] = "com.other"
    c = json.loads(json.dumps(a))          # an equal configuration in a context of its own
    return {"progs": progs, "options": [a, b, c], "files": {p["root"]: p["text"] for p in progs}}


def make_history(r: random.Random, shape: str):
    """calls over contexts 0 (A), 1 (B), 2 (A again) and programs 0, 1"""
    t = lambda: r.choice(H_TARGETS)
    if shape == "reuse":
        h = [("parse", 0, 0), ("parse", 0, 1), ("generate", 0, t()), ("generate", 1, t()), ("generate", 0, t()), ("report", 1)]
    elif shape == "equal-config-contexts":
        h = [("parse", 0, 0), ("parse", 2, 1), ("generate", 0, t()), ("generate", 1, t()), ("generate", 0, t())]
    elif shape == "interleaved":
        h = [("parse", 0, 0), ("parse", 1, 1), ("generate", 0, t()), ("generate", 1, t())]
        if r.random() < 0.5:
            h += [("parse", 0, 1), ("generate", 0, t()), ("generate", 2, t())]
    elif shape == "target-order":
        ts = list(H_TARGETS)
        r.shuffle(ts)
        h = [("parse", 0, r.choice([0, 1]))] + [("generate", 0, x) for x in ts] + [("generate", 0, ts[0]), ("report", 0)]
    elif shape == "one-at-a-time":
        h = [("parse", 0, 0), ("generate", 0, t())]
    else:  # random
        h, n = [], 0
        for _ in range(r.choice([4, 6, 8])):
            if n == 0 or r.random() < 0.35:
                h.append(("parse", r.choice([0, 0, 1, 2]), r.choice([0, 1])))
                n += 1
            elif r.random() < 0.15:
                h.append(("report", r.randrange(n)))
            else:
                h.append(("generate", r.randrange(n), t()))
    return h


def history_job(world, hist):
    calls = []
    for c in hist:
        if c[0] == "parse":
            calls.append({"op": "parse", "ctx": c[1], "idl": world["progs"][c[2]]["root"]})
        elif c[0] == "generate":
            calls.append({"op": "generate", "gc": c[1], "target": c[2]})
        else:
            calls.append({"op": "report", "gc": c[1]})
    return {"files": world["files"], "cwd": ".", "contexts": world["options"], "calls": calls, "normalized": True}


def restrict(hist, k):
    """the calls of a history that concern the k-th parse result only, re-indexed (what a fresh process would run)"""
    out, n = [], -1
    for c in hist:
        if c[0] == "parse":
            n += 1
            if n == k:
                out.append(c)
        elif c[1] == k:
            out.append((c[0], 0) + tuple(c[2:]))
    return out


def model_world(world, obs_cfgs, obs_meta, defs_by_prog, tables):
    return {"cfgs": [{"gens": g, "supportLib": m["supportLib"], "report": m["report"]} for g, m in zip(obs_cfgs, obs_meta)],
            "progs": [{"id": common.sha(p["text"])[:12], "reads": [p["root"]], "exts": [], "defs": defs_by_prog.get(i, [])} for i, p in enumerate(world["progs"])],
            "support": tables["support"]}


def model_calls(hist):
    return [{"op": "parse", "ctx": c[1], "prog": c[2]} if c[0] == "parse" else
            {"op": "generate", "gc": c[1], "target": c[2]} if c[0] == "generate" else {"op": "report", "gc": c[1]} for c in hist]


# ---------------------------------------------------------------------------------------------------

def run(ctx):
    ctx.coverage["rule"] = ("seeds: one case = program x configuration run under every hash seed; histories: one case = call history on one API object "
                            "vs fresh-process baselines; distinct = distinct (kind, feature set) resp. distinct history (shape + calls); "
                            "non-trivial = more than one seed / more than one call after the first parse")
    tables = sysgen.live_tables(ctx)

    # ---- (G) template facts --------------------------------------------------------------------
    rows, setattrs = template_facts()
    ok, out = common.lean_check_file(facts_lean(rows), "C10_template_facts")
    ctx.obligation("TemplateFacts: every `for` over a set-typed attribute passes through a sort by a total order, `sort(case_sensitive=true) [| sort]` (allSetLoopsSorted, decide)",
                   ok, kind="generated", detail=out if not ok else f"{len(rows)} loops, {sum(r['overSet'] for r in rows)} over sets; set-typed attributes: {setattrs}")
    ctx.stats["template_loops"] = len(rows)
    ctx.stats["template_loops_over_sets"] = sum(r["overSet"] for r in rows)
    unsorted = [r for r in rows if r["overSet"] and r["filters"] not in (["sort", "sort:case_sensitive"], ["sort:case_sensitive"])]

    # ---- (K i) sort pipelines vs jinja ----------------------------------------------------------
    import jinja2
    from jinja2.filters import do_sort
    env = jinja2.Environment()
    r = random.Random(f"{ctx.seed}/c10/sort")
    reqs, lists = [], []
    stems = ["foo", "Foo", "FOO", "fOo", "bar", "Bar", "a/b", "a/B", "A/b", "pydjinni/x", "z9", "Z9", "_x", "<vector>", "<Vector>"]
    for i in range(ctx.n(400, 4000)):
        k = r.randrange(0, 7)
        items = r.sample(stems, min(k, len(stems)))
        items = [f'"{s}.hpp"' if not s.startswith("<") else s for s in items]
        r.shuffle(items)
        lists.append(items)
        reqs.append({"op": "c10.sort", "items": items})
    sort_breaks = []
    for items, a in zip(lists, ctx.driver.batch(reqs)):
        legacy = do_sort(env, items)
        total = do_sort(env, do_sort(env, items, case_sensitive=True))
        ctx.count(key=("sort", tuple(sorted(items))), nontrivial=len(items) > 1)
        if a.get("legacy") != legacy or a.get("total") != total:
            sort_breaks.append({"items": items, "model": a, "jinja": {"legacy": legacy, "total": total}})
    ctx.stats["sort_lists"] = len(lists)

    # ---- (K ii) hash seeds ------------------------------------------------------------------------
    cases = seed_cases(ctx) + refused_cases(ctx)
    seeds = HASHSEEDS_QUICK if ctx.quick else [str(i) for i in range(16)]
    per_seed = {s: sysgen.run_jobs(ctx, [c[0] for c in cases], hashseed=s, tag="c10s") for s in seeds}
    rawset = 0
    refusal_reqs, refusal_meta, refusal_breaks = [], [], []
    for i, (job, meta) in enumerate(cases):
        views = {}
        for s in seeds:
            o = per_seed[s][i]
            if "fatal" in o:
                raise RuntimeError(f"worker failed: {o['fatal']}")
            rawset += o.get("rawset_loops", 0)
            views[s] = obs_digest(o)
        ctx.count(key=json.dumps(["seeds", meta["kind"], meta.get("features", [])]), nontrivial=True,
                  sample={"kind": meta["kind"], "files": len(views[seeds[0]]["files"]), "seeds": len(seeds)})
        ctx.stat("seed_runs", len(seeds))
        ctx.stat("seed_files_compared", len(views[seeds[0]]["files"]) * len(seeds))
        base = views[seeds[0]]
        if meta["kind"].startswith("refused:"):
            ctx.stat("refused_" + meta["kind"].split(":")[1])
            refused_n = sum(1 for d in base["diags"] if not d[-5])
            ctx.stat("refused_runs_with_a_diagnostic", 1 if refused_n else 0)
        for s in seeds[1:]:
            v = views[s]
            if {k: v[k] for k in ("files", "diags")} != {k: base[k] for k in ("files", "diags")}:
                diff_paths = sorted(p for p in set(base["files"]) | set(v["files"]) if base["files"].get(p) != v["files"].get(p))
                if diff_paths:
                    what = f"bytes depend on PYTHONHASHSEED: {len(diff_paths)} file(s) differ between seed {seeds[0]} and seed {s}, first {diff_paths[:3]}"
                    key = "nondeterministic:hashseed" + (":case-insensitive-sort" if unsorted else "")
                else:
                    k = next(i for i, (a, b) in enumerate(zip(base["diags"], v["diags"])) if a != b)
                    what = (f"diagnostics depend on PYTHONHASHSEED ({meta['kind']}): seed {seeds[0]} gives {json.dumps(base['diags'][k])[:220]}, "
                            f"seed {s} gives {json.dumps(v['diags'][k])[:220]}")
                    key = "nondeterministic:hashseed:diagnostics"
                ctx.report(key, what, {"job": job, "meta": meta, "seeds": [seeds[0], s], "differing": diff_paths[:10], "kind": "seeds"})
                break
        # ---- correspondence: the targets a context configures (registry order, whatever the set order) and which refusal it gets
        if job["contexts"] and all("fatal" not in per_seed[s][i] for s in seeds):
            keys = [k for k in job["contexts"][0]["generate"] if k in tables["writes_header"]]
            refusal_reqs.append({"op": "c10.refusal", "keys": keys})
            refusal_meta.append((job, meta, {s: per_seed[s][i] for s in seeds}))
    for (job, meta, obss), a in zip(refusal_meta, ctx.driver.batch(refusal_reqs)):
        if "error" in a:
            raise RuntimeError(f"driver error {a}")
        for s, o in obss.items():
            if not o["configure"][0]["ok"]:
                continue
            if o["meta"][0].get("configured_targets") != a["targets"]:
                refusal_breaks.append({"what": "configured_targets of the context", "seed": s, "impl": o["meta"][0].get("configured_targets"),
                                       "model": a["targets"], "options": job["contexts"][0]})
            p = o["calls"][0]
            got = quoted_keys((p["exc"] or {}).get("msg")) if (p["exc"] or {}).get("cls") == "ConfigurationException" else None
            want = sorted([a["refused"]["target"], a["refused"]["generator"]]) if a["refused"] else None
            if got != want:
                refusal_breaks.append({"what": "refusal of an incompletely configured generate section (keys named by the diagnostic)", "seed": s,
                                       "impl": (p["exc"] or {}).get("msg"), "model": a["refused"], "options": job["contexts"][0]})
            ctx.stat("refusal_predictions_compared")
    if list(tables["targets"]) != ctx.driver.one({"op": "c10.refusal", "keys": list(tables["writes_header"])})["targets"]:
        refusal_breaks.append({"what": "order of the target registry", "impl": list(tables["targets"])})
    ctx.obligation("no template loop receives a raw Python set at run time (probe on jinja2.runtime.LoopContext)", rawset == 0, kind="dynamic",
                   detail=f"{rawset} loops over raw sets")

    # ---- (K iii) histories ------------------------------------------------------------------------
    shapes = ["reuse", "equal-config-contexts", "interleaved", "target-order", "one-at-a-time", "random", "random", "interleaved"]
    hjobs, hmeta, bjobs, bindex = [], [], [], {}
    nworlds = ctx.n(5, 40)
    for wi in range(nworlds):
        r = random.Random(f"{ctx.seed}/c10/world/{wi}")
        world = make_world(r)
        hists = [(sh, make_history(r, sh)) for sh in shapes[: ctx.n(6, 8)]]
        for sh, h in hists:
            hjobs.append(history_job(world, h))
            hmeta.append({"world": wi, "shape": sh, "hist": h, "w": world})
            # fresh-process baselines: what each parse result's calls produce on their own
            nparse = sum(1 for c in h if c[0] == "parse")
            for c in h:
                if c[0] == "parse" and (wi, (c,)) not in bindex:
                    bindex[(wi, (c,))] = len(bjobs)
                    bjobs.append(history_job(world, [c]))
            for k in range(nparse):
                sub = restrict(h, k)
                for upto in range(1, len(sub) + 1):
                    pre = tuple(sub[:upto])
                    # a generate call's baseline: parse + that generate alone; a report's baseline: the whole restricted prefix
                    if pre[-1][0] == "generate":
                        bkey = (wi, (pre[0], pre[-1]))
                        calls = [pre[0], pre[-1]]
                    elif pre[-1][0] == "report":
                        bkey = (wi, pre)
                        calls = list(pre)
                    else:
                        continue
                    if bkey not in bindex:
                        bindex[bkey] = len(bjobs)
                        bjobs.append(history_job(world, calls))
    allres = sysgen.run_jobs(ctx, hjobs + bjobs, hashseed="0", tag="c10h")
    hres, bres = allres[:len(hjobs)], allres[len(hjobs):]
    for o in allres:
        if "fatal" in o:
            raise RuntimeError(f"worker failed: {o['fatal']}")
    breaks = []
    by_cid = {}
    mreqs = []
    for meta, o in zip(hmeta, hres):
        defs_by_prog = {}
        for c, rec in zip(meta["hist"], o["calls"]):
            if c[0] == "parse" and "defs" in rec:
                defs_by_prog.setdefault(c[2], rec["defs"])
        mw = model_world(meta["w"], o["cfg"], o["meta"], defs_by_prog, tables)
        meta["mw"] = mw
        mreqs.append({"op": "c10.run", "world": mw, "calls": model_calls(meta["hist"])})
    manswers = ctx.driver.batch(mreqs)
    # the model's view of the restricted histories (for reports)
    for meta, o, m in zip(hmeta, hres, manswers):
        if "error" in m:
            raise RuntimeError(f"driver error {m}")
        h = meta["hist"]
        wi = meta["world"]
        ctx.count(key=json.dumps([meta["shape"], h]), nontrivial=len(h) > 2, sample={"shape": meta["shape"], "history": h})
        ctx.stat("history_" + meta["shape"])
        nparse = -1
        origin = []
        for idx, (c, rec, mc) in enumerate(zip(h, o["calls"], m["calls"])):
            if c[0] == "parse":
                origin.append(c)
                # ---- specification: a parse gives the same verdict and diagnostics as in a fresh process
                b = bres[bindex[(wi, (c,))]]["calls"][0]
                view = lambda x: [x["ok"], (x["exc"] or {}).get("cls"), [(d["cls"], d["file"], d["line"], d["col"]) for d in x["diags"]]]
                if view(rec) != view(b):
                    ctx.report("history:parse-differs", f"parse of program {c[2]} in context {c[1]} gives {view(rec)[:2]} after the history {h[:idx]}, "
                               f"{view(b)[:2]} in a fresh process",
                               {"kind": "history", "world": {"files": meta["w"]["files"], "options": meta["w"]["options"]}, "history": h, "call": idx})
                continue
            k = c[1]
            if k >= len(origin):
                continue
            # ---- correspondence: paths written by this call, equal content identity => equal digest
            ipaths = sorted(e[1] for e in rec["log"])
            mpaths = sorted(p for p, _ in mc.get("files", []))
            if not rec["ok"] or mc["kind"] != "wrote":
                breaks.append({"history": h, "call": idx, "what": "outcome", "impl": rec["exc"], "model": mc["kind"]})
            elif ipaths != mpaths and c[0] == "generate":
                breaks.append({"history": h, "call": idx, "what": "paths written by the call", "only_impl": sorted(set(ipaths) - set(mpaths))[:4],
                               "only_model": sorted(set(mpaths) - set(ipaths))[:4]})
            if c[0] == "generate":
                for p, cid in mc.get("files", []):
                    d = rec.get("files", {}).get(p)
                    if d is not None:
                        by_cid.setdefault(cid, set()).add(d)
                ctx.stat("generate_calls")
                # ---- specification: equals the fresh-process result
                b = bres[bindex[(wi, (origin[k], ("generate", 0, c[2])))]]
                bfiles = b["calls"][1].get("files", {})
                if rec.get("files", {}) != bfiles:
                    leak = not mc.get("sameAsFresh", True)
                    differing = sorted(p for p in set(bfiles) | set(rec.get("files", {})) if bfiles.get(p) != rec.get("files", {}).get(p))
                    ctx.report("history:config-of-last-parse" if leak else "history:unexplained",
                               f"generate('{c[2]}') for parse result {k} differs from a fresh process with the same inputs "
                               f"({len(differing)} path(s), e.g. {differing[:2]}) after the history {h[:idx]}",
                               {"kind": "history", "world": {"files": meta["w"]["files"], "options": meta["w"]["options"]}, "history": h, "call": idx,
                                "differing": differing[:10], "model_predicts_leak": leak})
                elif not mc.get("sameAsFresh", True):
                    breaks.append({"history": h, "call": idx, "what": "model predicts a configuration leak, implementation equals the fresh result"})
            else:  # report
                ctx.stat("report_calls")
                sub = restrict(h[: idx + 1], k)
                b = bres[bindex[(wi, tuple(sub))]]
                bfiles = b["calls"][-1].get("files", {})
                if rec.get("files", {}) != bfiles:
                    ctx.report("history:report-accumulates",
                               f"the processed-files report written for parse result {k} differs from the report of a fresh process running only "
                               f"that result's calls, after the history {h[:idx]}",
                               {"kind": "history", "world": {"files": meta["w"]["files"], "options": meta["w"]["options"]}, "history": h, "call": idx})
    multi = {cid: ds for cid, ds in by_cid.items() if len(ds) > 1}
    if multi:
        cid = sorted(multi)[0]
        breaks.append({"what": "one content identity, several digests (the model's ContentId misses an input of the renderer)", "cid": cid, "n": len(multi)})
    ctx.stats["content_ids"] = len(by_cid)
    breaks = refusal_breaks + breaks
    ctx.stats["correspondence_breaks"] = len(breaks) + len(sort_breaks)
    if (breaks or sort_breaks) and not ctx.violations:
        first = sort_breaks[0] if sort_breaks else breaks[0]
        ctx.report("correspondence", "API/sort model and implementation disagree; determinism and history-freedom hold on everything sampled",
                   {"correspondence": "c10.sort vs jinja do_sort; c10.refusal vs configured_targets / refusal; c10.run vs API histories", "first": first, "count": len(breaks) + len(sort_breaks)},
                   no_failing_input=True)
    elif breaks or sort_breaks:
        ctx.stats["correspondence_first"] = json.dumps((sort_breaks or breaks)[0])[:400]
    ctx.assumptions += [
        "Dom freshApiPerReport: the report is a function of the whole call history of the API object (known finding)",
        "target_order_irrelevant assumes that different targets write different paths (disjoint output directories, C14)",
        "digests are compared after replacing the sandbox root; hash seeds 0-3 (quick) / 0-15 (thorough)",
    ]


def replay(ctx, body):
    if body.get("kind") == "seeds":
        outs = [obs_digest(sysgen.run_jobs(ctx, [body["job"]], workers=1, hashseed=s, tag="c10r")[0]) for s in body["seeds"]]
        same = outs[0] == outs[1]
        print(json.dumps({"seeds": body["seeds"], "equal": same,
                          "differing": sorted(p for p in outs[0]["files"] if outs[0]["files"].get(p) != outs[1]["files"].get(p))[:10]}, indent=1))
        return same
    if body.get("kind") == "history":
        w = {"files": body["world"]["files"], "options": body["world"]["options"],
             "progs": [{"root": p, "text": t} for p, t in sorted(body["world"]["files"].items())]}
        h = [tuple(c) for c in body["history"]]
        idx = body["call"]
        c = h[idx]
        origin = [x for x in h[:idx] if x[0] == "parse"]
        sub = restrict(h[: idx + 1], c[1])
        base_calls = [sub[0], sub[-1]] if c[0] == "generate" else sub
        o, b = sysgen.run_jobs(ctx, [history_job(w, h), history_job(w, base_calls)], workers=2, hashseed="0", tag="c10r")
        got, want = o["calls"][idx].get("files", {}), b["calls"][-1].get("files", {})
        print(json.dumps({"call": c, "equal": got == want, "differing": sorted(p for p in set(got) | set(want) if got.get(p) != want.get(p))[:10]}, indent=1))
        return got == want
    print("nothing to replay for this record")
    return True
