"""Generated-code harness shared by C08 and C09.

* runs the real generators (`GenerateContext.generate`) per declaration and per target in a sandbox
  directory and returns the files written (or the exception class when a template fails)
* a C-family / Java tokenizer and extractors for enumerator lists (strict: an unknown pattern inside
  an extracted region is reported, not skipped)
* a small parser for enumerator initialisers (`|`, `<<`, literals, names, parentheses) producing the JSON
  form of `Lang.EExpr`, and a Python evaluator with the same sequential-scope rule (cross-checked against
  the Lean evaluator on every run)
* wrappers for the external judges (g++, clang, javac/java), run in worker pools
"""
from __future__ import annotations

import os
import re
import shutil
import subprocess
from concurrent.futures import ThreadPoolExecutor
from pathlib import Path

TARGETS = ("cpp", "java", "objc", "cppcli")
JDK_INCLUDE = "/usr/lib/jvm/java-17-openjdk-amd64/include"


def cpp_support_includes() -> list[str]:
    """-I flags for the C++ support library headers of the repository under test"""
    import common
    g = common.SRC / "pydjinni" / "generator"
    return ["-I", str(g / "cpp" / "cpp" / "support_lib" / "include"), "-I", str(g / "support_lib" / "include")]


# ---------------------------------------------------------------------------------------------
# running the real generators
# ---------------------------------------------------------------------------------------------

def base_options(out: Path, cpp=None, java=None, objc=None, cppcli=None, jni=None, extra=None) -> dict:
    """Configuration used for every generated program: all four language targets, no support library copies,
    no `std::format` (g++ 12 has no <format>), distinct JNI header names."""
    gen = {
        "cpp": {"out": str(out / "cpp"), "string_serialization": False, **(cpp or {})},
        "java": {"out": str(out / "java"), "package": "vf.pkg", **(java or {})},
        "jni": {"out": str(out / "jni"), "namespace": "vf::jni",
                "identifier": {"file": {"style": "snake_case", "prefix": "jni_"}}, **(jni or {})},
        "objc": {"out": str(out / "objc"), **(objc or {})},
        "objcpp": {"out": str(out / "objcpp"), "namespace": "vf::objcpp"},
        "cppcli": {"out": str(out / "cppcli"), "namespace": "Vf::Cli", **(cppcli or {})},
        "support_lib_sources": False,
    }
    if extra:
        gen.update(extra)
    return {"generate": gen}


def snapshot(root: Path) -> dict:
    out = {}
    if root.exists():
        for p in sorted(root.rglob("*")):
            if p.is_file():
                out[str(p.relative_to(root))] = p.read_text(errors="replace")
    return out


def generate_per_decl(workdir: Path, idl_text: str, options: dict, targets=TARGETS) -> dict:
    """Parse `idl_text` with the real front end, then generate every declaration separately for every target
    (so that one failing template does not hide the other declarations). `idl_text` is the text of the root file
    `m.djinni` or a dict {relative path: text} of a program spread over several files (root `m.djinni`, the others
    reached through `@import`); the declarations of imported files are generated like those of the root file.

    Returns {"parse": "ok"|<exception class>, "decls": [{"name", "kind", "names": {...}, "files": {target: {path: text}},
             "errors": {target: exception class}}]}"""
    from pydjinni import API
    from pydjinni.exceptions import ApplicationException, ApplicationExceptionList
    from pydjinni.parser.ast import Enum, Flags, Record
    workdir.mkdir(parents=True, exist_ok=True)
    idl = workdir / "m.djinni"
    if isinstance(idl_text, dict):
        write_tree(workdir, idl_text)
    else:
        idl.write_text(idl_text)
    cwd = os.getcwd()
    os.chdir(workdir)
    try:
        try:
            gctx = API().configure(options=options).parse(idl)
        except ApplicationExceptionList as e:
            return {"parse": "diags", "diags": [type(i).__name__ + ": " + str(getattr(i, "description", ""))[:200] for i in e.items], "decls": []}
        except ApplicationException as e:
            return {"parse": type(e).__name__, "diags": [str(getattr(e, "description", ""))[:200]], "decls": []}
        all_defs = list(gctx.defs)
        out_root = Path(options["generate"]["cpp"]["out"]).parent
        decls = []
        for d in all_defs:
            info = {"name": str(d.name), "kind": type(d).__name__.lower(), "files": {}, "errors": {}, "names": {}}
            for t in targets:
                tdir = {"cpp": ["cpp"], "java": ["java", "jni"], "objc": ["objc", "objcpp"], "cppcli": ["cppcli"]}[t]
                for sub in tdir:
                    shutil.rmtree(out_root / sub, ignore_errors=True)
                gctx.defs = [d]
                try:
                    gctx.generate(t)
                except Exception as e:  # template failure: recorded as the observation of this (decl, target)
                    info["errors"][t] = type(e).__name__ + ": " + str(e)[:160]
                finally:
                    gctx.defs = all_defs
                for sub in tdir:
                    info["files"][sub] = snapshot(out_root / sub)
            try:
                if isinstance(d, (Enum, Flags)):
                    items = d.items if isinstance(d, Enum) else d.flags
                    configured = [t for t in ("cpp", "java", "objc", "cppcli", "jni") if t in options["generate"]]
                    info["names"] = {t: [str(getattr(i, t).name) for i in items] for t in configured if t != "jni"}
                    info["type_names"] = {**{t: str(getattr(d, t).name) for t in configured}, "cpp_typename": str(d.cpp.typename)}
                if isinstance(d, Record):
                    info["names"] = {"cpp": [str(f.cpp.name) for f in d.fields], "java": [str(f.java.name) for f in d.fields]}
                    info["type_names"] = {"cpp": str(d.cpp.name), "java": str(d.java.name), "cpp_typename": str(d.cpp.typename),
                                          "java_typename": str(d.java.typename), "cpp_header": str(d.cpp.header)}
                    info["deriving"] = sorted(str(getattr(x, "value", x)) for x in d.deriving)
                    info["file"] = os.path.relpath(str(d.position.file), str(workdir)) if getattr(d, "position", None) and d.position.file else None
            except Exception as e:
                info["errors"]["names"] = type(e).__name__ + ": " + str(e)[:160]
            decls.append(info)
        return {"parse": "ok", "decls": decls}
    finally:
        os.chdir(cwd)


def _gen_worker(args):
    workdir, idl_text, options, targets = args
    try:
        return generate_per_decl(Path(workdir), idl_text, options, targets)
    except Exception as e:  # pragma: no cover - harness failure, surfaced by the caller
        import traceback
        return {"parse": "harness-error", "diags": [traceback.format_exc()[-1500:]], "decls": []}


def generate_many(base: Path, jobs: list[tuple[str, dict]], targets=TARGETS, workers: int = 12) -> list[dict]:
    """jobs: [(idl_text, options_builder_result)] — options must point into base/<i>/out."""
    import multiprocessing as mp
    if not jobs:
        return []
    import pydjinni  # noqa: F401  (warm the import before forking)
    args = [(str(base / f"p{i}"), idl, opts, targets) for i, (idl, opts) in enumerate(jobs)]
    workers = max(1, min(workers, len(jobs)))
    with mp.get_context("fork").Pool(workers) as pool:
        return pool.map(_gen_worker, args, chunksize=1)


# ---------------------------------------------------------------------------------------------
# tokenizer for C / C++ / Objective-C / C++-CLI / Java
# ---------------------------------------------------------------------------------------------

_TOKEN = re.compile(r"""
    (?P<ws>\s+)
  | (?P<lc>//[^\n]*)
  | (?P<bc>/\*.*?\*/)
  | (?P<pp>^[ \t]*\#[^\n]*)
  | (?P<str>"(?:\\.|[^"\\\n])*")
  | (?P<chr>'(?:\\.|[^'\\\n])*')
  | (?P<num>0[xX][0-9a-fA-F]+[uUlL]*|\d+[uUlL]*)
  | (?P<id>[A-Za-z_$][A-Za-z0-9_$]*)
  | (?P<op><<=|>>=|>>>|<<|>>|::|->|\+\+|--|&&|\|\||==|!=|<=|>=|\[\[|\]\]|[-+*/%&|^~!<>=?:;,.(){}\[\]@])
""", re.X | re.S | re.M)


class TokenError(Exception):
    pass


_SPLICE = re.compile(r"\\[ \t\f\v]*\r?\n")


def splice_lines(text: str) -> str:
    """C / C++ / Objective-C translation phase 2: a backslash directly before the end of a line (g++ and clang also
    accept white space in between) joins the line with the next one — *before* comments are recognised, so a `//`
    comment whose text ends in a backslash (any number of them: phase 2 knows no escapes) continues over the next line."""
    return _SPLICE.sub("", text)


def java_unicode_pretranslate(text: str) -> str:
    """JLS 3.3: before tokenisation javac replaces `\\u+XXXX` by the character, where the backslash is eligible iff it is
    preceded by an even number of contiguous backslashes (so `\\\\u002a` stays text, `\\\\\\u002a` is `\\\\*`); a `\\u` that
    is eligible but not followed by four hex digits is a compile error (TokenError). The result is not rescanned."""
    out, i, n, run = [], 0, len(text), 0
    while i < n:
        c = text[i]
        if c != "\\":
            out.append(c)
            run = 0
            i += 1
            continue
        if run % 2 == 0 and i + 1 < n and text[i + 1] == "u":
            j = i + 1
            while j < n and text[j] == "u":
                j += 1
            hx = text[j:j + 4]
            if len(hx) != 4 or not all(h in "0123456789abcdefABCDEF" for h in hx):
                raise TokenError(f"illegal unicode escape at {i}: {text[i:i + 12]!r}")
            out.append(chr(int(hx, 16)))
            run = 0   # a translated character (even a backslash) does not take part in further escapes
            i = j + 4
            continue
        out.append(c)
        run += 1
        i += 1
    return "".join(out)


def tokenize(text: str, keep_pp: bool = False, lang: str = "c") -> list[tuple[str, str]]:
    """[(kind, text)] with kind in id/num/str/chr/op (/pp); comments and white space dropped.
    The text is first put through what the target compiler does *before* it recognises comments: line splicing for
    the C family (`lang="c"`), unicode-escape translation for Java (`lang="java"`)."""
    text = java_unicode_pretranslate(text) if lang == "java" else splice_lines(text)
    out, pos = [], 0
    while pos < len(text):
        m = _TOKEN.match(text, pos)
        if not m:
            raise TokenError(f"cannot tokenise at {pos}: {text[pos:pos + 30]!r}")
        pos = m.end()
        k = m.lastgroup
        if k in ("ws", "lc", "bc"):
            continue
        if k == "pp" and not keep_pp:
            continue
        out.append((k, m.group()))
    # `]]` may be two closing brackets of nested subscripts; irrelevant for the headers read here
    return out


def _matching(tokens, i, open_, close):
    depth = 0
    for j in range(i, len(tokens)):
        if tokens[j][1] == open_:
            depth += 1
        elif tokens[j][1] == close:
            depth -= 1
            if depth == 0:
                return j
    raise TokenError(f"unbalanced {open_}")


def _split_top(tokens, sep=","):
    parts, cur, depth = [], [], 0
    for t in tokens:
        if t[1] in ("(", "[", "{", "[["):
            depth += 1
        elif t[1] in (")", "]", "}", "]]"):
            depth -= 1
        if t[1] == sep and depth == 0:
            parts.append(cur)
            cur = []
        else:
            cur.append(t)
    parts.append(cur)
    return parts


def _strip_attributes(tokens):
    """remove `[[...]]` and `[...]` attribute groups (C++ / C++-CLI) from one enumerator"""
    out, i = [], 0
    while i < len(tokens):
        if tokens[i][1] == "[[":
            i = _matching(tokens, i, "[[", "]]") + 1
        elif tokens[i][1] == "[":
            i = _matching(tokens, i, "[", "]") + 1
        else:
            out.append(tokens[i])
            i += 1
    return out


def extract_c_enum(text: str, type_name: str) -> list[tuple[str, list | None]]:
    """Enumerators of `enum class [attrs] NAME [: T] { … }` / `typedef NS_ENUM|NS_OPTIONS(T, NAME) { … }` /
    `public enum class NAME { … }`: [(constant, initialiser tokens | None)]. Raises TokenError on anything else."""
    toks = tokenize(text)
    start = None
    for i, t in enumerate(toks):
        if t[1] in ("NS_ENUM", "NS_OPTIONS"):
            close = _matching(toks, i + 1, "(", ")")
            inner = [x[1] for x in toks[i + 2:close]]
            if inner[-1] != type_name:
                continue
            start = close + 1
            break
        if t[1] == "enum":
            j = i + 1
            if toks[j][1] in ("class", "struct"):
                j += 1
            while toks[j][1] == "[[":
                j = _matching(toks, j, "[[", "]]") + 1
            if toks[j][1] != type_name:
                continue
            j += 1
            if toks[j][1] == ":":
                while toks[j][1] != "{":
                    j += 1
            start = j
            break
    if start is None or toks[start][1] != "{":
        raise TokenError(f"no enum definition of {type_name}")
    end = _matching(toks, start, "{", "}")
    body = toks[start + 1:end]
    items = []
    if not body:
        return items
    for part in _split_top(body):
        part = _strip_attributes(part)
        if not part:
            raise TokenError("empty enumerator")
        if part[0][0] != "id":
            raise TokenError(f"enumerator does not start with a name: {part[0][1]}")
        if len(part) == 1:
            items.append((part[0][1], None))
        elif part[1][1] == "=":
            items.append((part[0][1], part[2:]))
        else:
            raise TokenError(f"unexpected token after enumerator name: {part[1][1]}")
    return items


def extract_java_enum(text: str, type_name: str) -> list[str]:
    toks = tokenize(text, lang="java")
    for i, t in enumerate(toks):
        if t[1] == "enum" and toks[i + 1][1] == type_name and toks[i + 2][1] == "{":
            end = _matching(toks, i + 2, "{", "}")
            body = toks[i + 3:end]
            # constants up to the first top-level ';'
            consts = _split_top(body, ";")[0]
            names = []
            if not consts:
                return names
            for part in _split_top(consts):
                part = [p for k, p in enumerate(part)]
                # annotations: '@' id [ '(' … ')' ]
                j = 0
                while j < len(part) and part[j][1] == "@":
                    j += 2
                    if j < len(part) and part[j][1] == "(":
                        j = _matching(part, j, "(", ")") + 1
                if j != len(part) - 1 or part[j][0] != "id":
                    raise TokenError(f"unexpected Java enum constant: {' '.join(p[1] for p in part)}")
                names.append(part[j][1])
            return names
    raise TokenError(f"no Java enum {type_name}")


# ---------------------------------------------------------------------------------------------
# enumerator initialisers: parser to the JSON form of Lang.EExpr, and an evaluator
# ---------------------------------------------------------------------------------------------

def parse_init(tokens) -> object:
    """tokens of an initialiser -> {"lit":n} | {"ref":s} | {"shl":[a,b]} | {"or":[a,b]} | "bad" """
    pos = 0

    def peek():
        return tokens[pos][1] if pos < len(tokens) else None

    def primary():
        nonlocal pos
        if pos >= len(tokens):
            raise TokenError("operand missing")
        k, s = tokens[pos]
        pos += 1
        if k == "num":
            s2 = s.rstrip("uUlL")
            return {"lit": int(s2, 16) if s2.lower().startswith("0x") else int(s2)}
        if k == "id":
            return {"ref": s}
        if s == "(":
            e = bor()
            if peek() != ")":
                raise TokenError("')' missing")
            pos += 1
            return e
        raise TokenError(f"unexpected {s}")

    def shift():
        nonlocal pos
        e = primary()
        while peek() == "<<":
            pos += 1
            e = {"shl": [e, primary()]}
        return e

    def bor():
        nonlocal pos
        e = shift()
        while peek() == "|":
            pos += 1
            try:
                rhs = shift()
            except TokenError:
                return {"or": [e, "bad"]}
            e = {"or": [e, rhs]}
        return e

    try:
        e = bor()
        if pos != len(tokens):
            return "bad"
        return e
    except TokenError:
        return "bad"


def eval_expr(e, env):
    if e == "bad":
        return None
    if "lit" in e:
        return e["lit"]
    if "ref" in e:
        return env.get(e["ref"])
    op = "shl" if "shl" in e else "or"
    a, b = eval_expr(e[op][0], env), eval_expr(e[op][1], env)
    if a is None or b is None:
        return None
    return a << b if op == "shl" else a | b


def eval_enumerators(items) -> list[list]:
    """[(name, init-json | None)] -> [[name, value | None]] — sequential scope, implicit = previous + 1"""
    env, out, nxt = {}, [], 0
    for name, init in items:
        v = nxt if init is None else eval_expr(init, env)
        out.append([name, v])
        if v is not None:
            env[name] = v
        nxt = None if v is None else v + 1
    return out


# ---------------------------------------------------------------------------------------------
# external judges
# ---------------------------------------------------------------------------------------------

def run_cmd(cmd, cwd=None, timeout=120, env=None):
    try:
        r = subprocess.run(cmd, cwd=cwd, capture_output=True, text=True, timeout=timeout, env=env)
        return r.returncode, r.stdout, r.stderr
    except subprocess.TimeoutExpired:
        return 124, "", "timeout"


def parallel(fn, items, workers=14):
    with ThreadPoolExecutor(max_workers=workers) as ex:
        return list(ex.map(fn, items))


def write_tree(root: Path, files: dict):
    for rel, text in files.items():
        p = root / rel
        p.parent.mkdir(parents=True, exist_ok=True)
        p.write_text(text)
