"""Language-server harness for C18: the real handlers driven in-process, and the front-end oracle.

* `Session`: one `init_language_server(...)` instance with `publish_diagnostics` / `show_message_log` / `show_message`
  recorded, a `Workspace` with full text sync, hierarchical symbol support switchable per request. Notifications go through
  pygls' built-in feature (it updates the workspace and chains to the user handler), requests through the user feature.
  `API()` construction (0.2 s, plugin discovery) is shared between sessions: `language_server.configure_api` is replaced by a
  function that returns a *fresh* `ConfiguredContext` of one shared `API` object — the per-server state (`api`, the caches) is
  still created per session.
* `oracle(uri, text)`: what the front end says about this text now — a fresh configured context, `parse(TextDocumentPath(doc))`,
  classified into the constructors `validate()` distinguishes, with exactly the attributes the handlers read
  (positions, `type_def` comment / deprecated / file, symbol payloads). Documents are never written to disk; imports resolve against
  the files the scenario put on disk.
* `run_sequence(scn, events)`: fresh session, disk state of the scenario, the events (disk events rewrite files), canonical
  outputs per event; `front_table(scn, events)`: the oracle for every (disk epoch, uri, text) of the sequence.
Texts are referred to by index into `scn["texts"]`; URIs by document name.
"""
from __future__ import annotations

import json
import os
import shutil
from pathlib import Path

_api = None
_LS = None


def _shared_api():
    global _api
    if _api is None:
        from pydjinni import API
        _api = API()
    return _api


def fresh_context():
    return _shared_api().configure(options={"generate": {}})


def _ls_module():
    global _LS
    if _LS is None:
        import pydjinni_language_server.language_server as LS
        LS.configure_api = lambda config: fresh_context()
        _LS = LS
    return _LS


def encode_uri(path: str, style: str = "py") -> str:
    """the `file:` URI of an absolute path as a client spells it. `py`: what `Path.as_uri()` writes (everything outside
    `[A-Za-z0-9_.~/-]` percent-encoded as UTF-8, upper-case hex); `lower`: the same with lower-case hex digits (RFC 3986 calls
    the two equivalent, as strings they differ); `min`: only the characters that cannot stand in a URI path are encoded
    (blank, `%`, `#`, `?`), non-ASCII letters and `+` are sent as they are."""
    from urllib.parse import quote
    import re
    if style == "min":
        return "file://" + "".join("%%%02X" % ord(c) if c in ' %#?"<>' else c for c in path)
    q = quote(path)
    if style == "lower":
        q = re.sub(r"%[0-9A-F]{2}", lambda m: m.group(0).lower(), q)
    return "file://" + q


def uri_of(root: Path, name: str, scn=None) -> str:
    """URI of the document with key `name`: the scenario may give the document another file name (blanks, non-ASCII letters,
    `#`, `%`, `+` — everything a client percent-encodes) and a spelling style"""
    stem = (scn or {}).get("names", {}).get(name, name)
    return encode_uri(f"{root}/{stem}.pydjinni", (scn or {}).get("style", "py"))


def config_uri(root: Path) -> str:
    return (root / "pydjinni.yaml").absolute().as_uri()


def unquote_table(uris) -> list:
    """`urllib.parse.unquote` on the URIs of a history, as the model's `unq` parameter (rows only where it is not the identity)"""
    from urllib.parse import unquote
    return [[u, unquote(u)] for u in sorted(set(uris)) if unquote(u) != u]


# ---------------------------------------------------------------------------------------------
# canonical forms
# ---------------------------------------------------------------------------------------------

def rng(r) -> list[int]:
    return [r.start.line, r.start.character, r.end.line, r.end.character]


def pos_range(position) -> list[int]:
    """`type_range`, re-stated: 0-based lines; (0,0)-(0,0) without start/end"""
    if position is not None and position.start and position.end:
        return [position.start.line - 1, position.start.col, position.end.line - 1, position.end.col]
    return [0, 0, 0, 0]


def _tags(x):
    t = getattr(x, "tags", None)
    return None if t is None else sorted(int(v) for v in t)


def canon_symbol(s) -> str:
    """every attribute of a returned `DocumentSymbol` a client reads, children included: name, kind, both ranges, detail,
    `deprecated` (None = attribute absent), `tags` (None = absent; SymbolTag.Deprecated = 1)"""
    def c(x):
        return [x.name, int(x.kind), rng(x.range), rng(x.selection_range), x.detail, bool(x.deprecated) if x.deprecated is not None else None,
                _tags(x), [c(k) for k in (x.children or [])]]
    return json.dumps(c(s))


def canon_info(name, kind, range4, deprecated, container, tags=None) -> str:
    return json.dumps([name, int(kind), range4, bool(deprecated) if deprecated is not None else None, tags, container])


# ---------------------------------------------------------------------------------------------
# what the symbol requests have to answer for one declaration of the current text: stated here from the front end's AST
# (attributes `primitive`, `name`, `position`, `deprecated`, `fields` / `items` / `flags` / `error_codes` / `methods` / `parameters`),
# NOT through `pydjinni_language_server.util` — the functions under test never produce their own expectation.
# ---------------------------------------------------------------------------------------------

def is_deprecated(decl) -> bool:
    """the front end stores `True` for a bare `@deprecated` and the reason text for `@deprecated <reason>`; `False` = not deprecated"""
    d = decl.deprecated
    return d is True or (isinstance(d, str))


def expected_symbol(n) -> list:
    """the hierarchical `DocumentSymbol` of a declaration. Types, interface methods and named functions carry `deprecated`
    (both forms of `@deprecated`); fields, enum items, flags, error codes and parameters are listed WITHOUT a `deprecated`
    attribute (that is what the server documents/does for them, whatever their own comment says); properties of an interface
    are not listed; nothing carries `tags`."""
    from lsprotocol.types import SymbolKind as K

    def sym(x, kind, detail=None, deprecated=None, children=()):
        r = pos_range(x.position)
        return [x.name, int(kind), r, r, detail, deprecated, None, list(children)]

    def params(ps):
        return [sym(p, K.Variable, p.type_ref.name) for p in ps]

    if not hasattr(n, "primitive"):                      # a namespace: no comment model, children are declarations
        if hasattr(n, "children"):
            return sym(n, K.Namespace, children=[expected_symbol(c) for c in n.children])
        return sym(n, K.Null)
    p = str(n.primitive)
    dep = is_deprecated(n)
    if p == "interface":
        return sym(n, K.Interface, "interface", dep, [
            sym(m, K.Method, m.return_type_ref.name if m.return_type_ref else None, is_deprecated(m), params(m.parameters)) for m in n.methods])
    if p == "record":
        return sym(n, K.Class, "record", dep, [sym(f, K.Field, f.type_ref.name) for f in n.fields])
    if p == "enum":
        return sym(n, K.Enum, "enum", dep, [sym(i, K.EnumMember) for i in n.items])
    if p == "flags":
        return sym(n, K.Enum, "flags", dep, [sym(f, K.EnumMember, "all" if f.all else "none" if f.none else None) for f in n.flags])
    if p == "error":
        return sym(n, K.Class, "error", dep, [sym(c, K.Field, children=params(c.parameters)) for c in n.error_codes])
    if p == "function":
        return sym(n, K.Function, n.return_type_ref.name if n.return_type_ref else None, dep, params(n.parameters))
    return sym(n, expected_flat_kind(n))


def expected_flat_kind(n) -> int:
    from lsprotocol.types import SymbolKind as K
    p = str(getattr(n, "primitive", ""))
    return int({"interface": K.Interface, "record": K.Struct, "error": K.Struct, "function": K.Function, "enum": K.Enum, "flags": K.Enum}.get(p, K.Null))


def deprecation_census(ast) -> dict:
    """coverage: (kind of declaration, form of its deprecation in the front end's result) over an AST"""
    out = {}

    def form(x):
        d = getattr(x, "deprecated", None)
        return "n/a" if d is None else "reason" if isinstance(d, str) else "bare" if d is True else "none"

    def walk(x, kind):
        k = kind + ":" + form(x)
        out[k] = out.get(k, 0) + 1
        for attr, ck in (("children", None), ("fields", "field"), ("items", "item"), ("flags", "flag"), ("error_codes", "error-code"),
                         ("methods", "method"), ("properties", "property"), ("parameters", "parameter")):
            for c in getattr(x, attr, None) or []:
                walk(c, ck or (str(c.primitive) if hasattr(c, "primitive") else "namespace"))
    for a in ast:
        walk(a, str(a.primitive) if hasattr(a, "primitive") else "namespace")
    return out


def canon_answer(r):
    from lsprotocol.types import Hover, Location
    if r is None:
        return {"a": "null"}
    if isinstance(r, Hover):
        return {"a": "hover", "text": r.contents.value, "range": rng(r.range)}
    if isinstance(r, Location):
        return {"a": "location", "uri": r.uri, "range": rng(r.range)}
    if isinstance(r, list):
        out = []
        for x in r:
            if hasattr(x, "selection_range"):
                out.append(canon_symbol(x))
            else:
                out.append(canon_info(x.name, x.kind, rng(x.location.range), x.deprecated, x.container_name, _tags(x)))
        return {"a": "symbols", "l": out}
    return {"a": "other", "repr": repr(r)[:200]}


# ---------------------------------------------------------------------------------------------
# oracle: the front end on one text
# ---------------------------------------------------------------------------------------------

def oracle(uri: str, text: str) -> dict:
    from pygls.workspace import TextDocument
    from pydjinni.exceptions import ApplicationException, ConfigurationException
    from pydjinni.parser.parser import Parser
    from pydjinni.parser.ast import Function
    from pydjinni.parser.base_models import BaseType, BaseExternalType
    from pydjinni_language_server.text_document_path import TextDocumentPath

    doc = TextDocument(uri, source=text)

    def own(position):
        return bool(position is not None and isinstance(position.file, TextDocumentPath) and position.file.document.uri == uri)

    def file_uri(f):
        """the URI of the file a position lies in, stated by the harness: an editor buffer IS the URI its client sent (an opaque key,
        whatever its spelling: literal `+`, lower-case escapes, unencoded non-ASCII letters), a file read from disk is pathlib's
        spelling of its path. Not `position.file.as_uri()` of the buffer's path object: that is the server's own code, and the
        expectation would follow any regression in it (both sides would then drop every declaration of the document)."""
        if isinstance(f, TextDocumentPath):
            return f.document.uri
        return Path(os.path.abspath(str(f))).as_uri() if not Path(str(f)).is_absolute() else Path(str(f)).as_uri()

    def dinfo(td):
        if not td:
            return None
        has_file = bool(td.position and td.position.file)
        return {"comment": td.comment if td.comment else None, "deprecated": bool(td.deprecated),
                "depFile": file_uri(td.position.file) if (isinstance(td, BaseType) and has_file) else None,
                "loc": [file_uri(td.position.file), pos_range(td.position)] if (has_file and isinstance(td, BaseExternalType)) else None}

    def ref(r):
        return {"own": own(r.position), "line": r.position.start.line, "sc": r.position.start.col, "ec": r.position.end.col,
                "range": pos_range(r.position), "def": dinfo(r.type_def), "params": [ref(p) for p in r.parameters]}

    def fref(f):
        return {"own": own(f.position), "line": f.position.start.line, "sc": f.position.start.col, "ec": f.position.end.col,
                "range": pos_range(f.position), "pathText": f"```txt\n{f.path}\n```", "pathUri": file_uri(f.path)}

    def node(n, with_info):
        info = None
        if with_info and not (isinstance(n, Function) and n.anonymous):
            info = canon_info(n.name, expected_flat_kind(n), pos_range(n.position), is_deprecated(n), ".".join(n.namespace))
        return {"fileUri": file_uri(n.position.file), "sym": json.dumps(expected_symbol(n)) if not with_info else "", "info": info}

    def parts(defs, refs, imports, ast):
        return {"defs": [node(d, True) for d in defs], "refs": [ref(r) for r in refs], "imports": [fref(f) for f in imports],
                "ast": [node(a, False) for a in ast], "census": deprecation_census([a for a in ast if own(a.position)])}

    buffer_ok = TextDocumentPath(doc).read_text() == text     # the front end must be given the editor buffer
    r = _oracle_parse(doc, parts, own)
    r["buffer_ok"] = buffer_ok
    return r


def _oracle_parse(doc, parts, own):
    from pydjinni.exceptions import ApplicationException, ConfigurationException
    from pydjinni.parser.parser import Parser
    from pydjinni_language_server.text_document_path import TextDocumentPath
    try:
        g = fresh_context().parse(TextDocumentPath(doc))
        return {"k": "ok", **parts(g.defs, g.refs, g.file_imports, g.ast)}
    except Parser.ParsingExceptionList as e:
        # a declaration the parser could not build (junk between declarations, a keyword as a name, ...) is `None` in the recovered
        # tree it hands out with the error list; the server rebuilds its caches from the declarations that exist
        # (before fix "None in the recovered tree" it dereferenced every entry: nothing published, stale caches)
        return {"k": "errs", "items": [[own(x.position), pos_range(x.position)] for x in e.items],
                **parts(e.type_decls, e.type_refs, e.file_imports, [a for a in e.ast if a is not None]),
                "recovered_none": sum(1 for a in e.ast if a is None)}
    except ConfigurationException:
        return {"k": "cfg"}
    except ApplicationException as e:
        return {"k": "app", "own": bool(e.position) and own(e.position), "range": pos_range(e.position), "cls": type(e).__name__}
    except Exception as e:  # noqa: BLE001 - the front end crashed (C06's subject); the server's handler swallows it
        return {"k": "crash", "cls": type(e).__name__}


# ---------------------------------------------------------------------------------------------
# the real server
# ---------------------------------------------------------------------------------------------

class Session:
    def __init__(self, root: Path):
        from lsprotocol.types import (ClientCapabilities, TextDocumentClientCapabilities, DocumentSymbolClientCapabilities,
                                      TextDocumentSyncKind, MessageType)
        from pygls.workspace import Workspace
        LS = _ls_module()
        self.root = root
        self.server = LS.init_language_server(config=root / "pydjinni.yaml", generate_on_save=False, generate_base_path=root / "gen", log=None)
        self.pubs, self.errors = [], []
        self.server.publish_diagnostics = self._publish
        self.MessageType = MessageType

        def log(msg, msg_type=MessageType.Log):
            if msg_type == MessageType.Error:
                self.errors.append(str(msg).strip().split("\n")[-1][:200])
        self.server.show_message_log = log
        self.server.show_message = lambda *a, **k: None
        self.server.lsp._workspace = Workspace(root.as_uri(), TextDocumentSyncKind.Full)
        self._caps = {h: ClientCapabilities(text_document=TextDocumentClientCapabilities(
            document_symbol=DocumentSymbolClientCapabilities(hierarchical_document_symbol_support=h))) for h in (True, False)}
        self.server.lsp.client_capabilities = self._caps[True]
        self.server.lsp.send_request = lambda *a, **k: None   # workspace/codeLens/refresh has no transport here
        self.fm = self.server.lsp.fm
        self.version = {}

    def _publish(self, uri, diagnostics=None, **kw):
        self.pubs.append([uri, [[int(d.severity), rng(d.range)] for d in (diagnostics or [])]])

    def _notify(self, method, params):
        f = self.fm.builtin_features.get(method) or self.fm.features[method]
        return f(params)

    def event(self, scn, ev) -> dict:
        """apply one event; returns the canonical observation of it"""
        from lsprotocol import types as T
        root = self.root
        k = ev["ev"]
        u = uri_of(root, ev["u"], scn) if "u" in ev else None
        n_pub, n_err = len(self.pubs), len(self.errors)
        ans, misuse = {"a": "none"}, False
        try:
            if k == "open":
                self.version[u] = 1
                self._notify(T.TEXT_DOCUMENT_DID_OPEN, T.DidOpenTextDocumentParams(T.TextDocumentItem(u, "pydjinni", 1, scn["texts"][ev["t"]])))
            elif k == "change":
                self.version[u] = self.version.get(u, 1) + 1
                self._notify(T.TEXT_DOCUMENT_DID_CHANGE, T.DidChangeTextDocumentParams(
                    T.VersionedTextDocumentIdentifier(self.version[u], u), [T.TextDocumentContentChangeEvent_Type2(scn["texts"][ev["t"]])]))
            elif k == "close":
                self._notify(T.TEXT_DOCUMENT_DID_CLOSE, T.DidCloseTextDocumentParams(T.TextDocumentIdentifier(u)))
            elif k == "save":
                self._notify(T.TEXT_DOCUMENT_DID_SAVE, T.DidSaveTextDocumentParams(T.TextDocumentIdentifier(u)))
            elif k == "hover":
                ans = canon_answer(self.fm.features[T.TEXT_DOCUMENT_HOVER](T.HoverParams(T.TextDocumentIdentifier(u), T.Position(ev["line"], ev["col"]))))
            elif k == "definition":
                ans = canon_answer(self.fm.features[T.TEXT_DOCUMENT_DEFINITION](T.DefinitionParams(T.TextDocumentIdentifier(u), T.Position(ev["line"], ev["col"]))))
            elif k == "symbols":
                self.server.lsp.client_capabilities = self._caps[bool(ev["hier"])]
                ans = canon_answer(self.fm.features[T.TEXT_DOCUMENT_DOCUMENT_SYMBOL](T.DocumentSymbolParams(T.TextDocumentIdentifier(u))))
            elif k == "watched":
                self._notify(T.WORKSPACE_DID_CHANGE_WATCHED_FILES, T.DidChangeWatchedFilesParams(
                    [T.FileEvent(watched_uri(root, c, scn), T.FileChangeType.Changed) for c in ev["changes"]]))
            elif k == "disk":
                apply_disk(root, ev["files"])
            else:
                raise ValueError(k)
        except KeyError:
            misuse = True      # pygls rejects the message itself
        return {"pubs": self.pubs[n_pub:], "answer": ans, "errors": len(self.errors) - n_err, "misuse": misuse,
                "error_text": self.errors[n_err:][:2]}


def watched_uri(root: Path, c: str, scn=None) -> str:
    return config_uri(root) if c == "<config>" else encode_uri(str(root / c), (scn or {}).get("style", "py"))


def apply_disk(root: Path, files: dict):
    for name, content in files.items():
        p = root / name
        if content is None:
            if p.exists():
                p.unlink()
        else:
            p.parent.mkdir(parents=True, exist_ok=True)
            p.write_text(content)


def reset_disk(root: Path, scn):
    for p in root.iterdir():
        if p.is_dir():
            shutil.rmtree(p)
        else:
            p.unlink()
    apply_disk(root, scn.get("disk", {}))


def model_events(root: Path, events, scn=None):
    """the event list as the Lean model takes it (URIs spelled out, disk events without their payload)"""
    out = []
    for ev in events:
        e = {k: v for k, v in ev.items() if k != "files"}
        if "u" in e:
            e["u"] = uri_of(root, e["u"], scn)
        if e["ev"] == "watched":
            e["changes"] = [watched_uri(root, c, scn) for c in ev["changes"]]
        out.append(e)
    return out


def model_unq(root: Path, events, scn=None) -> list:
    """the percent-decoder on every URI the history mentions"""
    uris = []
    for e in model_events(root, events, scn):
        if "u" in e:
            uris.append(e["u"])
        uris += e.get("changes", [])
    return unquote_table(uris)


def front_table(root: Path, scn, events) -> list[dict]:
    """oracle for every (disk epoch, uri, text) the sequence can ask for; leaves the disk in the state after the sequence"""
    uts = []
    for ev in events:
        if ev["ev"] in ("open", "change") and (ev["u"], ev["t"]) not in uts:
            uts.append((ev["u"], ev["t"]))
    reset_disk(root, scn)
    table, epoch = [], 0

    def fill():
        for name, t in uts:
            table.append({"e": epoch, "u": uri_of(root, name, scn), "t": t, "r": oracle(uri_of(root, name, scn), scn["texts"][t])})
    fill()
    for ev in events:
        if ev["ev"] == "disk":
            apply_disk(root, ev["files"])
            epoch += 1
            fill()
    return table


def run_sequence(root: Path, scn, events) -> list[dict]:
    reset_disk(root, scn)
    s = Session(root)
    return [s.event(scn, ev) for ev in events]


def setup(root: Path):
    """working directory of the process = the workspace root (relative import literals resolve there first)"""
    root.mkdir(parents=True, exist_ok=True)
    os.chdir(root)
