"""Generator-layer harness shared by C02 and C07 (owner: C02/C07 builder).

* seeded generator of *valid* IDL programs inside a closed feature set (see `FEATURES`) and of
  generator configurations (identifier styles incl. none/prefixed, namespaces, packages, not_null,
  nullable/nonnull annotations, header extensions);
* translator: the built-in type tables of all generators (`API().internal_types`) as JSON rows for the
  driver and as a generated Lean file with `decide`-checked obligations;
* adapter: runs the real parser / marshalling objects / generators and dumps the resolved AST in the
  shape `Drv/GenJson.lean` decodes (the generator layer receives the AST as the real parser built it).
"""
from __future__ import annotations

import itertools
import json
import os
import random
import re
from pathlib import Path

PRIMS = ['bool', 'i8', 'i16', 'i32', 'i64', 'f32', 'f64', 'string', 'binary', 'date']
CASES = ['none', 'camelCase', 'PascalCase', 'snake_case', 'TRAIN_CASE']

FEATURES = (
    "closed feature set of generated programs: enums, flags (ordinary / none / all), records (fields of primitive, "
    "collection, enum, flags, record, optional types; optionally +cpp/+java/+objc/+cppcli base records in the C02 stream; in the C07 "
    "`tgt` stream records / interfaces / named functions with every list of target keys, in every spelling), "
    "interfaces (+cpp, -cpp, unflagged; static methods only on +cpp; const; async with a return type; throws with error "
    "domains of the same namespace), named functions (±cpp, with parameters/returns of data types), inline function "
    "parameters on interface methods (over built-ins; in the C07 streams also over user types of an enclosing namespace, spelled "
    "unqualified, with identifiers of every character-class shape: digit→letter, letter→digit, lower→upper, `__`), error domains (codes with primitive/enum/optional parameters; in the C02 stream every second program up to 4 parameters of collection / flags / record types too), namespaces up to "
    "depth 2 with program-wide unique declaration names (also for anonymous functions: unique signatures), generic nesting up to 3; "
    "identifiers outside all target keyword lists; no deriving, no @extern/@import, "
    "no self-referential function types, no async method without return type (DESIGN §9 rows 8-13, 38-57)"
)

_api = None


def api():
    global _api
    if _api is None:
        from pydjinni import API
        _api = API()
    return _api


# --------------------------------------------------------------------------------------------------------
# translator: built-in tables
# --------------------------------------------------------------------------------------------------------

def parse_java_type(s: str):
    """`java.util.ArrayList`, `byte[]`, `int`, `String` -> JType JSON (simple names live in java.lang)."""
    s = s.strip()
    if s.endswith("[]"):
        return {"arr": parse_java_type(s[:-2])}
    if s in ("boolean", "byte", "char", "short", "int", "long", "float", "double"):
        return {"prim": s}
    args = []
    m = re.match(r"^([^<]+)<(.*)>$", s)
    if m:
        s = m.group(1)
        depth, cur = 0, ""
        for ch in m.group(2):
            if ch == "," and depth == 0:
                args.append(parse_java_type(cur))
                cur = ""
                continue
            depth += ch == "<"
            depth -= ch == ">"
            cur += ch
        args.append(parse_java_type(cur))
    parts = s.split(".")
    pkg = parts[:-1] if len(parts) > 1 else ["java", "lang"]
    return {"pkg": pkg, "name": parts[-1], "args": args}


def builtin_rows() -> list[dict]:
    rows = []
    for t in api().internal_types:
        rows.append({
            "name": t.name, "prim": t.primitive.value,
            "cppTypename": t.cpp.typename, "cppHeader": str(t.cpp.header) if t.cpp.header else "", "cppByValue": bool(t.cpp.by_value),
            "javaTypename": t.java.typename, "javaBoxed": t.java.boxed, "javaReference": bool(t.java.reference),
            "javaJ": parse_java_type(t.java.typename), "javaBoxedJ": parse_java_type(t.java.boxed),
            "jniTranslator": t.jni.translator, "jniTypename": str(t.jni.typename.value), "jniSig": t.jni.type_signature,
            "jniBoxedSig": t.jni.boxed_type_signature,
            "objcTypename": t.objc.typename, "objcBoxed": t.objc.boxed, "objcPointer": bool(t.objc.pointer),
            "cliTypename": t.cppcli.typename, "cliTranslator": t.cppcli.translator, "cliReference": bool(t.cppcli.reference),
        })
    return rows


def lean_str(s: str) -> str:
    return json.dumps(s)


def lean_jtype(j) -> str:
    if "prim" in j:
        return f'(.prim {lean_str(j["prim"])})'
    if "arr" in j:
        return f'(.arr {lean_jtype(j["arr"])})'
    return f'(.cls [{", ".join(lean_str(p) for p in j["pkg"])}] {lean_str(j["name"])} [{", ".join(lean_jtype(a) for a in j["args"])}])'


def lean_builtin(r: dict) -> str:
    b = lambda x: "true" if x else "false"
    return ("{ name := %s, prim := .%s, cppTypename := %s, cppHeader := %s, cppByValue := %s, javaTypename := %s, javaBoxed := %s, "
            "javaReference := %s, javaJ := %s, javaBoxedJ := %s, jniTranslator := %s, jniTypename := %s, jniSig := %s, jniBoxedSig := %s, "
            "objcTypename := %s, objcBoxed := %s, objcPointer := %s, cliTypename := %s, cliTranslator := %s, cliReference := %s }") % (
        lean_str(r["name"]), r["prim"], lean_str(r["cppTypename"]), lean_str(r["cppHeader"]), b(r["cppByValue"]),
        lean_str(r["javaTypename"]), lean_str(r["javaBoxed"]), b(r["javaReference"]), lean_jtype(r["javaJ"]), lean_jtype(r["javaBoxedJ"]),
        lean_str(r["jniTranslator"]), lean_str(r["jniTypename"]), lean_str(r["jniSig"]), lean_str(r["jniBoxedSig"]),
        lean_str(r["objcTypename"]), lean_str(r["objcBoxed"]), b(r["objcPointer"]), lean_str(r["cliTypename"]),
        lean_str(r["cliTranslator"]), b(r["cliReference"]))


def lean_builtin_table(rows: list[dict], namespace: str) -> str:
    out = [f"namespace {namespace}", "open Pydjinni.Gen", ""]
    for r in rows:
        out.append(f"def row_{r['name']} : Builtin := {lean_builtin(r)}")
    out.append("def rows : List Builtin := [" + ", ".join(f"row_{r['name']}" for r in rows) + "]")
    return "\n".join(out) + "\n"


# --------------------------------------------------------------------------------------------------------
# configurations
# --------------------------------------------------------------------------------------------------------

def rand_style(r: random.Random, allow_prefix=True, cases=CASES):
    c = r.choice(cases)
    if allow_prefix and r.random() < 0.2:
        return {'style': c, 'prefix': r.choice(['X', 'k_', 'P'])}
    return c


def rand_config(r: random.Random, out: Path, compile_safe=False) -> dict:
    """A random generator configuration.  `compile_safe`: only configurations under which the Java output is
    meant to compile and JNI/C++ headers do not collide (used by C07 and by the file-level part of C02)."""
    d = Path(out)
    ident_cases = ['camelCase', 'PascalCase', 'snake_case', 'TRAIN_CASE'] if compile_safe else CASES
    st = lambda pfx=True: rand_style(r, pfx, ident_cases)
    cfg = {'generate': {
        'cpp': {'out': str(d / 'cpp'), 'namespace': r.choice(['a::b', 'x::y', 'my_ns::Inner::z']),
                'identifier': {'type': st(), 'namespace': st(False), 'file': st(), 'field': st(False), 'method': st(False), 'enum': st(False)},
                'header_extension': r.choice(['hpp', 'h'])},
        'java': {'out': str(d / 'java'), 'package': r.choice(['com.ex.lib', 'a.bb.c_d.e1']),
                 'identifier': {'type': st(), 'package': st(False), 'field': st(False), 'method': st(False), 'enum': st(False)}},
        'jni': {'out': str(d / 'jni'), 'namespace': 'j::n',
                'identifier': {'class_name': st(), 'file': {'style': 'snake_case', 'prefix': 'jni_'} if compile_safe else st(),
                               'method': st(False), 'field': st(False)},
                'header_extension': r.choice(['hpp', 'hh'])},
        'objc': {'out': str(d / 'objc'), 'type_prefix': r.choice(['', 'XY', 'Dj']),
                 'identifier': {'type': st(), 'field': st(False), 'method': st(False), 'enum': st(False)},
                 'header_extension': r.choice(['h', 'hh'])},
        'objcpp': {'out': str(d / 'objcpp'), 'namespace': 'o::p', 'header_extension': r.choice(['h', 'hpp'])},
        'cppcli': {'out': str(d / 'cppcli'), 'namespace': r.choice(['Cli::Ns', 'X::Y']),
                   'identifier': {'type': st(), 'namespace': st(False), 'file': st(), 'method': st(False), 'property': st(False),
                                  'local': st(False), 'enum': st(False)}}}}
    g = cfg['generate']
    if r.random() < 0.4:
        g['cpp']['not_null'] = {'type': '::gsl::not_null', 'header': '<gsl/pointers>'}
    if r.random() < 0.3:
        g['java']['nullable_annotation'] = '@org.x.Nullable' if compile_safe else '@Nullable'
    if r.random() < 0.3:
        g['java']['nonnull_annotation'] = '@org.x.NonNull' if compile_safe else r.choice(['@NotNull', '@org.x.NonNull'])
    if r.random() < 0.2:
        g['java']['use_final_for_record'] = False
    if r.random() < 0.2:
        g['java']['class_access_modifier'] = 'package'
    if r.random() < 0.3:
        g['cppcli']['nullability_attributes'] = False
    if r.random() < 0.2:
        g['objc']['strict_protocols'] = True
    if r.random() < 0.3:
        g['objc']['swift'] = {'rename_interfaces': False}
    if r.random() < 0.15:
        g['java']['support_types_package'] = 'support'
    return cfg


def default_like_config(out: Path, **over) -> dict:
    """The default identifier styles, with the file prefix the project's init template uses for JNI."""
    d = Path(out)
    cfg = {'generate': {
        'cpp': {'out': str(d / 'cpp'), 'namespace': 'a::b'},
        'java': {'out': str(d / 'java'), 'package': 'com.ex.lib'},
        'jni': {'out': str(d / 'jni'), 'namespace': 'j::n', 'identifier': {'file': {'style': 'snake_case', 'prefix': 'jni_'}}},
        'objc': {'out': str(d / 'objc'), 'type_prefix': 'XY'},
        'objcpp': {'out': str(d / 'objcpp'), 'namespace': 'o::p'},
        'cppcli': {'out': str(d / 'cppcli'), 'namespace': 'Cli::Ns'}}}
    for k, v in over.items():
        node = cfg['generate']
        parts = k.split('.')
        for p in parts[:-1]:
            node = node.setdefault(p, {})
        node[parts[-1]] = v
    return cfg


def style_json(s) -> dict:
    """IdentifierStyle | IdentifierStyle.Case (as the real config model holds it) -> driver JSON"""
    from pydjinni.config.types import IdentifierStyle
    if isinstance(s, IdentifierStyle):
        return {"case": s.style.value, "pfx": s.prefix}
    return {"case": s.value, "pfx": None}


def lean_cfg(config) -> dict:
    """Driver configuration from the *validated* configuration model (so defaults come from the real code)."""
    g = config.generate
    cpp, java, jni, objc, objcpp, cli = g.cpp, g.java, g.jni, g.objc, g.objcpp, g.cppcli

    def ns(x):
        return list(x) if not isinstance(x, str) else x.split('::')

    from pydjinni.generator.java.java.config import JavaConfig
    return {
        "cpp": {"ns": ns(cpp.namespace), "type": style_json(cpp.identifier.type), "enum": style_json(cpp.identifier.enum),
                "file": style_json(cpp.identifier.file), "field": style_json(cpp.identifier.field), "method": style_json(cpp.identifier.method),
                "namespace": style_json(cpp.identifier.namespace), "headerExt": cpp.header_extension, "notNull": cpp.not_null.type},
        "java": {"package": list(java.package), "type": style_json(java.identifier.type), "field": style_json(java.identifier.field),
                 "method": style_json(java.identifier.method), "enum": style_json(java.identifier.enum),
                 "package_style": style_json(java.identifier.package), "nullable": java.nullable_annotation, "nonnull": java.nonnull_annotation,
                 "classPublic": java.class_access_modifier == JavaConfig.ClassAccessModifier.public, "useFinal": bool(java.use_final_for_record),
                 "supportPackage": list(java.support_types_package)},
        "jni": {"ns": ns(jni.namespace), "file": style_json(jni.identifier.file), "class_name": style_json(jni.identifier.class_name),
                "enum": style_json(jni.identifier.enum), "field": style_json(jni.identifier.field), "method": style_json(jni.identifier.method),
                "namespace": style_json(jni.identifier.namespace), "headerExt": jni.header_extension},
        "objc": {"typePrefix": objc.type_prefix, "type": style_json(objc.identifier.type), "enum": style_json(objc.identifier.enum),
                 "field": style_json(objc.identifier.field), "method": style_json(objc.identifier.method), "headerExt": objc.header_extension,
                 "strictProtocols": bool(objc.strict_protocols), "swiftRename": bool(objc.swift.rename_interfaces)},
        "objcppHeaderExt": objcpp.header_extension,
        "cppcli": {"ns": ns(cli.namespace), "type": style_json(cli.identifier.type), "property": style_json(cli.identifier.property),
                   "method": style_json(cli.identifier.method), "local": style_json(cli.identifier.local), "enum": style_json(cli.identifier.enum),
                   "file": style_json(cli.identifier.file), "namespace": style_json(cli.identifier.namespace),
                   "nullability": bool(cli.nullability_attributes)},
    }


# --------------------------------------------------------------------------------------------------------
# programs
# --------------------------------------------------------------------------------------------------------

SAFE_NAMES = ['foo', 'foo_bar', 'fooBar', 'a__b', 'x1_y2', 'Zed', 'e_', 'ABC_def', 'my_type', 'item2', 'shape', 'k9_unit', 'TokenKind', 'lvl_',
              'node_id', 'aB_cD', 'q7', 'big_number_thing', 'HTTPReq', 'v_1']
MEMBER_NAMES = ['alpha', 'beta_two', 'gammaRay', 'd4', 'e__f', 'Gee', 'h_i_j', 'kk_', 'lastOne', 'm_n', 'op2', 'p_q9', 'value_x', 'idx', 'the_name']


# identifiers whose character classes change in every way that matters to a case conversion (`str.title()`, `capitalize()`,
# `convert(...)`): a letter directly after a digit, a digit after a letter, lower→upper, upper runs, `__`, digit segments
SHAPE_NAMES = ['vec3f', 'point2d', 'a1b', 'x2_y', 'md5Sum', 'u8x_2y', 'fooBar2baz', 'r2D2', 'b__2c', 'Tx9Rx', 'utf8str', 'h264_nal', 'i18n']


# the same classes for the C02 streams (declaration names / member names), hand-picked so that no identifier style maps two names of
# one list to the same name: digit→letter (`vec3d`, `x2y`, `to_base64url`), letter→digit, `__` / `___`, a trailing `_`, single
# letters, all-capitals words, capitals inside a word
TYPE_SHAPES = ['vec3d', 'point2d_f', 'md5sum_kind', 'x2y_map', 'i18n_text', 'utf8str', 'h264_nal', 'r2D2', 'URL_req', 'ABCD', 'w', 'K', 'a___b2c',
               'id_', 'n2k', 'Tx9Rx', 'v2codec_x', 'b__2c', 'HTTP2_frame', 'sha1x_']
MEMBER_SHAPES = ['x2y', 'to_base64url', 'make_v2codec', 'n2k', 'sha1x', 'i18n', 'a1', 'b_2', 'c__d3e', 'URL', 'ID_x', 'u', 'V', 'w_', 'r2D2b',
                 'get9th_item', 'utf8_name', 'AB_cd', 'x___y', 'md5Sum']


def shape_names(r: random.Random, k: int, avoid=()) -> list[str]:
    """`k` identifiers, distinct up to letter case and underscores (so that no identifier style maps two of them to one name: C15):
    half from `SHAPE_NAMES`, half random words over letters (both cases), digits and `_` that contain a digit (hence outside every
    keyword list) — the class of identifiers on which case conversions differ"""
    norm = lambda w: w.replace('_', '').lower()
    out, seen = [], {norm(a) for a in avoid}
    pool = r.sample(SHAPE_NAMES, len(SHAPE_NAMES))
    while len(out) < k:
        if pool and (len(out) % 2 == 0 or r.random() < 0.3):
            w = pool.pop()
        else:
            n = r.randint(3, 7)
            w = r.choice('abcxyzABXY')
            pos = r.randrange(1, n)
            for i in range(1, n):
                w += r.choice('0123456789') if i == pos else r.choice('abcdxyz' * 3 + 'ABXY' * 2 + '0123456789' + '___')
        if norm(w) in seen or w.endswith('__'):
            continue
        seen.add(norm(w))
        out.append(w)
    return out


def T(base, args=(), opt=False):
    return {'base': base, 'args': list(args), 'opt': bool(opt)}


def spell(t) -> str:
    if 'fn' in t:
        f = t['fn']
        s = '(' + ', '.join(f"{n}: {spell(pt)}" for n, pt in f['params']) + ')'
        if f.get('throws') is not None:
            s += ' throws' + (' ' + ', '.join(f['throws']) if f['throws'] else '')
        if f.get('ret'):
            s += ' -> ' + spell(f['ret'])
        return s
    s = t['base']
    if t['args']:
        s += '<' + ', '.join(spell(a) for a in t['args']) + '>'
    return s + ('?' if t['opt'] else '')


def ref_of(decl) -> str:
    return '.' + '.'.join(decl['ns'] + [decl['name']])


def render(decls) -> str:
    lines = []
    for d in decls:
        k = d['kind']
        if k == 'enum':
            b = f"{d['name']} = enum {{ " + ' '.join(f"{i};" for i in d['items']) + " }"
        elif k == 'flags':
            b = f"{d['name']} = flags {{ " + ' '.join(f"{n}{' = ' + m if m else ''};" for n, m in d['items']) + " }"
        elif k == 'record':
            b = f"{d['name']} = record {d.get('flags', '')} {{ " + ' '.join(f"{n}: {spell(t)};" for n, t in d['fields']) + " }"
            if d.get('deriving'):
                b += f" deriving({', '.join(d['deriving'])})"
        elif k == 'interface':
            ms = []
            for m in d['methods']:
                s = ('static ' if m.get('static') else '') + ('const ' if m.get('const') else '') + ('async ' if m.get('async') else '')
                s += f"{m['name']}(" + ', '.join(f"{n}: {spell(t)}" for n, t in m['params']) + ")"
                if m.get('throws') is not None:
                    s += ' throws' + (' ' + ', '.join(m['throws']) if m['throws'] else '')
                if m.get('ret'):
                    s += ' -> ' + spell(m['ret'])
                ms.append(s + ';')
            b = f"{d['name']} = {'main ' if d.get('main') else ''}interface {d.get('flags', '')} {{ " + ' '.join(ms) + " }"
        elif k == 'function':
            b = f"{d['name']} = function {d.get('flags', '')} (" + ', '.join(f"{n}: {spell(t)}" for n, t in d['params']) + ")"
            if d.get('throws') is not None:
                b += ' throws' + (' ' + ', '.join(d['throws']) if d['throws'] else '')
            if d.get('ret'):
                b += ' -> ' + spell(d['ret'])
            b += ';'
        elif k == 'error':
            cs = []
            for c in d['codes']:
                cs.append(c['name'] + ('(' + ' '.join(f"{n}: {spell(t)}" for n, t in c['params']) + ')' if c['params'] else '') + ';')
            b = f"{d['name']} = error {{ " + ' '.join(cs) + " }"
        else:
            raise ValueError(k)
        for part in reversed(d['ns']):
            b = f"namespace {part} {{ {b} }}"
        lines.append(b)
    return '\n'.join(lines) + '\n'



# --------------------------------------------------------------------------------------------------------
# target lists (`record +cpp`, `interface +objc +cppcli`, `function -cpp -java`, …)
# --------------------------------------------------------------------------------------------------------

TARGET_KEYS = ['cpp', 'cppcli', 'java', 'objc', 'yaml']     # `API().generation_targets` (the parser accepts every supported key)


def effective_targets(flags: str, keys=TARGET_KEYS) -> list[str]:
    """`Parser.visitTargets`: the `+x` (or all, for `+any` / exclusions only) minus the `-x`; [] = nothing written or all excluded"""
    toks = flags.split()
    inc, exc = (list(keys) if '+any' in toks else []), []
    for t in toks:
        if t == '+any':
            continue
        if t[0] == '+':
            if t[1:] not in inc:
                inc.append(t[1:])
        else:
            exc.append(t[1:])
    if not inc and exc:
        inc = list(keys)
    return [k for k in inc if k not in exc]


def target_subsets(keys=TARGET_KEYS) -> list[tuple]:
    """every non-empty subset of the target keys, grouped round-robin by (cpp in it, java in it): any 4 consecutive entries hold
    one list with neither, one with cpp only, one with java only, one with both (besides objc / cppcli / yaml)"""
    subsets = [tuple(k for i, k in enumerate(keys) if m >> i & 1) for m in range(1, 2 ** len(keys))]
    cls = {}
    for s in subsets:
        cls.setdefault(('cpp' in s, 'java' in s), []).append(s)
    order = [(False, False), (True, False), (False, True), (True, True)]
    out = []
    for i in range(max(len(v) for v in cls.values())):
        for c in order:
            out.append(cls[c][i % len(cls[c])])
    return out


def spell_targets(r: random.Random, subset, keys=TARGET_KEYS) -> str:
    """one of the spellings of a target list: `+a +b` (any order, repetitions), `-c -d`, `+any -c`, `+a +b +c -c`"""
    subset = list(subset)
    rest = [k for k in keys if k not in subset]
    forms = ['plus', 'plus', 'dup', 'mixed'] + (['minus', 'any'] if rest else ['any'])
    form = r.choice(forms if subset else ['cancel'])
    plus = lambda l: ' '.join('+' + k for k in l)
    minus = lambda l: ' '.join('-' + k for k in l)
    sh = r.sample(subset, len(subset))
    if form == 'plus':
        s = plus(sh)
    elif form == 'dup':
        s = plus(sh + [r.choice(sh)])
    elif form == 'mixed' and rest:
        x = r.choice(rest)
        s = plus(sh + [x]) + ' ' + minus([x])
    elif form == 'minus':
        s = minus(r.sample(rest, len(rest)))
    elif form == 'any':
        s = ('+any ' + minus(rest)).strip()
    elif form == 'cancel':
        x = r.choice(keys)
        s = f'+{x} -{x}'
    else:
        s = plus(sh)
    assert sorted(effective_targets(s, keys)) == sorted(subset), (s, subset)
    return s


class TargetRotation:
    """target lists for the declarations of a stream of programs: walks `target_subsets()` from a seed-dependent offset (one walk per
    declaration kind), so that a handful of programs meets every class of list; spelling at random"""

    def __init__(self, r: random.Random, plain_p=0.2, java_record_p=1.0):
        self.r = r
        self.subsets = target_subsets()
        self.pos = {k: r.randrange(len(self.subsets)) for k in ('record', 'interface', 'function')}
        self.plain_p = plain_p
        # `record +java`: Java declares `<Name>Base`, the class `<Name>` is the user's to write (the generated Java alone does not
        # compile): streams judged by javac keep such records rare
        self.java_record_p = java_record_p

    def next(self, kind: str) -> tuple[str, list[str]]:
        """(written flags, effective list); records: [] = an ordinary record; interfaces / functions: nothing written = all keys"""
        if self.r.random() < self.plain_p:
            flags = '' if self.r.random() < 0.7 else spell_targets(self.r, [])
        else:
            while kind == 'record' and 'java' in self.subsets[self.pos[kind] % len(self.subsets)] and self.r.random() >= self.java_record_p:
                self.pos[kind] += 1
            flags = spell_targets(self.r, self.subsets[self.pos[kind] % len(self.subsets)])
            self.pos[kind] += 1
        eff = effective_targets(flags)
        if kind != 'record' and not eff:
            eff = list(TARGET_KEYS)
        return flags, eff


class ProgGen:
    """Random valid programs inside the closed feature set."""

    def __init__(self, r: random.Random, java_compiles=False, base_records=False, max_decls=9, names=None, inline_user_types=False,
                 inline_p=0.12, user_p=0.35, async_p=0.2, min_methods=0, member_names=None, target_lists=None, rich_codes=False):
        self.r = r
        self.java_compiles = java_compiles      # C07: stay inside what javac accepts (throws only same namespace, …)
        self.base_records = base_records
        self.max_decls = max_decls
        self.names = list(names) if names is not None else SAFE_NAMES
        self.member_names = list(member_names) if member_names is not None else MEMBER_NAMES   # fields, methods, parameters, items
        # inline function types may mention the user types they can spell without a qualifier (declared in an enclosing namespace)
        self.inline_user_types = inline_user_types
        self.inline_p = inline_p                # probability that a method parameter is an inline function type
        self.user_p = user_p                    # probability that a non-generic type position refers to a user type
        self.async_p = async_p
        self.min_methods = min_methods
        self.used_fn_sigs = set()
        # `TargetRotation`: records / interfaces / named functions get target lists from the whole lattice of lists (default: the
        # few lists of the older streams, drawn from `r`)
        self.target_lists = target_lists
        # error codes with up to 4 parameters of primitive, optional, collection, enum, flags and record types (default: 0-2 parameters
        # of primitive / enum types)
        self.rich_codes = rich_codes

    def members(self, n):
        return self.r.sample(self.member_names, n)

    def dtype(self, decls, depth=0, kinds=('enum', 'flags', 'record'), allow_opt=True, max_depth=2, ref=ref_of):
        r = self.r
        m = r.random()
        cands = [d for d in decls if d['kind'] in kinds]
        if depth < max_depth and m < 0.25:
            g = r.choice(['list', 'set', 'map'])
            if g == 'map':
                t = T('map', [T(r.choice(['string', 'i32', 'i64'])), self.dtype(decls, depth + 1, tuple(k for k in kinds if k not in ('function', 'interface')), True, max_depth, ref)])
            elif g == 'set':
                t = T('set', [T(r.choice(['string', 'i32', 'i64', 'i8']))])
            else:
                t = T('list', [self.dtype(decls, depth + 1, tuple(k for k in kinds if k not in ('function', 'interface')), True, max_depth, ref)])
        elif m < 1.0 - self.user_p or not cands:
            t = T(r.choice(PRIMS))
        else:
            t = T(ref(r.choice(cands)))
        if allow_opt and r.random() < 0.25:
            t['opt'] = True
        return t

    def program(self, plan=None):
        r = self.r
        n = r.randint(3, self.max_decls) if plan is None else len(plan)
        names = r.sample(self.names, n)
        nss = [[], [], [], ['n1'], ['n1', 'm_2'], ['Q']]
        kinds_pool = ['enum', 'flags', 'record', 'record', 'interface', 'interface', 'function', 'error']
        decls = []
        # fixed prefix so that every program has one of each value kind to refer to
        if plan is None:
            plan = ['enum', 'flags', 'record'] + [r.choice(kinds_pool) for _ in range(n - 3)]
        shared_ns = r.choice(nss)
        for name, kind in zip(names, plan):
            d = {'kind': kind, 'name': name, 'ns': r.choice(nss)}
            if kind == 'enum':
                d['items'] = self.members(r.randint(1, 4))
            elif kind == 'flags':
                ms = self.members(r.randint(2, 5))
                items = [(m, None) for m in ms]
                if r.random() < 0.4:
                    items[-1] = (items[-1][0], 'all')          # `all` after the ordinary flags (row 11)
                    if len(items) > 2 and r.random() < 0.5:
                        items[0] = (items[0][0], 'none')
                elif r.random() < 0.3:
                    items[0] = (items[0][0], 'none')
                d['items'] = items
            elif kind == 'record':
                earlier = [x for x in decls if x['kind'] in ('enum', 'flags', 'record')]
                d['fields'] = [(m, self.dtype(earlier)) for m in self.members(r.randint(0, 4))]
                if self.target_lists is not None:
                    d['flags'], d['targets'] = self.target_lists.next('record')
                elif self.base_records and r.random() < 0.3:
                    d['flags'] = r.choice(['+cpp', '+java', '+objc', '+cppcli', '+cpp +java'])
            elif kind == 'error':
                earlier = [x for x in decls if x['kind'] == 'enum']
                if self.rich_codes:
                    earlier = [x for x in decls if x['kind'] in ('enum', 'flags', 'record')]
                    d['codes'] = [{'name': cn, 'params': [(pn, self.dtype(earlier, depth=1)) for pn in self.members(r.choice([0, 1, 1, 2, 3, 4]))]}
                                  for cn in self.members(r.randint(1, 4))]
                else:
                    d['codes'] = [{'name': cn, 'params': [(pn, self.dtype(earlier, depth=2, kinds=('enum',))) for pn in self.members(r.randint(0, 2))]}
                                  for cn in self.members(r.randint(1, 3))]
                d['ns'] = shared_ns
            elif kind == 'function':
                earlier = [x for x in decls if x['kind'] in ('enum', 'flags', 'record', 'interface')]
                d['flags'] = r.choice(['', '', '+cpp', '-cpp'])
                if self.target_lists is not None:
                    d['flags'], d['targets'] = self.target_lists.next('function')
                d['params'] = [(pn, self.dtype(earlier, kinds=('enum', 'flags', 'record', 'interface'))) for pn in self.members(r.randint(0, 3))]
                d['ret'] = self.dtype(earlier, kinds=('enum', 'flags', 'record')) if r.random() < 0.5 else None
            elif kind == 'interface':
                earlier = [x for x in decls if x['kind'] != 'error']
                errs = [x for x in decls if x['kind'] == 'error']
                d['flags'] = r.choice(['+cpp', '+cpp', '-cpp', ''])
                cpp_only = d['flags'] == '+cpp'
                if self.target_lists is not None:
                    d['flags'], d['targets'] = self.target_lists.next('interface')
                    cpp_only = d['targets'] == ['cpp']       # `static` is accepted on interfaces implemented in C++ alone
                if errs:
                    d['ns'] = shared_ns
                ms = []
                for mn in self.members(r.randint(self.min_methods, 4)):
                    m = {'name': mn}
                    if cpp_only and r.random() < 0.25:
                        m['static'] = True
                    elif r.random() < 0.2:
                        m['const'] = True
                    params = []
                    for pn in [x for x in self.members(r.randint(0, 3)) if x != mn]:
                        if r.random() < self.inline_p:
                            # inline function types: the generated name of the anonymous function embeds the spelling of the
                            # types it mentions, so only unqualified spellings are inside the closed feature set: built-ins and
                            # (`inline_user_types`) user types declared in the interface's namespace or one enclosing it
                            # … and two anonymous functions of equal signature in different namespaces would be written to the same
                            # JNI / ObjC++ file (C15, DESIGN §9 row 16), two that differ only in `?` to the same file of every
                            # generator: the generated names are kept unique within a program
                            near = [x for x in earlier if x['ns'] == d['ns'][:len(x['ns'])]] if self.inline_user_types else []
                            bare = lambda x: x['name']
                            for _ in range(6):
                                fn = {'params': [(q, self.dtype(near, depth=1, kinds=('enum', 'flags', 'record', 'interface'), ref=bare))
                                                 for q in self.members(r.randint(0, 2))],
                                      'ret': self.dtype(near, depth=1, ref=bare) if r.random() < 0.5 else None}
                                # the generated name drops `?` and the parameter names: unique up to that
                                sig = (tuple(spell(t).replace('?', '') for _, t in fn['params']), spell(fn['ret']).replace('?', '') if fn['ret'] else None)
                                if sig not in self.used_fn_sigs:
                                    self.used_fn_sigs.add(sig)
                                    params.append((pn, {'fn': fn}))
                                    break
                        else:
                            params.append((pn, self.dtype(earlier, kinds=('enum', 'flags', 'record', 'interface', 'function'))))
                    m['params'] = params
                    m['ret'] = self.dtype(earlier, kinds=('enum', 'flags', 'record', 'interface')) if r.random() < 0.65 else None
                    if m['ret'] and r.random() < self.async_p:
                        m['async'] = True
                    if r.random() < 0.25:
                        m['throws'] = [ref_of(r.choice(errs))] if errs and r.random() < 0.7 else []
                    ms.append(m)
                d['methods'] = ms
            decls.append(d)
        return decls


# --------------------------------------------------------------------------------------------------------
# exhaustive type expressions (function-level correspondence of C02)
# --------------------------------------------------------------------------------------------------------

USER_ATOMS = [('enum', 'u_enum'), ('flags', 'u_flags'), ('record', 'u_rec'), ('interface', 'u_iface'), ('function', 'u_fn'), ('record', 'base_rec'),
              ('function', 'u_fn_v'), ('function', 'u_fn_t')]

TYPE_PRELUDE = (
    "namespace n1 { namespace m_2 {\n"
    "u_enum = enum { a; b; }\nu_flags = flags { x; y; }\nu_rec = record { a: i32; }\n} }\n"
    "u_iface = interface +cpp { }\n"
    "u_fn = function (p: i32, q: string?) -> bool;\n"
    "u_fn_v = function -cpp ();\n"
    "namespace Q { u_fn_t = function (a: .u_iface, b: list<.n1.m_2.u_enum?>) throws .err_dom -> .n1.m_2.u_rec?; }\n"
    "base_rec = record +cpp +java +objc +cppcli { a: i32; }\n"
    "err_dom = error { bad; }\n"
)
USER_REFS = {'u_enum': '.n1.m_2.u_enum', 'u_flags': '.n1.m_2.u_flags', 'u_rec': '.n1.m_2.u_rec', 'u_iface': '.u_iface', 'u_fn': '.u_fn', 'base_rec': '.base_rec',
             'u_fn_v': '.u_fn_v', 'u_fn_t': '.Q.u_fn_t'}


def atoms():
    return [T(p) for p in PRIMS] + [T(USER_REFS[n]) for _, n in USER_ATOMS]


def with_opt(ts):
    out = []
    for t in ts:
        out.append(t)
        out.append({**t, 'opt': True})
    return out


def all_type_exprs(depth3=True):
    """Every type expression up to nesting 3 over the built-ins and one user type of each kind
    (map keys are non-optional atoms; see c02.py for the count)."""
    a0 = atoms()
    a = with_opt(a0)
    yield from a
    d2 = [T('list', [x]) for x in a] + [T('set', [x]) for x in a] + [T('map', [k, v]) for k in a0 for v in a]
    d2o = with_opt(d2)
    yield from d2o
    if depth3:
        for x in d2o:
            yield T('list', [x])
            yield T('list', [x], True)
            yield T('set', [x])
            yield T('set', [x], True)
        for k in a0:
            for v in d2o:
                yield T('map', [k, v])
                yield T('map', [k, v], True)


# --------------------------------------------------------------------------------------------------------
# adapter: real parser -> driver JSON
# --------------------------------------------------------------------------------------------------------

class Dump:
    """Index the declarations of a parsed program and dump type references / declarations for the driver."""

    def __init__(self, defs):
        self.defs = list(defs)
        self.index = {id(d): i for i, d in enumerate(self.defs)}
        self.udefs = [self.udef(d) for d in self.defs]

    def type(self, tr):
        td = tr.type_def
        args = [self.type(p) for p in tr.parameters]
        if id(td) in self.index:
            return {"u": self.index[id(td)], "a": args, "o": bool(tr.optional)}
        return {"b": str(td.name), "a": args, "o": bool(tr.optional)}

    def fields(self, fs):
        return [{"n": str(f.name), "t": self.type(f.type_ref)} for f in fs]

    def throws(self, thr):
        if thr is None:
            return None
        return [self.index[id(t.type_def)] for t in thr]

    def udef(self, d):
        from pydjinni.parser.ast import Enum, Flags, Record, Interface, Function, ErrorDomain
        j = {"name": str(d.name), "ns": [str(x) for x in d.namespace], "prim": d.primitive.value,
             "targets": [str(t) for t in (getattr(d, 'targets', None) or [])]}
        j["_kind"] = type(d).__name__
        return j

    def finish(self):
        """second pass (type references need the complete index)"""
        from pydjinni.parser.ast import Enum, Flags, Record, Interface, Function, ErrorDomain
        for d, j in zip(self.defs, self.udefs):
            if isinstance(d, Enum):
                j["items"] = [str(i.name) for i in d.items]
            elif isinstance(d, Flags):
                j["items"] = [{"n": str(f.name), "all": bool(f.all), "none": bool(f.none)} for f in d.flags]
            elif isinstance(d, Record):
                j["fields"] = self.fields(d.fields)
                j["eq"] = 'eq' in [str(x) for x in d.deriving]
                j["ord"] = 'ord' in [str(x) for x in d.deriving]
            elif isinstance(d, Interface):
                j["methods"] = [{"n": str(m.name), "params": self.fields(m.parameters),
                                 "ret": self.type(m.return_type_ref) if m.return_type_ref else None,
                                 "static": bool(m.static), "const": bool(m.const), "async": bool(m.asynchronous),
                                 "throws": self.throws(m.throwing)} for m in d.methods]
            elif isinstance(d, Function):
                j["anonymous"] = bool(d.anonymous)
                j["noexcept"] = d.throwing is None
                j["params"] = [self.type(p.type_ref) for p in d.parameters]
                j["fparams"] = self.fields(d.parameters)
                j["ret"] = self.type(d.return_type_ref) if d.return_type_ref else None
                j["throws"] = self.throws(d.throwing)
            elif isinstance(d, ErrorDomain):
                j["codes"] = [{"n": str(c.name), "params": self.fields(c.parameters)} for c in d.error_codes]
        return self


def parse_program(cfg: dict, text: str, workdir: Path, api_object=None):
    """Run the real front end + marshalling; returns the GenerateContext and the configured context.
    `api_object`: an `API` object that was used before (call histories); default: a fresh one."""
    from pydjinni import API
    workdir.mkdir(parents=True, exist_ok=True)
    f = workdir / "m.djinni"
    f.write_text(text)
    cwd = os.getcwd()
    os.chdir(workdir)
    try:
        configured = (api_object if api_object is not None else API()).configure(options=cfg)
        ctx = configured.parse(Path("m.djinni"))
    finally:
        os.chdir(cwd)
    return configured, ctx
