"""External judges (g++ -fsyntax-only, javac) for generated code. Used for validating the model's
"compiles" prediction and for the failing-input search of C01 — never as a substitute for a theorem.

g++ 12 in this sandbox has no <format>: programs are generated with `cpp.string_serialization: false`.
The shipped JNI support header uses std::optional without including it on the pinned tree; the judge
does not add `-include optional`, so that defect is visible (it is repaired by a fix: commit).
"""
from __future__ import annotations

import hashlib
import os
import re
import subprocess
from concurrent.futures import ThreadPoolExecutor
from pathlib import Path

JNI = "/usr/lib/jvm/java-17-openjdk-amd64/include"
_cache: dict[str, list[str]] = {}


def gxx(tu_text: str, includes: list[str], workdir: Path, name: str, std="c++20") -> list[str]:
    """-> list of error lines (empty = compiles)"""
    key = hashlib.sha256((tu_text + "|" + "|".join(includes)).encode()).hexdigest()
    src = workdir / f"{name}_{key[:10]}.cpp"
    src.write_text(tu_text)
    args = ["g++", f"-std={std}", "-fsyntax-only", "-w"]
    for i in includes:
        args += ["-I", i]
    r = subprocess.run(args + [str(src)], capture_output=True, text=True, timeout=120)
    errs = [re.sub(r"^.*?error: ", "", l)[:200] for l in r.stderr.split("\n") if " error" in l or "fatal error" in l]
    if r.returncode != 0 and not errs:
        errs = [r.stderr[-200:]]
    try:
        src.unlink()
    except OSError:
        pass
    return errs[:3]


def judge_cpp_tree(out_root: Path, workdir: Path, pool: ThreadPoolExecutor, header_dirs: list[Path], source_dirs: list[Path],
                   include_dirs: list[Path], skip_support=True) -> dict[str, list[str]]:
    """every header alone (a TU that only includes it) and every source; -> {relative file: errors}"""
    inc = [str(d) for d in include_dirs] + [JNI, JNI + "/linux"]
    jobs = []
    for hd in header_dirs:
        for h in sorted(hd.rglob("*")):
            if h.is_file() and h.suffix in (".hpp", ".h", ".hh") and not (skip_support and "pydjinni" in h.relative_to(hd).parts):
                jobs.append((str(h.relative_to(out_root)), f'#include "{h}"\n'))
    for sd in source_dirs:
        for s in sorted(sd.rglob("*.cpp")):
            if not (skip_support and "pydjinni" in s.relative_to(sd).parts):
                jobs.append((str(s.relative_to(out_root)), f'#include "{s}"\n'))
    workdir.mkdir(parents=True, exist_ok=True)
    futs = [(n, pool.submit(gxx, t, inc, workdir, re.sub(r"\W", "_", n))) for n, t in jobs]
    out = {}
    for n, f in futs:
        e = f.result()
        if e:
            out[n] = e
    out["__count__"] = [str(len(jobs))]
    return out


def javac_tree(java_root: Path, workdir: Path) -> list[str]:
    files = [str(p) for p in sorted(java_root.rglob("*.java"))]
    if not files:
        return []
    cls = workdir / "cls"
    cls.mkdir(parents=True, exist_ok=True)
    r = subprocess.run(["javac", "-nowarn", "-d", str(cls)] + files, capture_output=True, text=True, timeout=300)
    errs = [l[l.find("error"):][:200] for l in r.stderr.split("\n") if "error:" in l]
    if r.returncode != 0 and not errs:
        errs = [r.stderr[-200:]]
    return errs[:4]


MARKERS = ["{{", "}}", "//>", "/*>", "//?", "/*#"]


def marker_scan(text: str) -> list[str]:
    """unrendered template markers in generated output"""
    return [m for m in MARKERS if m in text]
