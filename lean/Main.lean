import PydjinniModel.Drv.C01
import PydjinniModel.Drv.C02
import PydjinniModel.Drv.C03
import PydjinniModel.Drv.C04
import PydjinniModel.Drv.C05
import PydjinniModel.Drv.C06
import PydjinniModel.Drv.C07
import PydjinniModel.Drv.C08
import PydjinniModel.Drv.C09
import PydjinniModel.Drv.C10
import PydjinniModel.Drv.C11
import PydjinniModel.Drv.C12
import PydjinniModel.Drv.C13
import PydjinniModel.Drv.C14
import PydjinniModel.Drv.C15
import PydjinniModel.Drv.C16
import PydjinniModel.Drv.C17
import PydjinniModel.Drv.C18
import PydjinniModel.Drv.C19
import PydjinniModel.Drv.C20
/-!
Model driver: one JSON request per line on stdin, one JSON answer per line on stdout.
A request is `{"op": "cNN.<name>", ...}`; the part before the first dot selects the property's
handler module. Unknown ops and malformed requests answer `{"error": ...}` — never a default.
-/
open Lean Pydjinni

def dispatch (op : String) (j : Json) : Except String Json :=
  let pfx := (op.splitOn ".").headD ""
  match pfx with
  | "c01" => Drv.C01.handle op j | "c02" => Drv.C02.handle op j | "c03" => Drv.C03.handle op j
  | "c04" => Drv.C04.handle op j | "c05" => Drv.C05.handle op j | "c06" => Drv.C06.handle op j
  | "c07" => Drv.C07.handle op j | "c08" => Drv.C08.handle op j | "c09" => Drv.C09.handle op j
  | "c10" => Drv.C10.handle op j | "c11" => Drv.C11.handle op j | "c12" => Drv.C12.handle op j
  | "c13" => Drv.C13.handle op j | "c14" => Drv.C14.handle op j | "c15" => Drv.C15.handle op j
  | "c16" => Drv.C16.handle op j | "c17" => Drv.C17.handle op j | "c18" => Drv.C18.handle op j
  | "c19" => Drv.C19.handle op j | "c20" => Drv.C20.handle op j
  | _ => throw s!"unknown op {op}"

def handleLine (line : String) : String :=
  match Json.parse line with
  | .error e => (Json.mkObj [("error", s!"bad-json {e}")]).compress
  | .ok j =>
    match j.getObjValAs? String "op" with
    | .error e => (Json.mkObj [("error", s!"no-op {e}")]).compress
    | .ok op =>
      match dispatch op j with
      | .ok r => r.compress
      | .error e => (Json.mkObj [("error", e)]).compress

partial def loop (h : IO.FS.Stream) : IO Unit := do
  let line ← h.getLine
  if line.isEmpty then return ()
  IO.println (handleLine line.trimAscii.toString)
  loop h

def main : IO Unit := do loop (← IO.getStdin)
