import PydjinniModel.Props.C05Program
open Pydjinni.Front
def exPosSrc : String :=
  "@import \"a.pydjinni\"\nr = record { a: map<string, list<i32>>; f: (x: i8) -> bool; }\n" ++
  "namespace n.m { i = interface +cpp { property p: r; m(a: i8, b: list<r>) throws e -> r; }\n" ++
  "e = error { c(x: i8 y: r); } }\ng = function (q: r) -> r;\n"
#eval ((parseText exPosSrc).map (fun f => (walkContents { file := "f", keys := ["cpp"], defaultDeriving := [] } [] f.contents).refs.map (fun r => (r.name, r.pos.sl, r.pos.sc))))
