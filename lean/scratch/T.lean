#check @List.nodup_iff_count_le_one
#check @List.nodup_iff_count
#check @List.count_le_one_of_nodup
open List in
#check @Nodup.count
example (l : List Nat) : l.Nodup ↔ ∀ a, l.count a ≤ 1 := by exact?
