import PydjinniModel.Sys.Config
/-!
# Command-line model (property C19)

`pydjinni [-o k=v]… [--config F] generate [--clean] IDL t₁ … tₙ` as a sequence of stages, in the order in which click and
`cli.py` run them, each ending normally or raising; `main()` maps what was raised to the process exit status.

* `handler`        `main`'s `except ApplicationException` / `except ApplicationExceptionList` clauses, click's own handling
                   of usage errors (standalone mode, status 2), and Python's default for everything else (traceback, status 1)
* `cliStages`      the stage outcomes of one invocation: top-level arguments, sub-command lookup, `-o` folding,
                   `API.configure`, arguments of `generate`, `parse` (readiness of the configured targets, then the front end), the AST dump of `--log-level debug`,
                   lookup of **all** target names, `generate(tᵢ, clean)` one by one, `write_processed_files`
* `apiStages`      the documented equivalent call sequence `API().configure(…).parse(…).generate(t₁)…generate(tₙ).write_processed_files()`
* `exitOf`, `eventsOf`   exit status = handler of the first stage that raised; effects = those of the stages before it

The configuration part (options, configure, readiness) is the C17 model; the front end's verdict on the IDL and the
generators' own failures (160/161) are parameters (`World`).
-/
namespace Pydjinni.Sys

/-- what a stage raised -/
inductive Raised
  | app (code : Nat)               -- an `ApplicationException` subclass with its return code
  | appList (codes : List Nat)     -- `ApplicationExceptionList`: return codes of its items, in order
  | usage                          -- `click.UsageError` (unknown option / command, missing argument, bad choice)
  | other (cls : String)           -- any other exception class
deriving DecidableEq, Repr

inductive StageResult
  | ok
  | raised (r : Raised)
deriving DecidableEq, Repr

structure Exit where
  code : Nat
  traceback : Bool
deriving DecidableEq, Repr

/-- `main()` + click standalone mode + interpreter default -/
def handler : Raised → Exit
  | .app c => ⟨c, false⟩
  | .appList (c :: _) => ⟨c, false⟩
  | .appList [] => ⟨1, true⟩         -- `e.items[0]` on an empty list: IndexError
  | .usage => ⟨2, false⟩
  | .other _ => ⟨1, true⟩

/-- effects a stage has on the output tree -/
inductive Event
  | cleaned (target : String)
  | generated (target : String)
  | report
deriving DecidableEq, Repr

structure Stage where
  result : StageResult
  events : List Event := []
deriving Repr

/-- exit status of a run: that of the first stage that raised, 0 if none did -/
def exitOf : List Stage → Exit
  | [] => ⟨0, false⟩
  | s :: rest =>
    match s.result with
    | .ok => exitOf rest
    | .raised r => handler r

/-- effects of a run: those of the stages that completed before the first one that raised -/
def eventsOf : List Stage → List Event
  | [] => []
  | s :: rest =>
    match s.result with
    | .ok => s.events ++ eventsOf rest
    | .raised _ => []

def ofOutcome {α} : Outcome α → StageResult
  | .ok _ => .ok
  | .app c => .raised (.app c)
  | .crash s => .raised (.other s)

inductive Command
  | none                                              -- no sub-command on the command line
  | unknown                                           -- a word that is no sub-command
  | generate (argsOk : Bool) (clean : Bool) (targets : List String)
      -- `argsOk`: the IDL argument is present and every option of `generate` is known
deriving Repr

structure Invocation where
  topOk : Bool                 -- the top-level options are well formed (known options, valid `--log-level`)
  options : List String        -- `-o` texts, in order
  config : FileState           -- `--config`; `absent` for `None`/`none`/`False`/`false`
  command : Command
  debug : Bool := false        -- `--log-level debug`: the `generate` callback pretty-prints the AST after parsing
deriving Repr

/-- everything the command line does not decide -/
structure World where
  validate : Validate
  env : Kids
  dotenv : Kids
  /-- verdict of the front end on the IDL file (file not found: `app 2`; diagnostics: `appList [150, …]`; …) -/
  front : StageResult
  kinds : List DeclKind
  /-- a generator's own failure on a ready target (160 unsupported, 161 invalid identifier), if any -/
  genFail : String → Option Raised
  /-- `generate.list_processed_files` is set -/
  reportConfigured : Bool
  /-- what pretty-printing the AST does (it evaluates every marshalling property of every configured generator, so an
  invalid identifier surfaces here already) -/
  astDump : StageResult := .ok
  /-- what `write_processed_files` raises when the configured report path is unusable (an out-file extension that is not
  known: 141), if anything -/
  reportFail : Option Raised := none

/-! ## the front end's verdict (`Parser.parse`), as far as the exit status depends on it

Lexer and parser errors are *recorded* (error listeners), never raised; the visitor then runs on the recovered parse tree, which
after a syntax error has holes, so it may fail with any Python exception. `Parser.parse` tolerates **every** such failure
when a syntax error was recorded (the recorded errors are the diagnosis), lets an `ApplicationException` through, and
re-raises a failure on a tree without syntax errors; the clauses around the body turn three exception classes into diagnostics. -/

/-- how one step of `Parser.parse` (visiting the tree; the phases after it) ended -/
inductive Step
  | done
  | app (code : Nat)          -- an `ApplicationException` (duplicate type, file not found raised by a nested parser, …)
  | failed (cls : String)     -- any other exception class
deriving DecidableEq, Repr

structure FrontRun where
  /-- exception class raised by reading / decoding the root file, if any -/
  read : Option String := none
  /-- return codes of the errors the lexer / parser listeners recorded before the visitor ran (all 150) -/
  syntaxErrors : List Nat := []
  /-- how visiting the (recovered) parse tree ended -/
  visit : Step := .done
  /-- return codes of the errors the visitor recorded before it ended (missing imports: 2; the errors of imported files) -/
  visitErrors : List Nat := []
  /-- return codes of the errors recorded by the phases after it (resolution: 170; rules: 150), in order -/
  later : List Nat := []
  /-- how the phases after the visitor ended (comments, resolution, marshalling, rules) -/
  post : Step := .done
deriving Repr

def FrontRun.recorded (f : FrontRun) : List Nat := f.syntaxErrors ++ f.visitErrors

/-- the `except` clauses around the body of `Parser.parse` for an exception that is not an `ApplicationException`;
`recorded` = the errors recorded so far -/
def outerHandler (recorded : List Nat) (cls : String) : StageResult :=
  if cls == "FileNotFoundError" || cls == "IsADirectoryError" then .raised (.app 2)
  else if cls == "UnicodeDecodeError" || cls == "RecursionError" then .raised (.appList (recorded ++ [150]))
  else .raised (.other cls)

def listOrOk (errors : List Nat) : StageResult :=
  if errors.isEmpty then .ok else .raised (.appList errors)

/-- the phases after the visitor, then `if self.errors: raise ParsingExceptionList(self.errors, …)` -/
def afterVisit (f : FrontRun) : StageResult :=
  match f.post with
  | .done => listOrOk (f.recorded ++ f.later)
  | .app c => .raised (.app c)
  | .failed cls => outerHandler (f.recorded ++ f.later) cls

/-- verdict of the front end -/
def frontOf (f : FrontRun) : StageResult :=
  match f.read with
  | some cls => outerHandler [] cls
  | none =>
    match f.visit with
    | .done => afterVisit f
    | .app c => .raised (.app c)
    | .failed cls =>
      -- `except Exception: if not self.errors: raise` — any class is tolerated once an error is recorded
      if f.recorded.isEmpty then outerHandler [] cls else afterVisit f

/-- `generate.model_fields_set` of the validated tree -/
def genSetOf (t : Kids) : GenSet :=
  match lookup "generate" t with
  | some (.node ks) => some (keys ks)
  | _ => none

def optionsStage (inv : Invocation) : Except OptErr Kids := foldOptions inv.options []

def configureOutcome (inv : Invocation) (w : World) : Outcome Kids :=
  match optionsStage inv with
  | .error _ => .app 141
  | .ok opts => configure w.validate w.env w.dotenv inv.config opts

/-- `ConfiguredContext.parse` up to the front end: readiness of the configured targets -/
def readyOf : Outcome Kids → Outcome (List TargetDef)
  | .ok t => parseReady (genSetOf t)
  | .app c => .app c
  | .crash s => .crash s

def ctsOf : Outcome (List TargetDef) → List TargetDef
  | .ok cts => cts
  | _ => []

def readyOutcome (inv : Invocation) (w : World) : Outcome (List TargetDef) := readyOf (configureOutcome inv w)

def configuredOf (inv : Invocation) (w : World) : List TargetDef := ctsOf (readyOutcome inv w)

/-- one `generate(t, clean)` call -/
def generateStage (cts : List TargetDef) (w : World) (clean : Bool) (t : String) : Stage :=
  match generateOutcome cts w.kinds t with
  | .ok _ =>
    match w.genFail t with
    | some r => { result := .raised r }
    | none => { result := .ok, events := (if clean then [.cleaned t] else []) ++ [.generated t] }
  | .app c => { result := .raised (.app c) }
  | .crash s => { result := .raised (.other s) }

def reportStage (w : World) : Stage :=
  match w.reportFail with
  | some r => { result := .raised r }
  | none => { result := .ok, events := if w.reportConfigured then [.report] else [] }

def knownTarget (t : String) : Bool := targetTable.any (fun d => d.key == t)

/-- the stages of `pydjinni … generate …` in execution order -/
def cliStages (inv : Invocation) (w : World) : List Stage :=
  let top : Stage := { result := if inv.topOk then .ok else .raised .usage }
  let hasCmd : Stage := { result := match inv.command with | .none => .raised .usage | _ => .ok }
  let opts : Stage := { result := match optionsStage inv with | .ok _ => .ok | .error _ => .raised (.app 141) }
  let conf : Stage := { result := ofOutcome (configureOutcome inv w) }
  match inv.command with
  | .none => [top, hasCmd]
  | .unknown => [top, hasCmd, { result := .raised .usage }]   -- a plain group looks its sub-command up before it runs its own callback
  | .generate argsOk clean targets =>
    let args : Stage := { result := if argsOk && !targets.isEmpty then .ok else .raised .usage }
    let ready : Stage := { result := ofOutcome (readyOutcome inv w) }
    let front : Stage := { result := w.front }
    let dump : Stage := { result := if inv.debug then w.astDump else .ok }
    let names : Stage := { result := if targets.all knownTarget then .ok else .raised .usage }
    [top, hasCmd, opts, conf, args, ready, front, dump, names]
      ++ targets.map (generateStage (configuredOf inv w) w clean) ++ [reportStage w]

/-- the documented equivalent: `API().configure(path, options).parse(idl).generate(t₁, clean)…generate(tₙ, clean).write_processed_files()`
with the options dict that the `-o` texts denote -/
def apiStages (file : FileState) (options : Kids) (clean : Bool) (targets : List String) (w : World) : List Stage :=
  let conf := configure w.validate w.env w.dotenv file options
  [{ result := ofOutcome conf }, { result := ofOutcome (readyOf conf) }, { result := w.front }]
    ++ targets.map (generateStage (ctsOf (readyOf conf)) w clean) ++ [reportStage w]

/-- what the API sequence raises (the first exception), if anything -/
def firstRaised : List Stage → Option Raised
  | [] => none
  | s :: rest =>
    match s.result with
    | .ok => firstRaised rest
    | .raised r => some r

/-! ## domain clauses -/

/-- the parameters never deliver an exception class that `main` does not know, nor an empty exception list -/
def Raised.documented : Raised → Bool
  | .app _ => true
  | .appList cs => !cs.isEmpty
  | .usage => true
  | .other _ => false

def StageResult.documented : StageResult → Bool
  | .ok => true
  | .raised r => r.documented

/-- the invocation stays outside the known holes of configuration handling (C17) and of the parameters -/
def cliDom (inv : Invocation) (w : World) : Bool :=
  cfgDom inv.config
  && w.front.documented
  && w.astDump.documented
  && (match inv.command with
      | .generate _ _ targets =>
        targets.all (fun t => readyDom (configuredOf inv w) w.kinds t
          && (match w.genFail t with | some r => r.documented | none => true))
      | _ => true)
  && (match w.reportFail with | some r => r.documented | none => true)

/-! ## the documented return-code table (docs/cli.md, rendered from the registry; the property names 2, 141, 150, 161, 170) -/

def documentedCodes : List (Nat × String) :=
  [(2, "The file or directory could not be found"), (120, "Unknown target"), (130, "External command execution has failed"),
   (140, "Parsing input has failed"), (141, "Error loading the configuration"), (150, "IDL Parsing error"),
   (160, "Generation error"), (161, "Invalid identifier"), (170, "Type resolving error"), (180, "Build step failed")]

/-- return codes of the exception classes the stages raise (class name ↦ code) -/
def classCodes : List (String × Nat) :=
  [("FileNotFoundException", 2), ("UnknownTargetException", 120), ("ExternalCommandException", 130), ("InputParsingException", 140),
   ("ConfigurationException", 141), ("ParsingException", 150), ("GenerationException", 160), ("InvalidIdentifierException", 161),
   ("TypeResolvingException", 170), ("BuildException", 180)]

def isDocumentedCode (c : Nat) : Bool := documentedCodes.any (fun p => p.1 == c)

/-- specification of the exit status on an observation: `usage` = click refused the command line, `first` = the first
exception of the equivalent API sequence (none: it ran through) -/
def specExit (usage : Bool) (first : Option Raised) (exit : Exit) : Bool :=
  if usage then exit == ⟨2, false⟩
  else match first with
    | none => exit == ⟨0, false⟩
    | some r => r.documented && exit == handler r && isDocumentedCode exit.code && !exit.traceback

/-! ## multi-file projects: the class of the import graph decides the front end's first diagnostic -/

/-- classes of multi-file projects as far as the exit status goes: every import resolves and no file imports itself (directly or
through others, under whatever spelling of its path: sub-directories, `..` segments, include directories, the same file reached
along several paths); a circular import; an import of a file that does not exist -/
inductive ProjectClass
  | valid | cycle | missingImport
deriving DecidableEq, Repr

/-- the documented status of the class: 0; 150 (the circular import is an IDL parsing error at the directive); 2 (file not found) -/
def ProjectClass.code : ProjectClass → Nat
  | .valid => 0
  | .cycle => 150
  | .missingImport => 2

/-- the front end's verdict on a project of the class; `more` = return codes of the diagnostics recorded after the first one -/
def projectFront : ProjectClass → List Nat → StageResult
  | .valid, _ => .ok
  | .cycle, more => .raised (.appList (150 :: more))
  | .missingImport, more => .raised (.appList (2 :: more))

/-- specification of the exit status for a project of a known class that is generated under a valid configuration with known,
configured targets -/
def specProject (c : ProjectClass) (exit : Exit) : Bool := exit == ⟨c.code, false⟩

end Pydjinni.Sys
