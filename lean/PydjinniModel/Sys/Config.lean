/-!
# Configuration model (property C17)

Executable model of how pydjinni assembles its effective configuration:

* `Tree`, `combine`      `api.combine_into(d, combined)`: recursive key-wise merge of an override dict into a base dict
* `parseOption`, `foldOptions`   `cli.py`'s `-o key=value` parsing (`split('=', 1)`, dotted keys, `[a,b]` lists) and the
                         successive `combine_into(parse_option(v), options_dict)` over all `-o` in command-line order
* `envTree`              pydantic-settings' nesting of `pydjinni__a__b=v` environment variables
* `configure`            `API.configure` as a decision table: which exception class leaves the call for which input class
* `parseReady`, `generateOutcome`   target readiness: `parse` configures every target whose key is set, `generate t` needs
                         every generator of `t`; the glue generators read the C++ marshalling of every type

Strings that are split are handled as `List Char` with hand-written scanners (conditions, not literal patterns)
so that the round-trip lemmas in `Props/C17.lean` are plain structural inductions.
-/
namespace Pydjinni.Sys

/-- a leaf of a JSON-like document. Lists of strings are first class (include directories, namespaces, `[a,b]` options);
any other value (number with fraction, list with non-string items, …) is carried as its canonical JSON text. -/
inductive Val
  | str (s : String)
  | bool (b : Bool)
  | int (n : Int)
  | null
  | strs (xs : List String)
  | other (repr : String)
deriving DecidableEq, Repr

inductive Tree
  | leaf (v : Val)
  | node (kids : List (String × Tree))
deriving Repr

abbrev Kids := List (String × Tree)

instance : Inhabited Tree := ⟨.leaf .null⟩

mutual
def Tree.beq : Tree → Tree → Bool
  | .leaf a, .leaf b => decide (a = b)
  | .node a, .node b => kidsBeq a b
  | _, _ => false
def kidsBeq : Kids → Kids → Bool
  | [], [] => true
  | (k, t) :: r, (k', t') :: r' => k == k' && Tree.beq t t' && kidsBeq r r'
  | _, _ => false
end
instance : BEq Tree := ⟨Tree.beq⟩

/-- `d.get(k)`: first entry with key `k` (Python dicts have unique keys: `wf`) -/
def lookup (k : String) : Kids → Option Tree
  | [] => none
  | (k', t) :: rest => if k' = k then some t else lookup k rest

/-- `d[k] = t`: an existing key keeps its position, a new key is appended -/
def set (k : String) (t : Tree) : Kids → Kids
  | [] => [(k, t)]
  | (k', t') :: rest => if k' = k then (k, t) :: rest else (k', t') :: set k t rest

def keys (l : Kids) : List String := l.map (·.1)

/-- the dict found under an entry, `{}` when the entry is absent or not a dict -/
def childKids : Option Tree → Kids
  | some (.node b) => b
  | _ => []

/--
```python
def combine_into(d: dict, combined: dict) -> None:
    for k, v in d.items():
        if isinstance(v, dict):
            if not isinstance(combined.get(k), dict):
                combined[k] = {}
            combine_into(v, combined[k])
        else:
            combined[k] = v
```
(first argument: the override, second: the base that is updated in place; the result is the updated base)
-/
def combine : Kids → Kids → Kids
  | [], base => base
  | (k, .leaf v) :: rest, base => combine rest (set k (.leaf v) base)
  | (k, .node sub) :: rest, base =>
    combine rest (set k (.node (combine sub (childKids (lookup k base)))) base)

/-- unique keys at every level: what a Python dict is -/
def nodupKeys : Kids → Bool
  | [] => true
  | (k, _) :: rest => !(keys rest).contains k && nodupKeys rest

mutual
def wf : Tree → Bool
  | .leaf _ => true
  | .node ks => wfKids ks && nodupKeys ks
def wfKids : Kids → Bool
  | [] => true
  | (_, t) :: r => wf t && wfKids r
end

def getPath : List String → Tree → Option Tree
  | [], t => some t
  | k :: ks, .node kids =>
    match lookup k kids with
    | some t => getPath ks t
    | none => none
  | _ :: _, .leaf _ => none

/-- the scalar found at a path, if the path ends in a leaf -/
def leafAt (p : List String) (t : Tree) : Option Val :=
  match getPath p t with
  | some (.leaf v) => some v
  | _ => none

/-- the override `o` does not say anything about path `p`: walking `o` along `p` falls off at a missing key -/
def untouched : List String → Kids → Bool
  | [], _ => false
  | k :: ks, o =>
    match lookup k o with
    | none => true
    | some (.leaf _) => false
    | some (.node sub) => untouched ks sub

/-- `{k1: {k2: … {kn: v}}}` -/
def nestKids : List String → Val → Kids
  | [], _ => []
  | [k], v => [(k, .leaf v)]
  | k :: k' :: ks, v => [(k, .node (nestKids (k' :: ks) v))]

/-- one assignment `path := v` applied to a dict -/
def insertLeaf (acc : Kids) (pv : List String × Val) : Kids := combine (nestKids pv.1 pv.2) acc

/-- successive assignments, in order (later ones win) -/
def foldIns (l : List (List String × Val)) (acc : Kids) : Kids := l.foldl insertLeaf acc

mutual
/-- all leaf assignments of a dict in document order (depth first) -/
def leavesKids : Kids → List (List String × Val)
  | [] => []
  | (k, t) :: rest => (leavesTree t).map (fun pv => (k :: pv.1, pv.2)) ++ leavesKids rest
def leavesTree : Tree → List (List String × Val)
  | .leaf v => [([], v)]
  | .node ks => leavesKids ks
end

mutual
/-- no empty dict anywhere below (an empty dict has no leaf assignment that could express it) -/
def noEmpty : Tree → Bool
  | .leaf _ => true
  | .node ks => !ks.isEmpty && noEmptyKids ks
def noEmptyKids : Kids → Bool
  | [] => true
  | (_, t) :: r => noEmpty t && noEmptyKids r
end

/-! ## `-o key=value` -/

/-- Python `s.split(c)` on characters: always at least one piece -/
def splitAll (c : Char) : List Char → List (List Char)
  | [] => [[]]
  | x :: xs =>
    if x = c then [] :: splitAll c xs
    else match splitAll c xs with
      | [] => [[x]]
      | p :: ps => (x :: p) :: ps

/-- Python `s.split(c, 1)` when `c` occurs: text before and after the first `c` -/
def splitFirst (c : Char) : List Char → Option (List Char × List Char)
  | [] => none
  | x :: xs =>
    if x = c then some ([], xs)
    else match splitFirst c xs with
      | some (a, b) => some (x :: a, b)
      | none => none

/-- `value.startswith("[") and value.endswith("]")` -/
def bracketed (v : List Char) : Bool := v.head? == some '[' && v.getLast? == some ']'

/-- `value[1:-1].split(",")` for bracketed values, otherwise the text itself -/
def parseValue (v : List Char) : Val :=
  if bracketed v then .strs ((splitAll ',' (v.drop 1).dropLast).map String.ofList)
  else .str (String.ofList v)

/-- why a configuration source was refused (all of them surface as `ConfigurationException`, code 141) -/
inductive OptErr
  | noEquals      -- `-o foo`
deriving DecidableEq, Repr

/-- `parse_option`: `key_list, value = option.split('=', 1)`; `keys = key_list.split('.')`; nested dict -/
def parseOptionChars (s : List Char) : Except OptErr (List String × Val) :=
  match splitFirst '=' s with
  | none => .error .noEquals
  | some (k, v) => .ok ((splitAll '.' k).map String.ofList, parseValue v)

def parseOption (s : String) : Except OptErr (List String × Val) := parseOptionChars s.toList

/-- `for value in option: combine_into(parse_option(value), options_dict)` -/
def foldOptions : List String → Kids → Except OptErr Kids
  | [], acc => .ok acc
  | s :: rest, acc =>
    match parseOption s with
    | .error e => .error e
    | .ok pv => foldOptions rest (insertLeaf acc pv)

/-! ## environment variables `pydjinni__a__b=v` -/

/-- Python `s.split("__")` (leftmost matches) -/
def splitDU : List Char → List (List Char)
  | [] => [[]]
  | [x] => [[x]]
  | x :: y :: rest =>
    if x = '_' ∧ y = '_' then [] :: splitDU rest
    else match splitDU (y :: rest) with
      | [] => [[x]]
      | p :: ps => (x :: p) :: ps

def envPrefix : List Char := "pydjinni__".toList

def lower (s : List Char) : List Char := s.map Char.toLower

/-- the nested path an environment variable name denotes (`case_sensitive=False`: names are compared in lower case);
`none` when the name does not carry the prefix -/
def envPath (name : List Char) : Option (List String) :=
  let n := lower name
  if envPrefix.isPrefixOf n then some ((splitDU (n.drop envPrefix.length)).map String.ofList) else none

/-- top-level sections of the settings model: variables for other names are ignored by pydantic-settings -/
def sections : List String := ["generate", "build", "package"]

/-- the dict pydantic-settings builds from the process environment. The value of a variable is what pydantic-settings'
decoder makes of its text (parameter of the model: text for scalar-typed keys, the decoded JSON list for list-typed keys) -/
def envTree (vars : List (String × Val)) : Kids :=
  foldIns (vars.filterMap (fun (n, v) =>
    match envPath n.toList with
    | some (top :: rest) => if sections.contains top && !rest.isEmpty then some (top :: rest, v) else none
    | _ => none)) []

/-- settings of the environment source (`Settings.model_config`) that decide whether a variable's text arrives as it is -/
structure EnvKnobs where
  ignoreEmpty : Bool         -- `env_ignore_empty`: a variable whose text is empty is dropped
  noneText : Option String   -- `env_parse_none_str`: a variable with exactly this text becomes `None`
deriving DecidableEq, Repr

/-- the pinned tree sets neither (checked against the live `model_config` by the translator obligation `env_values_verbatim`) -/
def pinnedKnobs : EnvKnobs := ⟨false, none⟩

/-- what the environment source makes of one decoded value under the knobs; `none`: the variable is dropped -/
def knobVal (k : EnvKnobs) : Val → Option Val
  | .str s => if k.ignoreEmpty && decide (s = "") then none else if k.noneText = some s then some .null else some (.str s)
  | v => some v

def envVarsWith (k : EnvKnobs) (vars : List (String × Val)) : List (String × Val) :=
  vars.filterMap (fun nv => (knobVal k nv.2).map (fun v => (nv.1, v)))

/-- the dict pydantic-settings builds from the environment under the given knobs -/
def envTreeWith (k : EnvKnobs) (vars : List (String × Val)) : Kids := envTree (envVarsWith k vars)

/-- what is handed to validation: explicit input (file merged with options) over environment over `.env` file -/
def effective (explicit env dotenv : Kids) : Kids := combine explicit (combine env dotenv)

/-! ## how a leaf assignment is spelled as an `-o` option / an environment variable (specification side) -/

def joinWith (c : Char) : List (List Char) → List Char
  | [] => []
  | [k] => k
  | k :: k' :: r => k ++ c :: joinWith c (k' :: r)

def renderVal : Val → List Char
  | .str s => s.toList
  | .strs xs => '[' :: joinWith ',' (xs.map String.toList) ++ [']']
  | _ => []

/-- `a.b.c=value`, lists as `[x,y]` -/
def renderOption (pv : List String × Val) : String :=
  String.ofList (joinWith '.' (pv.1.map String.toList) ++ '=' :: renderVal pv.2)

def joinDU : List (List Char) → List Char
  | [] => []
  | [k] => k
  | k :: k' :: r => k ++ '_' :: '_' :: joinDU (k' :: r)

/-- `pydjinni__a__b__c` ↦ value -/
def renderEnvVar (pv : List String × Val) : String × Val :=
  (String.ofList (envPrefix ++ joinDU (pv.1.map String.toList)), pv.2)

/-- values that have an `-o` spelling: text that is not bracketed, non-empty lists of comma-free texts -/
def optSafeVal : Val → Bool
  | .str s => !bracketed s.toList
  | .strs xs => !xs.isEmpty && xs.all (fun x => !x.toList.contains ',')
  | _ => false

/-- assignments that have an `-o` spelling: keys without `.` and `=` -/
def optSafe (pv : List String × Val) : Bool :=
  !pv.1.isEmpty && pv.1.all (fun k => !k.toList.contains '.' && !k.toList.contains '=') && optSafeVal pv.2

def noDU : List Char → Bool
  | x :: y :: r => !(x == '_' && y == '_') && noDU (y :: r)
  | _ => true

/-- keys that survive the `__` nesting: no double underscore inside, none at the end, lower case -/
def envSafeKey (k : List Char) : Bool := noDU k && k.getLast? != some '_' && k.all (fun c => c.toLower == c)

/-- assignments that have an environment spelling: below one of the sections -/
def envSafe (pv : List String × Val) : Bool :=
  (match pv.1 with | top :: _ :: _ => sections.contains top | _ => false)
  && pv.1.all (fun k => envSafeKey k.toList)

/-! ## specification predicate of the merge, evaluated on what the implementation handed to validation -/

def valEq (a : Option Val) (b : Val) : Bool := decide (a = some b)

/-- `m` is the key-wise override of `b` by `o`: every scalar the override names is there, every scalar of the base that
the override says nothing about is kept, and nothing else appeared -/
def mergeSpec (o b m : Kids) : Bool :=
  (leavesKids o).all (fun pv => valEq (leafAt pv.1 (.node m)) pv.2)
  && (leavesKids b).all (fun pv => !untouched pv.1 o || valEq (leafAt pv.1 (.node m)) pv.2)
  && (leavesKids m).all (fun pv => valEq (leafAt pv.1 (.node o)) pv.2
        || (untouched pv.1 o && valEq (leafAt pv.1 (.node b)) pv.2))

/-! ## texts that are not valid Unicode

A Python `str` is a sequence of code points and may hold *lone surrogates* (U+D800..U+DFFF): the JSON and YAML decoders make them of
escapes like `"\ud800"`, and a byte of a command-line argument or of an environment variable that is not UTF-8 arrives as U+DC80..U+DCFF
(PEP 383, `surrogateescape`). Such a text can neither be written to a generated file nor be used in a file name
(`UnicodeEncodeError`), so `API.configure` refuses it (`require_encodable_text`) — in the dictionary that is handed to validation,
i.e. in the key-wise merge of the options into the file, whichever of the two delivered it.

A Lean `Char` is a Unicode scalar value and cannot be a surrogate. Representation (the harness maps forth and back, and never uses
these private-use characters itself): the lone surrogate U+D800+i is the private-use character U+E000+i. -/

def loneSurrogate (c : Char) : Bool := decide (0xE000 ≤ c.toNat) && decide (c.toNat ≤ 0xE7FF)

/-- `s.encode("utf-8")` does not raise -/
def encodableChars : List Char → Bool
  | [] => true
  | c :: cs => !loneSurrogate c && encodableChars cs

def encodableStr (s : String) : Bool := encodableChars s.toList

def encodableStrs : List String → Bool
  | [] => true
  | s :: r => encodableStr s && encodableStrs r

/-- (`.other`: a list with items that are no texts is carried as its JSON text, which holds every text of it) -/
def encodableVal : Val → Bool
  | .str s => encodableStr s
  | .strs xs => encodableStrs xs
  | .other r => encodableStr r
  | _ => true

mutual
/-- `require_encodable_text(value)` does not raise: every key and every text at any depth is valid Unicode -/
def encodable : Tree → Bool
  | .leaf v => encodableVal v
  | .node ks => encodableKids ks
def encodableKids : Kids → Bool
  | [] => true
  | (k, t) :: r => encodableStr k && encodable t && encodableKids r
end

mutual
/-- the configuration keys `require_encodable_text` can name, in document order (it raises at the first): a key that is not valid
Unicode is named by the path of the dictionary that holds it, a text (also an item of a list) by its own path -/
def badKeysTree (path : List String) : Tree → List (List String)
  | .leaf v => if encodableVal v then [] else [path]
  | .node ks => badKeysKids path ks
def badKeysKids (path : List String) : Kids → List (List String)
  | [] => []
  | (k, t) :: r => (if encodableStr k then [] else [path]) ++ badKeysTree (path ++ [k]) t ++ badKeysKids path r
end

/-! ## `API.configure` as a decision table -/

inductive Suffix | yaml | yml | json | toml | unknown
deriving DecidableEq, Repr

/-- what the decoder of the selected format does with the file's bytes -/
inductive Content
  | syntaxError                 -- `MarkedYAMLError` / `JSONDecodeError` / `TOMLDecodeError`
  | undecodable                 -- bytes that are not text of the format: `yaml.reader.ReaderError`, `UnicodeDecodeError`
  | nonMapping                  -- a document that is `null`, a scalar or a list
  | nonStringTopKey             -- a YAML mapping with a top-level key that is not a string
  | mapping (kids : Kids)
deriving Repr

inductive FileState
  | absent                      -- no path given (`--config None`, `configure(options=…)`)
  | missing                     -- `open` raises `FileNotFoundError`
  | directory                   -- `open` raises `IsADirectoryError`
  | present (sfx : Suffix) (c : Content)
deriving Repr

/-- how a call into the API ends -/
inductive Outcome (α : Type)
  | ok (a : α)
  | app (code : Nat)            -- an `ApplicationException` subclass with that return code
  | crash (site : String)       -- any other exception class (the CLI prints a traceback for these)
deriving Repr, DecidableEq

def Outcome.isCrash {α} : Outcome α → Bool
  | .crash _ => true
  | _ => false

/-- verdict of pydantic on the merged tree (parameter of the model): accepted (and every text of the validated settings — which
also hold what the environment and the `.env` file added — is valid Unicode), refused with a `ValidationError` -/
abbrev Validate := Kids → Bool

/-- `API.configure(path, options)`; `env`/`dotenv`: what pydantic-settings adds beneath the explicit input -/
def configure (validate : Validate) (env dotenv : Kids) (file : FileState) (options : Kids) : Outcome Kids :=
  let finish (explicit : Kids) : Outcome Kids :=
    if !encodableKids explicit then .app 141 else     -- `require_encodable_text(config_dict)`: after `combine_into(options, config_dict)`
    let eff := effective explicit env dotenv
    if validate eff then .ok eff else .app 141
  match file with
  | .absent => if options.isEmpty then .app 141 else finish (combine options [])
  | .missing => .app 2
  | .directory => .app 141
  | .present .unknown _ => .app 141
  | .present _ .syntaxError => .app 141
  | .present _ .undecodable => .app 141
  | .present _ .nonMapping => .app 141
  | .present _ .nonStringTopKey => .crash "model_validate: keywords must be strings"
  | .present _ (.mapping b) => finish (combine options b)

/-- the dictionary that `require_encodable_text` and then validation see (`none`: the call ends before) -/
def explicitOf : FileState → Kids → Option Kids
  | .absent, o => if o.isEmpty then none else some (combine o [])
  | .present sfx (.mapping b), o => if sfx = .unknown then none else some (combine o b)
  | _, _ => none

/-! ## target readiness -/

structure TargetDef where
  key : String
  generators : List String
deriving DecidableEq, Repr

/-- `API().generation_targets` in registration order with their generator keys (checked against the live plug-in
registry by the translator obligation `targets_table`) -/
def targetTable : List TargetDef :=
  [⟨"cpp", ["cpp"]⟩, ⟨"cppcli", ["cppcli"]⟩, ⟨"java", ["java", "jni"]⟩, ⟨"objc", ["objc", "objcpp"]⟩, ⟨"yaml", ["yaml"]⟩]

/-- declaration kinds of the parsed IDL, as far as readiness depends on them -/
inductive DeclKind | enum | flags | record | interface | function | errorDomain
deriving DecidableEq, Repr

def allKinds : List DeclKind := [.enum, .flags, .record, .interface, .function, .errorDomain]

/-- generators (other than `cpp`) whose templates read the C++ marshalling (`type_def.cpp.…`) of the types they render, with
the declaration kinds for which they do (generator level checked against the live templates by the translator obligation
`cpp_readers`; kind level by the correspondence run) -/
def cppReaders : List (String × List DeclKind) :=
  [("cppcli", [.record, .interface, .function, .errorDomain]), ("java", [.interface, .function]), ("jni", allKinds),
   ("objcpp", allKinds)]

/-- does generator `g` read the C++ marshalling of a declaration of kind `k`? -/
def readsCpp (g : String) (k : DeclKind) : Bool :=
  cppReaders.any (fun (g', ks) => g' == g && ks.contains k)

/-- generators whose exported marshalling (what the `yaml` generator serialises for every configured generator) reads the C++
marshalling, with the declaration kinds concerned (kind level checked by the correspondence run) -/
def exportReadsCpp : List (String × List DeclKind) := [("cppcli", [.enum, .flags])]

/-- keys below `generate` that were given (`model_fields_set`); `none`: there is no `generate` section -/
abbrev GenSet := Option (List String)

def configuredTargets (set : List String) : List TargetDef := targetTable.filter (fun t => set.contains t.key)

/-- `ConfiguredContext.parse` up to the point where the parser starts: every configured target is configured with the
generate section; a generator of such a target without its own section is refused -/
def parseReady (gs : GenSet) : Outcome (List TargetDef) :=
  match gs with
  | none => .app 141
  | some set =>
    let cts := configuredTargets set
    if cts.all (fun t => t.generators.all set.contains) then .ok cts else .app 141

/-- does generating target `d` read the C++ marshalling of some declaration? (its own generators' templates, or — for the
type export — the exported marshalling of any configured generator) -/
def needsCpp (cts : List TargetDef) (kinds : List DeclKind) (d : TargetDef) : Bool :=
  d.generators.any (fun g => kinds.any (readsCpp g))
  || (d.generators.contains "yaml"
      && cts.any (fun c => c.generators.any (fun g => exportReadsCpp.any (fun (g', ks) => g' == g && kinds.any ks.contains))))

/-- `GenerateContext.generate(t, clean)` after a successful parse with configured targets `cts` -/
def generateOutcome (cts : List TargetDef) (kinds : List DeclKind) (t : String) : Outcome Unit :=
  match targetTable.find? (fun d => d.key == t) with
  | none => .app 120
  | some d =>
    if !cts.contains d then .app 141
    else if !(cts.any (fun c => c.key == "cpp")) && needsCpp cts kinds d then
      .crash "jinja2 UndefinedError / AttributeError: type has no attribute 'cpp'"
    else .ok ()

/-! ## one `API` object, several configured contexts, any sequence of requests

The generator instances belong to the `API` object and are shared by all contexts made from it: `Target.configure` hands each
generator of a target its section of the *requesting* context's configuration, after checking that every one of them has a
section. `ConfiguredContext.parse` does that for every configured target (in registry order, stopping at the first refusal — the
targets before it stay configured for this context), `GenerateContext.generate` does it again for the requested target before
generating, because another context may have parsed in between. -/

/-- generator key ↦ index of the context whose section the generator instance holds (was configured with last) -/
abbrev Held := List (String × Nat)

def heldBy (h : Held) (g : String) : Option Nat := (h.find? (fun p => p.1 == g)).map (·.2)

def hold (h : Held) (gs : List String) (c : Nat) : Held := gs.map (fun g => (g, c)) ++ h

/-- `Target.configure(generate section of context c)`: first every generator of the target is looked up in the section — the
first one without its own section is named by the refusal and nothing is configured —, then all of them are configured -/
def targetConfigure (set : List String) (c : Nat) (d : TargetDef) (h : Held) : Except String Held :=
  match d.generators.find? (fun g => !set.contains g) with
  | some g => .error ("generate." ++ g)
  | none => .ok (hold h d.generators c)

/-- `for target in configured_targets: target.configure(…)` -/
def configureAll (set : List String) (c : Nat) : List TargetDef → Held → Held × Option String
  | [], h => (h, none)
  | d :: ds, h =>
    match targetConfigure set c d h with
    | .error k => (h, some k)
    | .ok h' => configureAll set c ds h'

structure ApiState where
  held : Held := []
  /-- contexts that hold a `GenerateContext` (their last `parse` succeeded and they were not made anew since) -/
  parsed : List Nat := []
deriving Repr

inductive Req
  | configure (c : Nat)                 -- the context is made anew from the same settings (a new configuration object)
  | parse (c : Nat)
  | generate (c : Nat) (t : String)     -- on the `GenerateContext` the last successful `parse` of context `c` returned
deriving Repr, DecidableEq

structure Answer where
  /-- `none`: nothing to ask (`configure` always succeeds here; `generate` without a `GenerateContext` is not a request) -/
  outcome : Option (Outcome Unit) := none
  /-- the configuration key the refusal names -/
  named : Option String := none
  /-- for a `generate` that ran: the contexts whose sections the generators of the target held while generating -/
  used : List Nat := []
deriving Repr

def Outcome.void {α} : Outcome α → Outcome Unit
  | .ok _ => .ok ()
  | .app c => .app c
  | .crash s => .crash s

def ctxSet (ctxs : List GenSet) (c : Nat) : GenSet := (ctxs[c]?).getD none

def parseStep (ctxs : List GenSet) (c : Nat) (s : ApiState) : Answer × ApiState :=
  match ctxSet ctxs c with
  | none => ({ outcome := some (.app 141), named := some "generate" }, s)
  | some set =>
    match configureAll set c (configuredTargets set) s.held with
    | (h, some k) => ({ outcome := some (.app 141), named := some k }, { s with held := h })
    | (h, none) => ({ outcome := some (.ok ()) }, { held := h, parsed := c :: s.parsed })

def generateStep (ctxs : List GenSet) (kinds : List DeclKind) (c : Nat) (t : String) (s : ApiState) : Answer × ApiState :=
  if !s.parsed.contains c then ({}, s) else
  match ctxSet ctxs c with
  | none => ({}, s)                                                   -- a context that parsed has a `generate` section
  | some set =>
    match targetTable.find? (fun d => d.key == t) with
    | none => ({ outcome := some (.app 120) }, s)
    | some d =>
      if !set.contains t then ({ outcome := some (.app 141), named := some ("generate." ++ t) }, s)
      else match targetConfigure set c d s.held with
        | .error k => ({ outcome := some (.app 141), named := some k }, s)
        | .ok h =>
          let s' := { s with held := h }
          if !set.contains "cpp" && needsCpp (configuredTargets set) kinds d then
            ({ outcome := some (.crash "jinja2 UndefinedError / AttributeError: type has no attribute 'cpp'") }, s')
          else ({ outcome := some (.ok ()), used := d.generators.filterMap (heldBy h) }, s')

def step (ctxs : List GenSet) (kinds : List DeclKind) : Req → ApiState → Answer × ApiState
  | .configure c, s => ({}, { s with parsed := s.parsed.filter (· != c) })
  | .parse c, s => parseStep ctxs c s
  | .generate c t, s => generateStep ctxs kinds c t s

def runReqs (ctxs : List GenSet) (kinds : List DeclKind) : List Req → ApiState → List Answer
  | [], _ => []
  | r :: rs, s => (step ctxs kinds r s).1 :: runReqs ctxs kinds rs (step ctxs kinds r s).2

/-- the configuration key the refusal of `parse` names: the first generator without a section of the first configured target
that has one -/
def parseMissing (set : List String) : Option String :=
  ((configuredTargets set).flatMap (·.generators)).find? (fun g => !set.contains g)

/-! ## domain clauses (one per known finding) -/

/-- inputs on which `API.configure` is known to leave with an exception that is not an `ApplicationException`
(finding `config:non-string-key`) -/
def cfgDom : FileState → Bool
  | .present sfx .nonStringTopKey => sfx == .unknown
  | _ => true

/-- known hole (finding `readiness:glue-without-cpp`): a glue generator that meets a declaration whose C++ marshalling it
reads while `cpp` is not configured -/
def readyDom (cts : List TargetDef) (kinds : List DeclKind) (t : String) : Bool :=
  cts.any (fun c => c.key == "cpp") ||
    !(match targetTable.find? (fun d => d.key == t) with
      | some d => needsCpp cts kinds d
      | none => false)

end Pydjinni.Sys
