/-!
# The language server's bookkeeping (`pydjinni_language_server/language_server.py`) as a state machine — model for C18

State: the open documents of the pygls workspace plus the four caches of `init_language_server`
(`ast_cache`, `type_def_cache`, `hover_cache`, `dependency_cache`, all keyed by URI) — and, as ghost components for the
specification, the last `publishDiagnostics` per URI and the disk epoch each document was last validated against.

Events: didOpen / didChange (full sync) / didClose / didSave, hover / definition / documentSymbol requests,
`workspace/didChangeWatchedFiles`, and an environment event "the files on disk changed".

The front end (`api.parse` on a `TextDocumentPath`) is a parameter `front : epoch → uri → text → FrontResult` whose
constructors are exactly the cases `validate()` distinguishes:

* `ok` — a `GenerateContext` (type declarations, type references, file imports, AST),
* `errs` — `Parser.ParsingExceptionList` (the items, each with "is located in this document", plus the partial results),
* `cfg` — `ConfigurationException` (message shown, then empty results are published),
* `app` — any other `ApplicationException` (e.g. the bare `TypeResolvingException` of a duplicate type): after the repair it is
  turned into one diagnostic when it is located in this document,
* `crash` — anything else: it escapes `validate()`, `error_logger` swallows and logs it; nothing is published, no cache is touched.

`to_hover_cache` (util.py) is modelled with its per-line / per-column table and its `KeyError` when a nested generic
argument sits on a line that has no row yet.

URIs are opaque keys: the caches are indexed with the URI exactly as the client sent it. Two handlers however compare
`urllib.parse.unquote(uri)` — the percent-*decoded* spelling — with the members of a dependency set (which are `as_uri()`
spellings, percent-*encoded*): `did_close` removes `unquote(uri)` from every other document's dependency set, and
`did_change_watched_files` revalidates the documents whose dependency set contains `unquote(change.uri)`. The decoder is a
parameter `unq : Uri → Uri` of the machine (its values come from the real `urllib.parse.unquote`); for a URI without a
percent-encoded character it is the identity, for every other URI the two spellings differ. Import-free.
-/
namespace Pydjinni.Sys.Lsp

abbrev Uri := String
abbrev Text := Nat     -- identity of a document text (the front end is a function of it)

structure Range where
  sl : Nat
  sc : Nat
  el : Nat
  ec : Nat
deriving Repr, BEq, DecidableEq, Inhabited

structure Diag where
  severity : Nat        -- 1 error, 2 warning
  range : Range
deriving Repr, BEq, DecidableEq, Inhabited

/-- what the handlers read of a reference's resolved `type_def` -/
structure DefInfo where
  comment : Option String         -- `type_def.comment` when truthy: the hover text
  deprecated : Bool               -- `type_def.deprecated` is truthy
  depFile : Option Uri            -- `isinstance(type_def, BaseType) and position.file`: `position.file.as_uri()`
  loc : Option (Uri × Range)      -- `position and position.file and isinstance(type_def, BaseExternalType)`: where "go to definition" goes
deriving Repr, BEq, DecidableEq, Inhabited

/-- `TypeReference`: position (1-based line, columns `[sc, ec)` on it), LSP range, resolved definition, generic arguments -/
inductive Ref
  | mk (own : Bool) (line sc ec : Nat) (range : Range) (tdef : Option DefInfo) (params : List Ref)
deriving Repr, Inhabited

def Ref.own : Ref → Bool | .mk o .. => o
def Ref.line : Ref → Nat | .mk _ l .. => l
def Ref.sc : Ref → Nat | .mk _ _ s .. => s
def Ref.ec : Ref → Nat | .mk _ _ _ e .. => e
def Ref.range : Ref → Range | .mk _ _ _ _ r .. => r
def Ref.tdef : Ref → Option DefInfo | .mk _ _ _ _ _ d _ => d
def Ref.params : Ref → List Ref | .mk _ _ _ _ _ _ p => p

/-- `FileReference` of an `@import` / `@extern` directive -/
structure FileRef where
  own : Bool
  line : Nat
  sc : Nat
  ec : Nat
  range : Range
  pathText : String
  pathUri : Uri
deriving Repr, BEq, DecidableEq, Inhabited

/-- a declaration as far as the symbol requests are concerned -/
structure Node where
  fileUri : Uri              -- `position.file.as_uri()`
  sym : String               -- canonical form of `to_document_symbol(node)` (payload, passed through)
  info : Option String       -- canonical `SymbolInformation`; `none` for anonymous functions (skipped by the handler)
deriving Repr, BEq, DecidableEq, Inhabited

inductive FrontResult
  | ok (defs : List Node) (refs : List Ref) (imports : List FileRef) (ast : List Node)
  | errs (items : List (Bool × Range)) (defs : List Node) (refs : List Ref) (imports : List FileRef) (ast : List Node)
  | cfg
  | app (own : Bool) (range : Range)
  | crash
deriving Repr, Inhabited

abbrev Front := Nat → Uri → Text → FrontResult

def FrontResult.defs : FrontResult → List Node
  | .ok d .. => d | .errs _ d .. => d | _ => []
def FrontResult.refs : FrontResult → List Ref
  | .ok _ r .. => r | .errs _ _ r .. => r | _ => []
def FrontResult.imports : FrontResult → List FileRef
  | .ok _ _ i _ => i | .errs _ _ _ i _ => i | _ => []
def FrontResult.ast : FrontResult → List Node
  | .ok _ _ _ a => a | .errs _ _ _ _ a => a | _ => []
/-- the error items `validate()` turns into diagnostics: list items located in this document; the single exception if it is -/
def FrontResult.items : FrontResult → List Range
  | .errs items .. => (items.filter (·.1)).map (·.2)
  | .app true r => [r]
  | _ => []
def FrontResult.isCrash : FrontResult → Bool
  | .crash => true | _ => false

/-! ### `to_hover_cache` -/

inductive Entry
  | ref (r : Ref)
  | file (f : FileRef)
deriving Repr, Inhabited

/-- `dict[int, dict[int, ref]]`: rows that exist, and the cells (latest binding first) -/
structure HoverTable where
  rows : List Nat
  cells : List ((Nat × Nat) × Entry)
deriving Repr, Inhabited

def HoverTable.empty : HoverTable := { rows := [], cells := [] }

/-- the columns `range(sc, ec)` -/
def cols (sc ec : Nat) : List Nat := (List.range (ec - sc)).map (· + sc)

/-- `for i in range(start.col, end.col): cache[start.line][i] = ref` — `none` = `KeyError` (no row for that line) -/
def putCells (t : HoverTable) (line sc ec : Nat) (e : Entry) : Option HoverTable :=
  if sc < ec && !t.rows.contains line then none
  else some { t with cells := ((cols sc ec).map fun c => ((line, c), e)).reverse ++ t.cells }

mutual
/-- `cache_ref(ref)`: own cells, then recursively the generic arguments -/
def cacheRef (t : HoverTable) : Ref → Option HoverTable
  | .mk own line sc ec range tdef params =>
    match putCells t line sc ec (.ref (.mk own line sc ec range tdef params)) with
    | none => none
    | some t1 => cacheRefs t1 params
def cacheRefs (t : HoverTable) : List Ref → Option HoverTable
  | [] => some t
  | r :: rs =>
    match cacheRef t r with
    | none => none
    | some t1 => cacheRefs t1 rs
end

/-- `if not cache.get(line): cache[line] = {}` — an existing row survives (re-creating an *empty* one changes nothing) -/
def ensureRow (t : HoverTable) (line : Nat) : HoverTable :=
  if t.rows.contains line then t else { t with rows := line :: t.rows }

/-- the top-level loop of `to_hover_cache` over `type_refs + file_imports` -/
def hoverLoop (t : HoverTable) : List Entry → Option HoverTable
  | [] => some t
  | .ref r :: es =>
    match cacheRef (ensureRow t r.line) r with
    | none => none
    | some t1 => hoverLoop t1 es
  | .file f :: es =>
    match putCells (ensureRow t f.line) f.line f.sc f.ec (.file f) with
    | none => none
    | some t1 => hoverLoop t1 es

def buildHover (refs : List Ref) (imports : List FileRef) : Option HoverTable :=
  hoverLoop .empty (refs.map .ref ++ imports.map .file)

def HoverTable.get (t : HoverTable) (row col : Nat) : Option Entry :=
  (t.cells.find? (fun c => c.1 == (row, col))).map (·.2)

/-! ### what `validate()` derives from a front-end result -/

def diagsOf (r : FrontResult) : List Diag :=
  (r.items.map fun rg => { severity := 1, range := rg })
  ++ ((r.refs.filter fun ref => ref.own && (match ref.tdef with | some d => d.deprecated | none => false)).map
        fun ref => { severity := 2, range := ref.range })

def astOf (u : Uri) (r : FrontResult) : List Node := r.ast.filter (·.fileUri == u)
def defsOf (u : Uri) (r : FrontResult) : List Node := r.defs.filter (·.fileUri == u)
def hoverOf (r : FrontResult) : Option HoverTable := buildHover (r.refs.filter (·.own)) (r.imports.filter (·.own))

def dedup (l : List Uri) : List Uri := l.foldl (fun acc x => if acc.contains x then acc else acc ++ [x]) []

/-- `set([ref.type_def.position.file.as_uri() for ref in refs if … != uri] + [config uri])` -/
def depsOf (configUri u : Uri) (r : FrontResult) : List Uri :=
  dedup ((r.refs.filterMap fun ref => match ref.tdef with
      | some d => (match d.depFile with | some f => if f != u then some f else none | none => none)
      | none => none) ++ [configUri])

/-! ### the machine -/

inductive Answer
  | none                                       -- a notification
  | null                                       -- the request answered `None`
  | hover (text : String) (range : Range)
  | location (uri : Uri) (range : Range)
  | symbols (l : List String)
deriving Repr, BEq, DecidableEq, Inhabited

inductive Ev
  | open_ (u : Uri) (t : Text)
  | change (u : Uri) (t : Text)
  | close (u : Uri)
  | save (u : Uri)
  | hover (u : Uri) (line col : Nat)
  | definition (u : Uri) (line col : Nat)
  | symbols (u : Uri) (hierarchical : Bool)
  | watched (changes : List Uri)
  | disk                                       -- environment: files on disk changed; no message reaches the server
deriving Repr, Inhabited

structure St where
  epoch : Nat
  docs : Uri → Option Text                     -- pygls workspace
  astC : Uri → Option (List Node)              -- ast_cache
  defC : Uri → Option (List Node)              -- type_def_cache
  hoverC : Uri → Option HoverTable             -- hover_cache
  depC : Uri → Option (List Uri)               -- dependency_cache
  depKeys : List Uri                           -- its keys in insertion order (the order `didChangeWatchedFiles` walks them)
  lastPub : Uri → Option (List Diag)           -- ghost: what the client last received for the URI
  valEpoch : Uri → Nat                         -- ghost: the disk epoch of the document's last validation
deriving Inhabited

structure Out where
  pubs : List (Uri × List Diag) := []
  answer : Answer := .none
  errors : Nat := 0                            -- exceptions swallowed and logged by `error_logger`
  misuse : Bool := false                       -- pygls itself rejects the message (change/close of a document that is not open)
deriving Repr, BEq, Inhabited

def upd {β : Type} (f : Uri → β) (u : Uri) (v : β) : Uri → β := fun x => if x = u then v else f x

def init : St :=
  { epoch := 0, docs := fun _ => none, astC := fun _ => none, defC := fun _ => none, hoverC := fun _ => none,
    depC := fun _ => none, depKeys := [], lastPub := fun _ => none, valEpoch := fun _ => 0 }

/-- `validate(ls, uri)`; returns the new state, the publication (if any) and the number of swallowed exceptions -/
def validate (front : Front) (configUri : Uri) (s : St) (u : Uri) : St × List (Uri × List Diag) × Nat :=
  match s.docs u with
  | none => (s, [], 1)                          -- `get_text_document` of an unknown URI: not reachable from the handlers (see `Inv`)
  | some t =>
    let r := front s.epoch u t
    if r.isCrash then (s, [], 1)                -- escapes `validate()`: nothing published, nothing updated
    else
      let d := diagsOf r
      let s1 := { s with astC := upd s.astC u (some (astOf u r)), defC := upd s.defC u (some (defsOf u r)),
                         lastPub := upd s.lastPub u (some d), valEpoch := upd s.valEpoch u s.epoch }
      match hoverOf r with
      | none => (s1, [(u, d)], 1)               -- KeyError in `to_hover_cache` after the publication: hover/dependency caches stay as they were
      | some h =>
        ({ s1 with hoverC := upd s1.hoverC u (some h), depC := upd s1.depC u (some (depsOf configUri u r)),
                   depKeys := if s1.depKeys.contains u then s1.depKeys else s1.depKeys ++ [u] }, [(u, d)], 0)

/-- the loop of `did_change_watched_files` over one change: every document whose dependency set holds the changed URI -/
def dependsOn (s : St) (u c : Uri) : Bool :=
  match s.depC u with
  | some deps => deps.contains c
  | none => false

def revalidate (front : Front) (configUri : Uri) (c : Uri) : List Uri → St → List (Uri × List Diag) → Nat → St × List (Uri × List Diag) × Nat
  | [], s, pubs, errs => (s, pubs, errs)
  | u :: us, s, pubs, errs =>
    if dependsOn s u c then
      let (s1, p, e) := validate front configUri s u
      revalidate front configUri c us s1 (pubs ++ p) (errs + e)
    else revalidate front configUri c us s pubs errs

/-- `for change in params.changes: path = unquote(change.uri); for uri, deps in dependency_cache.items(): if path in deps: validate` -/
def watchedLoop (front : Front) (configUri : Uri) (unq : Uri → Uri) : List Uri → St → List (Uri × List Diag) → Nat → St × List (Uri × List Diag) × Nat
  | [], s, pubs, errs => (s, pubs, errs)
  | c :: cs, s, pubs, errs =>
    let (s1, p, e) := revalidate front configUri (unq c) s.depKeys s pubs errs
    watchedLoop front configUri unq cs s1 p e

/-- `hover_cache.get(uri, {}).get(row, {}).get(col)` with `row = line + 1` -/
def cell (s : St) (u : Uri) (line col : Nat) : Option Entry :=
  match s.hoverC u with
  | none => none
  | some t => t.get (line + 1) col

def hoverAnswer : Option Entry → Answer
  | some (.ref r) =>
    (match r.tdef with
     | some d => (match d.comment with | some c => .hover c r.range | none => .null)
     | none => .null)
  | some (.file f) => .hover f.pathText f.range
  | none => .null

def definitionAnswer : Option Entry → Answer
  | some (.ref r) =>
    (match r.tdef with
     | some d => (match d.loc with | some (uri, rg) => .location uri rg | none => .null)
     | none => .null)
  | some (.file f) => .location f.pathUri { sl := 0, sc := 0, el := 0, ec := 0 }
  | none => .null

def symbolsAnswer (s : St) (u : Uri) (hier : Bool) : Answer :=
  match s.astC u with
  | none => .null
  | some ast =>
    if hier then .symbols (ast.map (·.sym))
    else match s.defC u with
      | some defs => .symbols (defs.filterMap (·.info))
      | none => .null                           -- KeyError in the handler; excluded by `Inv` (both caches are written together)

def step (front : Front) (configUri : Uri) (unq : Uri → Uri) (s : St) : Ev → St × Out
  | .open_ u t =>
    let (s1, p, e) := validate front configUri { s with docs := upd s.docs u (some t) } u
    (s1, { pubs := p, errors := e })
  | .change u t =>
    match s.docs u with
    | none => (s, { misuse := true })
    | some _ =>
      let (s1, p, e) := validate front configUri { s with docs := upd s.docs u (some t) } u
      (s1, { pubs := p, errors := e })
  | .close u =>
    match s.docs u with
    | none => (s, { misuse := true })
    | some _ =>
      ({ s with docs := upd s.docs u none, astC := upd s.astC u none, defC := upd s.defC u none, hoverC := upd s.hoverC u none,
                -- the four caches are popped with the URI as sent; the other documents' dependency sets lose `unquote(uri)`
                depC := fun x => if x = u then none else (s.depC x).map (fun deps => deps.filter (· != unq u)),
                depKeys := s.depKeys.filter (· != u) }, {})
  | .save _ => (s, {})
  | .hover u line col => (s, { answer := hoverAnswer (cell s u line col) })
  | .definition u line col => (s, { answer := definitionAnswer (cell s u line col) })
  | .symbols u hier => (s, { answer := symbolsAnswer s u hier })
  | .watched changes =>
    let (s1, p, e) := watchedLoop front configUri unq changes s [] 0
    (s1, { pubs := p, errors := e })
  | .disk => ({ s with epoch := s.epoch + 1 }, {})

def run (front : Front) (configUri : Uri) (unq : Uri → Uri) (es : List Ev) : St := es.foldl (fun s e => (step front configUri unq s e).1) init

/-- the handlers as they were in the pinned tree index the cache with the URI: `hover_cache[uri]` -/
def hoverPinned (s : St) (u : Uri) (line col : Nat) : Out :=
  match s.hoverC u with
  | none => { answer := .null, errors := 1 }    -- KeyError, swallowed by error_logger
  | some t => { answer := hoverAnswer (t.get (line + 1) col) }

/-! ### the specification: answers as a function of the current texts only -/

/-- the abstract view of a state: per URI the current text and the disk epoch it was last checked against -/
def view (s : St) : Uri → Option (Text × Nat) := fun u => (s.docs u).map fun t => (t, s.valEpoch u)

/-- what a server without any cache would answer, recomputing from the current text -/
def specAnswer (front : Front) (v : Uri → Option (Text × Nat)) : Ev → Answer
  | .hover u line col =>
    (match v u with
     | none => .null
     | some (t, e) => hoverAnswer ((hoverOf (front e u t)).bind fun h => h.get (line + 1) col))
  | .definition u line col =>
    (match v u with
     | none => .null
     | some (t, e) => definitionAnswer ((hoverOf (front e u t)).bind fun h => h.get (line + 1) col))
  | .symbols u hier =>
    (match v u with
     | none => .null
     | some (t, e) => if hier then .symbols ((astOf u (front e u t)).map (·.sym)) else .symbols ((defsOf u (front e u t)).filterMap (·.info)))
  | _ => .none

/-- The specification on the implementation's own observations, event by event. The abstract state is only
    "URI ↦ current text and the disk epoch it was last checked against"; it never looks at a cache.
    * open / change of `u`: exactly one publication, for `u`, equal to `diagsOf (front epoch u text)`;
    * every publication of a watched-files event is `diagsOf (front epoch u (current text of u))` for an open `u`;
    * hover / definition / documentSymbol answer `specAnswer` (from the current text; `null` for a document that is not open);
    * close, save, queries publish nothing; no handler logs an internal error. -/
def specCheck (front : Front) : List (Ev × List (Uri × List Diag) × Answer × Nat) → Nat → Nat → (Uri → Option (Text × Nat)) → List (Nat × String) → List (Nat × String)
  | [], _, _, _, acc => acc
  | (ev, pubs, ans, errs) :: rest, i, epoch, v, acc =>
    let acc := if errs == 0 then acc else acc ++ [(i, "handler-error")]
    match ev with
    | .open_ u t | .change u t =>
      let want := diagsOf (front epoch u t)
      let acc := if pubs == [(u, want)] then acc
        else acc ++ [(i, if pubs.isEmpty then "stale-diagnostics" else "wrong-diagnostics")]
      specCheck front rest (i + 1) epoch (upd v u (some (t, epoch))) acc
    | .close u =>
      let acc := if pubs.isEmpty then acc else acc ++ [(i, "publication-on-close")]
      specCheck front rest (i + 1) epoch (upd v u none) acc
    | .watched _ =>
      let bad := pubs.any fun (u, ds) => match v u with
        | some (t, _) => ds != diagsOf (front epoch u t)
        | none => true
      let acc := if bad then acc ++ [(i, "wrong-diagnostics-on-revalidation")] else acc
      let v' := pubs.foldl (fun v (u, _) => match v u with | some (t, _) => upd v u (some (t, epoch)) | none => v) v
      specCheck front rest (i + 1) epoch v' acc
    | .disk => specCheck front rest (i + 1) (epoch + 1) v acc
    | .save _ =>
      let acc := if pubs.isEmpty then acc else acc ++ [(i, "publication-on-save")]
      specCheck front rest (i + 1) epoch v acc
    | q =>
      let acc := if ans == specAnswer front v q then acc else acc ++ [(i, "answer-not-from-current-text")]
      let acc := if pubs.isEmpty then acc else acc ++ [(i, "publication-on-query")]
      specCheck front rest (i + 1) epoch v acc

end Pydjinni.Sys.Lsp
