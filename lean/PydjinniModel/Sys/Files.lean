import PydjinniModel.Gen.Paths
/-!
`FileReaderWriter` as a state machine (`pydjinni/file/file_reader_writer.py`), the processed-files
report, and `Generator.clean` on a file system given as the list of its regular files. Import-free.

`κ` is whatever identifies file contents (a digest in the driver, a symbolic content id in C10).
-/
namespace Pydjinni.SysC
open Pydjinni.GenC

/-- `Generated_<key>`: the per-generator section of the report -/
structure GenFiles where
  includeDir : Path := ⟨false, []⟩
  sourceDir : Path := ⟨false, []⟩
  header : List Path := []
  source : List Path := []
deriving DecidableEq, Repr, Inhabited

/-- `FileReaderWriter` state. `keys`: the generators registered with the processed-files model builder
    (fixed when the `API` object is built); `log`: the write log of the `PYDJINNI_VERIF=1` hook -/
structure FRW (κ : Type) where
  keys : List String
  idl : List Path := []
  ext : List Path := []
  gens : String → GenFiles := fun _ => {}
  used : List String := []
  log : List (Path × κ) := []

inductive FOp (κ : Type)
  | readIdl (p : Path)                  -- `read_idl`
  | readExt (p : Path)                  -- `read_external_type` / the recording added for `@extern`
  | setInclude (key : String) (p : Path)
  | setSource (key : String) (p : Path)
  | write (key : String) (kind : FKind) (p : Path) (c : κ)   -- write_header/write_source/copy_*: write, then record
  | writeReport (p : Path) (c : κ)      -- `write_processed_files`: written, not recorded

variable {κ : Type}

def FRW.upd (s : FRW κ) (key : String) (f : GenFiles → GenFiles) : FRW κ :=
  { s with gens := fun k => if k = key then f (s.gens k) else s.gens k }

def FRW.step (s : FRW κ) : FOp κ → FRW κ
  | .readIdl p => { s with idl := s.idl ++ [p] }
  | .readExt p => { s with ext := s.ext ++ [p] }
  | .setInclude key p => s.upd key (fun g => { g with includeDir := p })
  | .setSource key p => s.upd key (fun g => { g with sourceDir := p })
  | .write key kind p c =>
    let s := { s with log := s.log ++ [(p, c)], used := s.used ++ [key] }
    s.upd key (fun g => match kind with
      | .header => { g with header := g.header ++ [p] }
      | .source => { g with source := g.source ++ [p] })
  | .writeReport p c => { s with log := s.log ++ [(p, c)] }

def FRW.run (s : FRW κ) (ops : List (FOp κ)) : FRW κ := ops.foldl FRW.step s

/-- what `write_processed_files` dumps: unused generator keys are removed -/
structure Report where
  idl : List Path
  ext : List Path
  generated : List (String × GenFiles)
deriving DecidableEq, Repr, Inhabited

def FRW.report (s : FRW κ) : Report :=
  { idl := s.idl, ext := s.ext, generated := (s.keys.filter (fun k => s.used.contains k)).map (fun k => (k, s.gens k)) }

/-- the paths one key was asked to write, by kind, in order -/
def writesOf (key : String) (kind : FKind) : List (FOp κ) → List Path
  | [] => []
  | .write k kd p _ :: ops => if k = key ∧ kd = kind then p :: writesOf key kind ops else writesOf key kind ops
  | _ :: ops => writesOf key kind ops

def idlReads : List (FOp κ) → List Path
  | [] => []
  | .readIdl p :: ops => p :: idlReads ops
  | _ :: ops => idlReads ops

def extReads : List (FOp κ) → List Path
  | [] => []
  | .readExt p :: ops => p :: extReads ops
  | _ :: ops => extReads ops

def loggedPaths : List (FOp κ) → List Path
  | [] => []
  | .write _ _ p _ :: ops => p :: loggedPaths ops
  | .writeReport p _ :: ops => p :: loggedPaths ops
  | _ :: ops => loggedPaths ops

def writeKeys : List (FOp κ) → List String
  | [] => []
  | .write k _ _ _ :: ops => k :: writeKeys ops
  | _ :: ops => writeKeys ops

/-! ### file system, `clean` -/

/-- the regular files of a file system: absolute, normalised component lists -/
abbrev FSys := List (List String)

def normStep (acc : List String) (c : String) : List String := if c = ".." then acc.dropLast else acc ++ [c]

/-- lexical `..` removal (`os.path.normpath` on an absolute path; no symbolic links) -/
def norm (p : List String) : List String := p.foldl normStep []

/-- where the OS finds `p` when the working directory is `cwd` -/
def resolve (cwd : List String) (p : Path) : List String := norm (if p.abs then p.parts else cwd ++ p.parts)

def under (dir f : List String) : Bool := dir.isPrefixOf f && f != dir

/-- `shutil.rmtree(dir, ignore_errors=True)`: everything below `dir` goes; a regular file at `dir` stays -/
def rmtree (dir : List String) (fs : FSys) : FSys := fs.filter (fun f => !under dir f)

/-- `Generator.clean` -/
def cleanGen (cwd : List String) (c : GCfg) (fs : FSys) : FSys :=
  rmtree (resolve cwd c.out.source) (rmtree (resolve cwd c.out.header) fs)

/-- the *textual* spelling of a component list (`str(path)`), as characters -/
def pathText (p : List String) : List Char := p.flatMap (fun c => '/' :: c.toList)

/-- "lies below" decided on the spelling (`str(f).startswith(str(dir))`) instead of on the components. It is weaker than
    `under` on sibling directories whose names are string prefixes of each other (`gen/cpp` / `gen/cppcli`):
    `Props/C14.lean: text_prefix_is_not_under`. Nothing in the implementation may decide membership this way. -/
def underText (dir f : List String) : Bool := (pathText dir).isPrefixOf (pathText f)

/-! ### symbolic links to directories (input side)

`norm` / `resolve` above are *lexical* (`os.path.normpath`): right for the files the tool writes, whose paths the
harness keeps free of links. The input side is different: the operating system walks a path component by component, and
`..` behind a component that is a symbolic link leaves the directory the link points to, not the directory the link is
spelled in. -/

/-- symbolic links to directories: (absolute link-free path of the link, absolute link-free path of its target) -/
abbrev Links := List (List String × List String)

def followLink (links : Links) (p : List String) : List String :=
  match links.find? (fun l => l.1 == p) with
  | some l => l.2
  | none => p

/-- one component of the walk: `..` leaves the directory *reached*; a prefix that is a link continues at its target -/
def physStep (links : Links) (acc : List String) (c : String) : List String :=
  if c = ".." then acc.dropLast else followLink links (acc ++ [c])

/-- the file the operating system reaches through the absolute path `p` (`os.path.realpath`; targets are link-free) -/
def phys (links : Links) (p : List String) : List String := p.foldl (physStep links) []

/-- the file a path as spelled (in the report, in an `@import`) denotes when the working directory is `cwd` -/
def physResolve (links : Links) (cwd : List String) (p : Path) : List String :=
  phys links (if p.abs then p.parts else cwd ++ p.parts)

/-- creating/overwriting files -/
def addFiles (fs : FSys) (ps : List (List String)) : FSys := ps.foldl (fun acc p => if acc.contains p then acc else acc ++ [p]) fs

/-! ### one `configure / parse / generate* ` run (C14) -/

/-- one run of the tool: working directory, configuration, targets in the order they are generated -/
structure RunCfg where
  cwd : List String
  gens : G → Option GCfg
  targets : List T
  clean : Bool
  support : G → List (FKind × Path)     -- `[]` when `support_lib_sources` is off
  defs : List Decl

/-- `Target.generate` for one generator instance: optional `clean`, then all writes -/
def genStep (r : RunCfg) (st : FRW Unit × FSys) (g : G) : FRW Unit × FSys :=
  match r.gens g with
  | none => st
  | some c =>
    let fs := if r.clean then cleanGen r.cwd c st.2 else st.2
    let ws := genWrites g c c (r.support g) r.defs
    (st.1.run (ws.map (fun w => FOp.write g.key w.1 w.2 ())), addFiles fs (ws.map (fun w => resolve r.cwd w.2)))

def RunCfg.generators (r : RunCfg) : List G := r.targets.flatMap T.generators

def runTargets (r : RunCfg) (st : FRW Unit × FSys) : FRW Unit × FSys := r.generators.foldl (genStep r) st

end Pydjinni.SysC
