import PydjinniModel.Sys.Pkg
/-!
Histories of the package operation on ONE output tree: earlier runs (each a separate command line call: its own log of invocations)
leave their files and directories behind — the build directories, the package build directory (wiped only with `clean`), the
package output directory (wiped by every run). `afterRuns` is the world the next operation starts in. Import-free.
-/
namespace Pydjinni.Sys.Pkg

/-- one earlier run of the package operation under configuration `c` (with its own oracle): what it leaves, the invocation log reset -/
def afterRun (w : World) (p : Cfg × Oracle) : World :=
  { (run p.2 (packageOp p.1) w).2 with calls := [] }

/-- the world after a history of earlier package runs on the same tree -/
def afterRuns (hist : List (Cfg × Oracle)) (w : World) : World := hist.foldl afterRun w

theorem afterRuns_calls (hist : List (Cfg × Oracle)) (w : World) (hw : w.calls = []) : (afterRuns hist w).calls = [] := by
  induction hist generalizing w with
  | nil => exact hw
  | cons p rest ih => exact ih (afterRun w p) rfl

end Pydjinni.Sys.Pkg
