/-!
# Packaging driver (`pydjinni.packaging`, `pydjinni.builder.conan`) as a state machine — model for C20

What is modelled, path by path:

* `packaging/target.py: execute` — save cwd, `os.chdir(working_dir)` (only when one is given), `shutil.which`,
  `os.system`, raise `ExternalCommandException` (code 130), with the `os.chdir(cwd)` restore in a `finally`
  (the code after the `fix:` commits). `executePinned` is the function as it was in the pinned tree
  (default `working_dir` bound at import time, no restore on the non-zero branch); it is only used by the
  counterexample theorems.
* `prepare`, `copy_directory`, `copy_file`, template rendering of `PackageTarget.package`.
* per target the step lists of `build` (conan builder + `after_build`), `package` (+ `package_build`) and
  `publish` for `aar`, `nuget`, `swiftpackage`.

A pipeline is a flat list of guarded steps (`Step`); Python locals that are computed from the file system and
used later (`pdb_exists`, `git_repository_path.exists()`, `dsym_input`) are flags in the state.

External tools are an oracle `Oracle := Nat → String → ToolResult` (invocation index, tool). A tool that succeeds
creates the files listed in the step's `eff` (where that tool *would* write: assumed, the correspondence run uses
stub tools that do exactly this); a tool that fails creates nothing.

The file system is a list of file paths plus a list of explicitly created directories; a directory exists iff
it was created or something lives below it. Paths are component lists from a common root; a Python `Path` value
is `P.abs` or `P.rel` (resolved against the *current* working directory at the time of use — that is why the
restore in `execute` matters for everything that follows). Import-free.
-/
namespace Pydjinni.Sys.Pkg

abbrev Path := List String

/-- a Python `Path` value -/
inductive P
  | abs (c : Path)
  | rel (c : Path)
deriving Repr, BEq, DecidableEq, Inhabited

def P.join : P → Path → P
  | .abs c, x => .abs (c ++ x)
  | .rel c, x => .rel (c ++ x)

def resolve (cwd : Path) : P → Path
  | .abs c => c
  | .rel c => cwd ++ c

/-- `p` is `d` or lives below `d` -/
def under (d p : Path) : Bool := d.isPrefixOf p

/-- A relative Python `Path` that starts with `n` components `..` (`package.out: ../../artifacts`): the directory the operating
    system reaches from the working directory `cwd` of the call. Component lists here are normalised (no `..`), so such a
    path is represented by its resolution against the cwd *of the call* — exact for every use inside one operation because the
    working directory at every use is the one of the call (`run_restores_cwd`: `execute` restores it on every branch). -/
def P.upFrom (cwd : Path) (n : Nat) (c : Path) : P := .abs (cwd.take (cwd.length - n) ++ c)

inductive ToolResult
  | ok
  | missing      -- `shutil.which` finds nothing
  | nonzero      -- `os.system` returns a non-zero status
deriving Repr, BEq, DecidableEq, Inhabited

abbrev Oracle := Nat → String → ToolResult

/-- one consulted invocation point (what the stub tools log, plus the verdict) -/
structure Call where
  tool : String
  sig : List String        -- the arguments that identify the invocation point
  ranIn : Path             -- process cwd while the tool runs
  result : ToolResult
  handled : Bool           -- the failure of this invocation is caught by the caller (`nuget sources update`)
deriving Repr, BEq, DecidableEq, Inhabited

inductive Err
  | external               -- ExternalCommandException, code 130
  | fileNotFound           -- FileNotFoundException, code 2 (copy_directory / copy_file on a missing source)
  | oserror (site : String) -- a Python OSError escapes (chdir into a missing directory, unlink/stat/read of a missing file)
deriving Repr, BEq, DecidableEq, Inhabited

inductive Res
  | ok
  | err (e : Err)
deriving Repr, BEq, DecidableEq, Inhabited

structure World where
  cwd : Path
  files : List Path
  dirs : List Path
  flags : List String
  calls : List Call
deriving Repr, Inhabited

def World.fileExists (w : World) (p : Path) : Bool := w.files.contains p
def World.dirExists (w : World) (d : Path) : Bool := w.dirs.any (under d) || w.files.any (fun f => under d f && f != d)
def World.hasFlag (w : World) (n : String) : Bool := w.flags.contains n

def addFile (fs : List Path) (p : Path) : List Path := if fs.contains p then fs else fs ++ [p]
def addFiles (fs : List Path) (ps : List Path) : List Path := ps.foldl addFile fs

/-! ### `execute` -/

/-- a file a tool leaves on success: spelled relative to where the tool runs (`here`), or handed to the tool as
    `Path.absolute()` computed by the caller before the call (`callerAbs`) -/
inductive Eff
  | here (p : P)
  | callerAbs (p : P)
deriving Repr, Inhabited

def Eff.resolve (callerCwd toolCwd : Path) : Eff → Path
  | .here p => Pkg.resolve toolCwd p
  | .callerAbs p => Pkg.resolve callerCwd p

/-- `os.chdir(working_dir)` when one is given; `none` = the directory does not exist (FileNotFoundError) -/
def chdirTo (w : World) : Option P → Option World
  | none => some w
  | some d =>
    let t := resolve w.cwd d
    if t == [] || w.dirExists t then some { w with cwd := t } else none

/-- `execute(command, arguments, working_dir=None)` after the repair:
```
cwd = os.getcwd()
if working_dir is not None: os.chdir(working_dir)
try:
    if shutil.which(command): ... result = os.system(...); if result != 0: raise ExternalCommandException
    else: raise ExternalCommandException("Unknown command")
finally:
    os.chdir(cwd)
``` -/
def execute (orc : Oracle) (tool : String) (sig : List String) (wd : Option P) (eff : List Eff) (handled : Bool)
    (w : World) : Res × World :=
  let saved := w.cwd
  match chdirTo w wd with
  | none => (.err (.oserror "chdir"), w)
  | some w1 =>
    let r := orc w1.calls.length tool
    let call : Call := { tool := tool, sig := sig, ranIn := w1.cwd, result := r, handled := handled && decide (r ≠ .ok) }
    match r with
    | .ok => (.ok, { w1 with cwd := saved, calls := w1.calls ++ [call], files := addFiles w1.files (eff.map (Eff.resolve saved w1.cwd)) })
    | _ => (.err .external, { w1 with cwd := saved, calls := w1.calls ++ [call] })

/-- `execute` as in the pinned tree: the default `working_dir=Path(os.getcwd())` is evaluated once, at import time
    (`importCwd`), and `os.chdir(cwd)` is missing on the non-zero branch. -/
def executePinned (importCwd : Path) (orc : Oracle) (tool : String) (sig : List String) (wd : Option P) (eff : List Eff)
    (w : World) : Res × World :=
  let saved := w.cwd
  match chdirTo w (some (wd.getD (.abs importCwd))) with
  | none => (.err (.oserror "chdir"), w)
  | some w1 =>
    let r := orc w1.calls.length tool
    let call : Call := { tool := tool, sig := sig, ranIn := w1.cwd, result := r, handled := false }
    match r with
    | .ok => (.ok, { w1 with cwd := saved, calls := w1.calls ++ [call], files := addFiles w1.files (eff.map (Eff.resolve saved w1.cwd)) })
    | .missing => (.err .external, { w1 with cwd := saved, calls := w1.calls ++ [call] })
    | .nonzero => (.err .external, { w1 with calls := w1.calls ++ [call] })

/-! ### file operations -/

/-- `shutil.rmtree(d)` -/
def rmtree (w : World) (d : Path) : World :=
  { w with files := w.files.filter (fun f => !under d f), dirs := w.dirs.filter (fun f => !under d f) }

/-- `prepare(directory, clean)`: `if clean and directory.exists(): rmtree`; `mkdir(parents=True, exist_ok=True)` -/
def prepareDir (w : World) (d : Path) (clean : Bool) : World :=
  let w1 := if clean then rmtree w d else w
  { w1 with dirs := addFile w1.dirs d }

/-- files and directories below `src`, re-rooted at `dst` -/
def reroot (src dst : Path) (l : List Path) : List Path :=
  (l.filter (under src)).map (fun f => dst ++ f.drop src.length)

inductive Cond
  | always
  | flag (n : String)
  | notFlag (n : String)
deriving Repr, BEq, DecidableEq, Inhabited

inductive Prim
  /-- `execute(tool, …, working_dir=wd)`; on success the tool leaves `eff` (resolved in the directory it ran in) -/
  | exec (tool : String) (sig : List String) (wd : Option P) (eff : List Eff)
  /-- `try: execute(tool, sig1, wd) except ExternalCommandException: execute(tool, sig2, wd)` -/
  | execOr (tool : String) (sig1 sig2 : List String) (wd : Option P)
  | prepare (d : P) (clean : Bool)
  /-- `copy_directory(src, dst, clean)` where `src` is the first existing directory of `srcs` -/
  | copyTree (srcs : List P) (dst : P) (clean : Bool)
  | copyFile (src dst : P)
  /-- `prepare(parent); write_text` of a rendered template (or `copy_file` of a binary one) -/
  | write (p : P)
  /-- `os.stat` / `os.chmod` / `read_text` of a file that has to exist -/
  | need (site : String) (p : P)
  | unlink (p : P)
  | setFlagFile (n : String) (p : P)         -- `n = p.exists()` (a file)
  | setFlagAnyDir (n : String) (ps : List P) -- `n = bool([p for p in ps if p.exists()])` / `p.exists()` (directories)
deriving Repr, Inhabited

structure Step where
  cond : Cond
  prim : Prim
deriving Repr, Inhabited

def condHolds (w : World) : Cond → Bool
  | .always => true
  | .flag n => w.hasFlag n
  | .notFlag n => !w.hasFlag n

def setFlag (w : World) (n : String) (v : Bool) : World :=
  { w with flags := if v then (if w.flags.contains n then w.flags else n :: w.flags) else w.flags.filter (· != n) }

def runPrim (orc : Oracle) (w : World) : Prim → Res × World
  | .exec tool sig wd eff => execute orc tool sig wd eff false w
  | .execOr tool sig1 sig2 wd =>
    match execute orc tool sig1 wd [] true w with
    | (.err .external, w1) => execute orc tool sig2 wd [] false w1
    | r => r
  | .prepare d clean => (.ok, prepareDir w (resolve w.cwd d) clean)
  | .copyTree srcs dst clean =>
    let dstR := resolve w.cwd dst
    let w1 := prepareDir w dstR clean
    match (srcs.map (resolve w.cwd)).find? w1.dirExists with
    | none => (.err .fileNotFound, w1)
    | some s => (.ok, { w1 with files := addFiles w1.files (reroot s dstR w1.files), dirs := addFiles w1.dirs (reroot s dstR w1.dirs) })
  | .copyFile src dst =>
    let s := resolve w.cwd src
    let d := resolve w.cwd dst
    let w1 := { w with dirs := addFile w.dirs d.dropLast }
    if w1.fileExists s then (.ok, { w1 with files := addFile w1.files d }) else (.err .fileNotFound, w1)
  | .write p =>
    let t := resolve w.cwd p
    (.ok, { w with dirs := addFile w.dirs t.dropLast, files := addFile w.files t })
  | .need site p => if w.fileExists (resolve w.cwd p) then (.ok, w) else (.err (.oserror site), w)
  | .unlink p =>
    let t := resolve w.cwd p
    if w.fileExists t then (.ok, { w with files := w.files.filter (· != t) }) else (.err (.oserror "unlink"), w)
  | .setFlagFile n p => (.ok, setFlag w n (w.fileExists (resolve w.cwd p)))
  | .setFlagAnyDir n ps => (.ok, setFlag w n (ps.any (fun p => w.dirExists (resolve w.cwd p))))

def runStep (orc : Oracle) (w : World) (s : Step) : Res × World :=
  if condHolds w s.cond then runPrim orc w s.prim else (.ok, w)

/-- run a pipeline: the first step that raises ends it -/
def run (orc : Oracle) : List Step → World → Res × World
  | [], w => (.ok, w)
  | s :: ss, w =>
    match runStep orc w s with
    | (.ok, w1) => run orc ss w1
    | r => r

/-! ### configuration and the per-target step lists -/

inductive SwiftRepo
  | localDir (p : P)     -- a directory: the package is copied there
  | gitPath              -- `git@host:x.git` (parsed as a Path): clone with the plain spelling
  | url                  -- an `HttpUrl`: clone with credentials spliced in
deriving Repr, BEq, DecidableEq, Inhabited

/-! ### the repository address of the Swift package `publish`

`publish.repository : HttpUrl | Path` — one text decides between "copy the package into a directory" (no external command at all)
and "publish through git" (seven invocation points):
```
if isinstance(repository, Path) and not (str(repository).startswith("git@") and repository.suffix == ".git"): copy …
else: git …
```
The rule is modelled on the spelling: pydantic reads `http(s)://authority…` as an `HttpUrl`, everything else becomes a
`pathlib.Path` (empty components and `.` dropped, a trailing `/` dropped, `..` kept), whose text starts with `git@` iff the path is
relative and its first component does, and whose `suffix` is the last dot-part of the final component (not a leading dot, not a
trailing one). Nothing else of the text matters — not the number of path segments after the colon, not `~`, not a leading `/`. -/

/-- split at `/` -/
def splitSlash : List Char → List (List Char)
  | [] => [[]]
  | c :: cs =>
    match splitSlash cs with
    | [] => [[c]]
    | h :: t => if c == '/' then [] :: h :: t else (c :: h) :: t

/-- `pathlib.PurePosixPath(text)`: absolute?, components -/
def pathParts (cs : List Char) : Bool × List (List Char) :=
  (cs.head? == some '/', (splitSlash cs).filter (fun c => c != [] && c != ['.']))

def gitAt : List Char := ['g', 'i', 't', '@']
def dotGit : List Char := ['.', 'g', 'i', 't']

/-- `Path(name).suffix == ".git"`: the name ends with `.git` and that dot is not its first character -/
def gitSuffix (name : List Char) : Bool := dotGit.isSuffixOf name && decide (4 < name.length)

/-- `str(path).startswith("git@") and path.suffix == ".git"` on the parsed path -/
def scpLike (isAbs : Bool) (comps : List (List Char)) : Bool :=
  !isAbs && (match comps.head? with | some h => gitAt.isPrefixOf h | none => false)
         && (match comps.getLast? with | some l => gitSuffix l | none => false)

/-- pydantic takes the text for an `HttpUrl`: `http://` or `https://` (any letter case) followed by an authority.
    (Its further URL validation is not modelled; the correspondence run feeds well-formed URLs.) -/
def isHttp (cs : List Char) : Bool :=
  let l := cs.map Char.toLower
  let after (p : List Char) : Bool := p.isPrefixOf l && (match l.drop p.length with | [] => false | c :: _ => c != '/')
  after ['h', 't', 't', 'p', ':', '/', '/'] || after ['h', 't', 't', 'p', 's', ':', '/', '/']

/-- what `publish` makes of the configured address (`cwd`: the caller's directory, for a relative path through `..`) -/
def classifyChars (cwd : Path) (cs : List Char) : SwiftRepo :=
  if isHttp cs then .url
  else
    let parts := pathParts cs
    if scpLike parts.1 parts.2 then .gitPath
    else
      let names := parts.2.map String.ofList
      if parts.1 then .localDir (.abs names)
      else
        let ups := (names.takeWhile (· == "..")).length
        if ups == 0 then .localDir (.rel names) else .localDir (P.upFrom cwd ups (names.drop ups))

def classifyRepo (cwd : Path) (addr : String) : SwiftRepo := classifyChars cwd addr.toList

def SwiftRepo.isRemote : SwiftRepo → Bool
  | .localDir _ => false
  | _ => true

structure Cfg where
  key : String
  target : String
  version : String
  configuration : String
  out : P
  /-- the `build(platform, …)` calls of the run, each with the architectures it iterates over -/
  platforms : List (String × List String)
  clean : Bool
  /-- files of the target's template directory (relative) -/
  templates : List Path
  /-- what the build tool leaves below `<build_dir>/dist` (relative) -/
  distFiles : List Path
  netVersion : String
  readme : Option P
  mavenRemote : Bool
  nugetLocal : Bool
  swiftRepo : SwiftRepo
deriving Repr, Inhabited

def Cfg.base (c : Cfg) : P := c.out.join [c.configuration]
def Cfg.pkgOut (c : Cfg) : P := c.base.join ["package", c.key]
def Cfg.buildRoot (c : Cfg) : P := c.base.join ["build"]
def Cfg.pkgBuild (c : Cfg) : P := c.buildRoot.join [c.key, "package"]
def Cfg.platDir (c : Cfg) (platform arch : String) : P := c.buildRoot.join [c.key, "platforms", platform, arch]
/-- swiftpackage spells the key literally here -/
def Cfg.mergedDir (c : Cfg) (platform : String) (archs : List String) : P :=
  c.buildRoot.join ["swiftpackage", "platforms", platform, "_".intercalate archs, "dist"]
def Cfg.repoDir (c : Cfg) : P := c.buildRoot.join [c.key, "package_repository"]

def always (p : Prim) : Step := ⟨.always, p⟩

def frameworkName (c : Cfg) : String := c.target ++ ".framework"
def dsymName (c : Cfg) : String := c.target ++ ".framework.dSYM"

/-- `lipo_combine_framework(input, output)`: copy the first input, then `lipo -create` over it (default working dir) -/
def lipoCombine (cond : Cond) (kind : String) (inputs : List P) (output : P) : List Step :=
  [⟨cond, .copyTree inputs output true⟩, ⟨cond, .exec "lipo" ["-create", kind] none []⟩]

/-- `PackageTarget.build(build_strategy, platform, architectures, clean)` with the conan builder and `after_build` -/
def buildSteps (c : Cfg) (platform : String) (archs : List String) : List Step :=
  (archs.flatMap fun a =>
    let bp := c.platDir platform a
    [always (.prepare bp c.clean),
     always (.exec "conan" ["build", platform, a] none (c.distFiles.map fun f => .here (bp.join ("dist" :: f))))])
  ++
  (if c.key == "swiftpackage" && archs.length > 1 then
    let dists := archs.map fun a => (c.platDir platform a).join ["dist"]
    let merged := c.mergedDir platform archs
    let dsyms := dists.map (·.join [dsymName c])
    -- the framework copy takes `input[0]` unconditionally; the dSYM list was filtered to the existing ones first
    lipoCombine .always "framework" ((dists.map (·.join [frameworkName c])).take 1) (merged.join [frameworkName c])
    ++ [always (.setFlagAnyDir ("dsym:" ++ platform) dsyms)]
    ++ lipoCombine (.flag ("dsym:" ++ platform)) "dSYM" dsyms (merged.join [dsymName c])
  else [])

/-- `_build_artifacts` after all `build` calls: platform ↦ (architecture ↦ directory) -/
def artifacts (c : Cfg) : List (String × P) :=
  c.platforms.flatMap fun (platform, archs) =>
    if c.key == "swiftpackage" && archs.length > 1 then [("_".intercalate archs, c.mergedDir platform archs)]
    else archs.map fun a => (a, (c.platDir platform a).join ["dist"])

def aarArch : String → String
  | "x86" => "x86" | "x86_64" => "x86_64" | "armv7" => "armeabi-v7a" | "armv8" => "arm64-v8a" | a => a
def nugetArch : String → String
  | "x86" => "win-x86" | "x86_64" => "win-x64" | "armv7" => "win-arm" | "armv8" => "win-arm64" | a => a

/-- `package_build()` up to (not including) the statement that puts the artifact into the package output directory -/
def packageStage (c : Cfg) : List Step :=
  let pb := c.pkgBuild
  match c.key with
  | "aar" =>
    let so := "lib" ++ c.target ++ ".so"
    ((artifacts c).flatMap fun (arch, path) =>
      [always (.copyTree [path.join [c.target]] (pb.join ["src", "main", "java"]) false),
       always (.copyFile (path.join [so]) (pb.join ["src", "main", "jniLibs", aarArch arch, so]))])
    ++ [always (.need "chmod" (pb.join ["gradlew"])),
        always (.exec "gradlew" ["assembleRelease"] (some pb) [.here (.rel ["build", "outputs", "aar", c.target ++ "-release.aar"])])]
  | "nuget" =>
    let first := match artifacts c with
      | [] => []
      | (_, path) :: _ => [always (.copyTree [path] (pb.join ["ref", c.netVersion]) false),
                           always (.setFlagFile "pdb" (path.join [c.target ++ ".pdb"]))]
    first
    ++ ((artifacts c).map fun (arch, path) => always (.copyTree [path] (pb.join ["runtimes", nugetArch arch, "lib", c.netVersion]) false))
    ++ (match c.readme with | some r => [always (.copyFile r (pb.join ["README.md"]))] | none => [])
  | _ => -- swiftpackage
    let xc := pb.join ["bin", c.target ++ ".xcframework"]
    [always (.prepare xc true),
     always (.exec "xcodebuild" ["-create-xcframework"] none [.callerAbs (xc.join ["Info.plist"])])]

/-- the last statement of `package_build()`: the one that fills the package output directory
    (aar: copy the `.aar`; nuget: `nuget pack -OutputDirectory <out>`, with `-Symbols` iff a pdb was seen; swiftpackage: copy the tree) -/
def packageFill (c : Cfg) : List Step :=
  match c.key with
  | "aar" => [always (.copyFile (c.pkgBuild.join ["build", "outputs", "aar", c.target ++ "-release.aar"]) (c.pkgOut.join [c.target ++ ".aar"]))]
  | "nuget" =>
    let nupkg := c.pkgOut.join [c.target ++ "." ++ c.version ++ ".nupkg"]
    let snupkg := c.pkgOut.join [c.target ++ "." ++ c.version ++ ".symbols.nupkg"]
    [⟨.flag "pdb", .exec "nuget" ["pack", "-Symbols"] (some c.pkgBuild) [.callerAbs nupkg, .callerAbs snupkg]⟩,
     ⟨.notFlag "pdb", .exec "nuget" ["pack"] (some c.pkgBuild) [.callerAbs nupkg]⟩]
  | _ => [always (.copyTree [c.pkgBuild] c.pkgOut true)]

def packageBuildSteps (c : Cfg) : List Step := packageStage c ++ packageFill c

/-- `PackageTarget.package(clean)` -/
def packageSteps (c : Cfg) : List Step :=
  always (.prepare c.pkgBuild c.clean) :: always (.prepare c.pkgOut true) ::
    ((c.templates.map (fun t => always (.write (c.pkgBuild.join t))) ++ packageStage c) ++ packageFill c)

/-- all `build(platform)` calls of the run -/
def buildAll (c : Cfg) : List Step := c.platforms.flatMap fun (p, archs) => buildSteps c p archs

/-- the whole `pydjinni package <key> <platform>…` operation -/
def packageOp (c : Cfg) : List Step := buildAll c ++ packageSteps c

def publishSteps (c : Cfg) : List Step :=
  match c.key with
  | "aar" =>
    if c.mavenRemote then [always (.exec "gradlew" ["publishReleasePublicationToRemoteRepository"] (some c.pkgBuild) [])]
    else [always (.exec "gradlew" ["publishReleasePublicationToMavenLocal"] (some c.pkgBuild) [])]
  | "nuget" =>
    (if c.nugetLocal then [] else [always (.execOr "nuget" ["sources", "update"] ["sources", "add"] (some c.pkgOut))])
    ++ [always (.exec "nuget" ["push"] (some c.pkgOut) [])]
  | _ =>
    match c.swiftRepo with
    | .localDir d => [always (.copyTree [c.pkgBuild] (d.join [c.target]) true)]
    | _ =>
      let repo := c.repoDir
      let git (cond : Cond) (sig : List String) (wd : Option P) (eff : List Eff) : Step := ⟨cond, .exec "git" sig wd eff⟩
      [always (.setFlagAnyDir "repo" [repo]),
       git (.flag "repo") ["checkout"] (some repo) [],
       git (.flag "repo") ["pull"] (some repo) [],
       git (.notFlag "repo") ["clone"] none [.here (repo.join ["Package.swift"]), .here (repo.join [".git", "HEAD"])],
       git (.notFlag "repo") ["checkout"] (some repo) [],
       always (.unlink (repo.join ["Package.swift"])),
       always (.prepare (repo.join ["bin"]) true),
       always (.copyTree [c.pkgBuild] repo false),
       always (.need "read" (c.pkgBuild.join ["VERSION"])),
       git .always ["add"] (some repo) [],
       git .always ["commit"] (some repo) [],
       git .always ["tag"] (some repo) [],
       git .always ["push"] (some repo) [],
       git .always ["push", "--tags"] (some repo) []]

/-! ### oracles and the specification -/

def allOk : Oracle := fun _ _ => .ok
/-- every invocation succeeds except the `k`-th, which fails with `f` -/
def faultAt (k : Nat) (f : ToolResult) : Oracle := fun i _ => if i == k then f else .ok
/-- the tools disappear from `PATH` before the `k`-th invocation (and stay away) -/
def missingFrom (k : Nat) : Oracle := fun i _ => if k ≤ i then .missing else .ok

/-- a *set* of faults: the listed invocation indices exit non-zero, and from index `m` on (if given) the tools are gone -/
def faultsAt (nonzero : List Nat) (missing : Option Nat) : Oracle := fun i _ =>
  if (match missing with | some m => decide (m ≤ i) | none => false) then .missing
  else if nonzero.contains i then .nonzero else .ok

/-- no logged invocation failed without being handled by its caller -/
def Call.clean (c : Call) : Bool := decide (c.result = .ok) || c.handled
def clean (calls : List Call) : Bool := calls.all Call.clean

/-- finished artifacts of a package target, relative to the package output directory -/
def isArtifact (key : String) (rel : Path) : Bool :=
  match key with
  | "aar" => rel.length == 1 && (rel.headD "").endsWith ".aar"
  | "nuget" => rel.length == 1 && (rel.headD "").endsWith ".nupkg"
  | _ => rel == ["Package.swift"] || (rel.headD "" == "bin" && rel.any (·.endsWith ".xcframework"))

/-- what the harness observes of one operation -/
structure Obs where
  code : Option Nat         -- `none`: returned normally; `some c`: ApplicationException with code `c`; `some 1`: anything else
  cwdBefore : Path
  cwdAfter : Path
  outBefore : List Path     -- files below the package output directory (relative to it)
  outAfter : List Path
  ranIn : List Path         -- per logged invocation the directory it ran in
  /-- directories the configuration sends the operation to besides the caller's working directory: the resolved `package.out`
      (it holds the build and package directories the tools are started in) — it need not lie below the caller's directory -/
  workRoots : List Path := []
  /-- per logged invocation the exit status the (stub) tool itself recorded for its own run -/
  exits : List Nat := []
  /-- per logged invocation: it is the probe whose failure the caller catches -/
  handledAt : List Bool := []
  /-- every command line the operation handed to the shell -/
  cmdlines : List String := []
  /-- files and directories that exist after the operation and did not exist before it (from the common root) -/
  newPaths : List Path := []
  /-- where the configuration allows the operation to write: the output base; for a publish into a local directory the destination -/
  allowed : List Path := []
deriving Repr, Inhabited

/-- The property on one observation. `fault = none`: all tools succeed. `some (k, handled)`: the `k`-th invocation
    fails (`handled`: it is the probe whose failure the caller catches). `logged`: number of invocations the stubs saw
    that the failing one may not exceed. Returns the violated clauses. -/
def spec (key phase : String) (fault : Option (Nat × Bool)) (maxLogged : Nat) (o : Obs) : List String :=
  let cwd := if o.cwdAfter == o.cwdBefore then [] else ["cwd-not-restored"]
  let ran := if o.ranIn.all (fun d => under o.cwdBefore d || o.workRoots.any (fun r => under r d)) then [] else ["ran-outside-caller-directory"]
  match fault with
  | none =>
    (if o.code == none then [] else ["unexpected-failure"]) ++ cwd ++ ran
    ++ (if phase == "package" && o.code == none && !(o.outAfter.any (isArtifact key)) then ["no-artifact-on-success"] else [])
  | some (_, true) => cwd ++ ran
  | some (_, false) =>
    (if o.code == some 130 then [] else ["not-reported-as-130"]) ++ cwd ++ ran
    ++ (if o.ranIn.length ≤ maxLogged then [] else ["continued-after-failure"])
    ++ (if phase == "package" then (if o.outAfter.any (isArtifact key) then ["artifact-after-failure"] else [])
        else (if o.outAfter.all o.outBefore.contains then [] else ["output-changed"]))

/-! ### the environment: what the shell makes of a command line

`execute` joins command and arguments with blanks and hands the text to `os.system`, i.e. to `sh -c`. The model's `execute` takes the
verdict of the *named* tool for the status of the command — true for a simple command. As soon as the text holds a control operator
the status is that of another command: of the last one of a pipeline (`xcodebuild … | xcpretty`), of the right-hand side of `;`,
of `true` in `… || true`. -/

inductive Sh
  | cmd (name : String)
  | pipe (a b : Sh)
  | seq (a b : Sh)
  | and (a b : Sh)
  | or (a b : Sh)
  | bg (a : Sh)
deriving Repr, Inhabited

/-- exit status 0? (`st`: the statuses of the programs) -/
def Sh.status (st : String → Bool) : Sh → Bool
  | .cmd n => st n
  | .pipe _ b => b.status st
  | .seq _ b => b.status st
  | .and a b => a.status st && b.status st
  | .or a b => a.status st || b.status st
  | .bg _ => true

/-- the command word `execute` was given (the only name it looks up with `shutil.which`) -/
def Sh.named : Sh → String
  | .cmd n => n
  | .pipe a _ | .seq a _ | .and a _ | .or a _ | .bg a => a.named

def Sh.simple : Sh → Bool
  | .cmd _ => true
  | _ => false

/-- `execute` with the command line as the shell sees it: found iff the *named* tool is on PATH, status by the shell's rules.
    `present`/`st`: the environment (which programs exist, how they exit). -/
def executeSh (present st : String → Bool) (line : Sh) : Res :=
  if present line.named then (if line.status st then .ok else .err .external) else .err .external

/-- quoting state of the scanner below -/
inductive Quote
  | none | single | double
deriving Repr, BEq, DecidableEq

/-- no control operator (`|`, `&`, `;`, newline) outside quotes: the text is one simple command -/
def plainChars : Quote → List Char → Bool
  | _, [] => true
  | .none, '\\' :: _ :: cs => plainChars .none cs
  | .none, c :: cs =>
    if c == '\'' then plainChars .single cs
    else if c == '"' then plainChars .double cs
    else if c == '|' || c == '&' || c == ';' || c == '\n' then false
    else plainChars .none cs
  | .single, c :: cs => if c == '\'' then plainChars .none cs else plainChars .single cs
  | .double, '\\' :: _ :: cs => plainChars .double cs
  | .double, c :: cs => if c == '"' then plainChars .none cs else plainChars .double cs

def dropTrailingBlanks (cs : List Char) : List Char := (cs.reverse.dropWhile (fun c => c == ' ' || c == '\n' || c == '\t')).reverse

/-- a command line that the shell runs as one simple command (a trailing newline ends the command and is harmless) -/
def plainCommand (s : String) : Bool := plainChars .none (dropTrailingBlanks s.toList)

/-- Clauses on what the harness observes of the environment's side of one operation (evaluated on every observation, with or
    without an injected fault):
    * `named-command-status-lost`: a named tool recorded a non-zero exit of its own, no caller handles it, and the operation does
      not end with code 130 — whatever the shell, a pipeline, a wrapper or a formatter made of that status;
    * `shell-operator-in-command`: a command line handed to the shell is not one simple command;
    * `wrote-outside-configured-directories`: something new exists that lies neither below an allowed directory nor on the way to one. -/
def specObs (o : Obs) : List String :=
  (if (o.exits.zip o.handledAt).any (fun eh => eh.1 != 0 && !eh.2) && o.code != some 130 then ["named-command-status-lost"] else [])
  ++ (if o.cmdlines.all plainCommand then [] else ["shell-operator-in-command"])
  ++ (if o.newPaths.all (fun p => o.allowed.any (fun r => under r p || under p r)) then [] else ["wrote-outside-configured-directories"])

/-- one of several failing invocation points, as the harness describes it from the stub log -/
structure FaultPt where
  k : Nat
  handled : Bool       -- it is the probe whose failure the caller catches (a fallback follows)
  maxLogged : Nat      -- number of invocations the stubs may have seen when this one ends the operation
  phase : String       -- phase the invocation belongs to (`build`, `package`, `publish`)
deriving Repr, Inhabited

/-- of several failing invocation points (ascending) the one that has to be reported: the first that is not handled by its
    caller (after a handled probe the fallback runs, so later faults count); if all are handled, the first -/
def effectiveFault : List FaultPt → Option FaultPt
  | [] => none
  | f :: rest =>
    if f.handled then (match effectiveFault rest with | some g => if g.handled then some f else some g | none => some f)
    else some f

/-- the property on one observation under a set of faults -/
def specSet (key phase : String) (faults : List FaultPt) (o : Obs) : List String :=
  match effectiveFault faults with
  | none => spec key phase none 0 o
  | some f => spec key f.phase (some (f.k, f.handled)) f.maxLogged o

/-! ### several operations in one process

The working directory is process state: an API user (unlike the command line) may run one operation in project `A`, `os.chdir` to
project `B` and run the next one there — with the same or another `API` object. -/

/-- one operation of a session: the caller changes into `dir`, the stub log is re-armed, `steps` run under `orc` -/
structure SessOp where
  dir : Path
  orc : Oracle
  steps : List Step

/-- what is observed of one operation of a session -/
structure SessObs where
  res : Res
  cwdBefore : Path
  cwdAfter : Path
  calls : List Call
deriving Repr

/-- operations one after the other in one process: file system, flags and working directory are carried over from one to the next -/
def runSession (w : World) : List SessOp → List SessObs
  | [] => []
  | op :: rest =>
    let out := run op.orc op.steps { w with cwd := op.dir, calls := [] }
    { res := out.1, cwdBefore := op.dir, cwdAfter := out.2.cwd, calls := out.2.calls } :: runSession out.2 rest

/-- `execute` returning to a directory remembered earlier in the process (`base`: filled by the first call, e.g. a module-level
    cache of "the directory pydjinni was started from") instead of the directory of *this* call. Only used by the counterexample
    `executeCached_stale_moves_cwd`: it is the shape of regression the session stream of the check is there for. -/
def executeCached (base : Path) (orc : Oracle) (tool : String) (sig : List String) (wd : Option P) (eff : List Eff) (handled : Bool)
    (w : World) : Res × World :=
  match chdirTo w wd with
  | none => (.err (.oserror "chdir"), w)
  | some w1 =>
    let r := orc w1.calls.length tool
    let call : Call := { tool := tool, sig := sig, ranIn := w1.cwd, result := r, handled := handled && decide (r ≠ .ok) }
    match r with
    | .ok => (.ok, { w1 with cwd := base, calls := w1.calls ++ [call], files := addFiles w1.files (eff.map (Eff.resolve w.cwd w1.cwd)) })
    | _ => (.err .external, { w1 with cwd := base, calls := w1.calls ++ [call] })

end Pydjinni.Sys.Pkg
