import PydjinniModel.Sys.Files
/-!
One `API` object as a state machine (C10): what survives between calls is
* every generator instance's `config` (set by `Target.configure` inside *every* `ConfiguredContext.parse`,
  shared by all contexts of the API object), and
* the `FileReaderWriter` record.
Marshalling objects are attached to the fresh AST nodes of each parse and keep the configuration of
*their* context; `generate` combines them with the generator's *current* configuration.

Hash-seed nondeterminism: a Python `set` is iterated in an arbitrary order; templates that loop over
a set-typed attribute are modelled by `emitLoop`, the `sort` filter by a stable case-insensitive sort.
Import-free.
-/
namespace Pydjinni.SysC
open Pydjinni.GenC

/-! ### the `sort` filter -/

/-- code-point order on character lists (Python `str` comparison) -/
def leL : List Char → List Char → Bool
  | [], _ => true
  | _ :: _, [] => false
  | a :: as, b :: bs => if a.toNat < b.toNat then true else if b.toNat < a.toNat then false else leL as bs

def insertBy {α : Type} (le : α → α → Bool) (a : α) : List α → List α
  | [] => [a]
  | b :: bs => if le a b then a :: b :: bs else b :: insertBy le a bs

/-- a stable sort (any stable sort computes the same list as Python's `sorted`) -/
def isort {α : Type} (le : α → α → Bool) : List α → List α
  | [] => []
  | a :: as => insertBy le a (isort le as)

def leExact (a b : String) : Bool := leL a.toList b.toList
def leIgnoreCase (a b : String) : Bool := leL (a.toList.map loC) (b.toList.map loC)

/-- jinja `| sort`: `sorted(value, key=str.lower)` — stable, ties keep the iteration order of the set -/
def jinjaSort (l : List String) : List String := isort leIgnoreCase l

/-- `| sort(case_sensitive=true) | sort` (after the fix): ties of the second sort are already in code-point order -/
def jinjaSortTotal (l : List String) : List String := isort leIgnoreCase (isort leExact l)

/-- what a template does to a set before looping over it -/
inductive SortKind
  | unsorted     -- nothing: iteration order of the set
  | legacy       -- `| sort`: case-insensitive, stable — ties in set order
  | exact        -- `| sort(case_sensitive=true)`
  | total        -- `| sort(case_sensitive=true) | sort`
deriving DecidableEq, Repr

/-- filters as extracted from the template, outermost first -/
def sortKind (filters : List String) : SortKind :=
  if filters == ["sort", "sort:case_sensitive"] then .total
  else if filters == ["sort:case_sensitive"] then .exact
  else if filters == ["sort"] then .legacy
  else .unsorted

def applySort : SortKind → List String → List String
  | .unsorted, l => l
  | .legacy, l => jinjaSort l
  | .exact, l => isort leExact l
  | .total, l => jinjaSortTotal l

/-- a template `for` loop over a set-typed attribute: `items` is the set in its iteration order -/
def emitLoop (k : SortKind) (render : List String → String) (items : List String) : String :=
  render (applySort k items)

/-- one `for` loop found in a template (translator output, regenerated every run) -/
structure LoopFact where
  generator : String
  template : String
  iter : String            -- dotted attribute chain of the iterable
  overSet : Bool           -- the last attribute is set-typed in some marshalling/AST class
  filters : List String    -- filters applied to the iterable, outermost first
deriving Repr, DecidableEq

def SortKind.orderFree : SortKind → Bool
  | .exact => true
  | .total => true
  | _ => false

/-- the generated obligation: every loop over a set goes through a sort by a total antisymmetric order -/
def loopOk (f : LoopFact) : Bool := !f.overSet || (sortKind f.filters).orderFree
def allSetLoopsSorted (fs : List LoopFact) : Bool := fs.all loopOk

/-! ### the API object -/

/-- the `generate` section of one configured context -/
structure Cfg where
  gens : G → Option GCfg
  supportLib : Bool := true
  report : Option Path := none

def T.all : List T := [.cpp, .cppcli, .java, .objc, .yaml]

def mainGen : T → G
  | .cpp => .cpp | .cppcli => .cppcli | .java => .java | .objc => .objc | .yaml => .yaml

/-- `configured_targets`: the targets whose key is set in the `generate` section -/
def Cfg.targets (c : Cfg) : List T := T.all.filter (fun t => (c.gens (mainGen t)).isSome)

/-- the generators `parse` (re)configures -/
def Cfg.generators (c : Cfg) : List G := c.targets.flatMap T.generators

/-- every generator of a configured target has a configuration (otherwise `Target.configure` crashes, C17) -/
def Cfg.wellConfigured (c : Cfg) : Bool := c.generators.all (fun g => (c.gens g).isSome)

/-! ### which targets a context configures, and which refusal an incomplete configuration gets

`ConfiguredContext.__init__` computes `configured_targets` from `generate.model_fields_set` — a Python **set** of the
keys present in the `generate` section, iterated in an arbitrary (hash-seed dependent) order. `parse` configures the
configured targets one after the other; `Target.configure` refuses with "Missing configuration for 'generate.<g>'
(required by target '<t>')" for the first of its generators without a section. -/

/-- `[target for key, target in self._generate_targets.items() if key in generate_targets]`: the registry (an ordered
    dict) filtered by membership; `fieldsSet` is the set in its iteration order -/
def configuredTargets (registry : List T) (fieldsSet : List String) : List T :=
  registry.filter (fun t => fieldsSet.contains t.key)

/-- the other way round — walk the set, look every key up: same targets, in the set's iteration order -/
def configuredTargetsBySet (registry : List T) (fieldsSet : List String) : List T :=
  fieldsSet.filterMap (fun k => registry.find? (fun t => t.key == k))

/-- `Target.configure`: the first generator of the target that has no section -/
def missingGen (has : G → Bool) (t : T) : Option G := t.generators.find? (fun g => !has g)

/-- what `parse` answers for a list of configured targets: the first target (in list order) with a generator that has
    no section, and that generator; `none`: every target is completely configured -/
def refusal (has : G → Bool) : List T → Option (T × G)
  | [] => none
  | t :: ts => match missingGen has t with
    | some g => some (t, g)
    | none => refusal has ts

/-! ### the target list of a declaration (`Parser.visitTargets`)

`record +a +b`, `interface -x`, `function +a +b (…)`: the flags are evaluated to a *list*. For an inline function type
the list is written into the synthetic name of the type (`function_<targets…>_<signature>`), hence into file names and
include lines: its order is output. The implementation computes it with lists only (first occurrence of every `+t`, or
the registry order for `+any` / pure exclusions); nothing is iterated in a hash-dependent order. -/

inductive TFlag
  | any                   -- `+any`
  | plus (t : String)     -- `+t`
  | minus (t : String)    -- `-t`
deriving DecidableEq, Repr

/-- the `for target in targets` loop on the include list: every `+t` once, at its first occurrence -/
def addIncl : List String → List TFlag → List String
  | acc, [] => acc
  | acc, .plus t :: fs => if acc.contains t then addIncl acc fs else addIncl (acc ++ [t]) fs
  | acc, _ :: fs => addIncl acc fs

def exclOf : List TFlag → List String
  | [] => []
  | .minus t :: fs => t :: exclOf fs
  | _ :: fs => exclOf fs

def hasAny : List TFlag → Bool
  | [] => false
  | .any :: _ => true
  | _ :: fs => hasAny fs

/-- `includes` after the loop and after `if (not includes) and excludes: includes = list(self.target_keys)` -/
def inclOf (keys : List String) (flags : List TFlag) : List String :=
  let i := addIncl (if hasAny flags then keys else []) flags
  if i.isEmpty && !(exclOf flags).isEmpty then keys else i

/-- `[include for include in includes if include not in excludes]` -/
def evalFlags (keys : List String) (flags : List TFlag) : List String :=
  (inclOf keys flags).filter (fun i => !(exclOf flags).contains i)

/-- `self.visit(ctx.targets()) or self.target_keys` (interfaces, function types) -/
def targetsOrKeys (keys : List String) (flags : List TFlag) : List String :=
  let t := evalFlags keys flags
  if t.isEmpty then keys else t

/-- the same elements taken out of a set: `iter` is the set's iteration order (any enumeration of the target names) -/
def evalFlagsBySet (iter keys : List String) (flags : List TFlag) : List String :=
  iter.filter (fun t => (evalFlags keys flags).contains t)

/-- the leading parts of the synthetic name of an inline function type (joined with `_`, then the signature) -/
def anonHead (targets : List String) : List String := "function" :: targets

/-- a program *as the front end resolves it under one configuration* (root file, search path): files read, declarations
    handed to the generators. `accepted = false`: the front end refuses it (unresolvable `@import`, unknown type, …) —
    `parse` raises after the targets were configured and the files were read, and returns no generate context.
    Which files an `@import` resolves to is the front end's business (C16); here it is part of the program. -/
structure Prog where
  id : String                -- digest of all input files
  reads : List Path          -- `read_idl` calls in order (root first)
  exts : List Path           -- `@extern` files
  defs : List Decl
  accepted : Bool := true
deriving Repr, Inhabited

/-- everything a rendered file's bytes are computed from -/
structure ContentId where
  g : String
  tag : String               -- which template / support file / declaration
  prog : String
  cm : String                -- content digest of the marshalling configuration
  cc : String                -- content digest of the generator's configuration at generate time
deriving DecidableEq, Repr, Inhabited

/-- the result of a parse: `GenerateContext` -/
structure GenCtx where
  prog : Prog
  mcfg : G → Option GCfg     -- marshalling objects exist for the generators configured at parse time
  targets : List T           -- the targets configured in the context that parsed (`_config.model_fields_set`)
  supportLib : Bool
  report : Option Path

structure ApiState where
  genCfg : G → Option GCfg := fun _ => none
  frw : FRW ContentId
  results : List GenCtx := []

structure World where
  cfgs : List Cfg
  progs : List Prog
  support : G → List (FKind × Path)

inductive Call
  | parse (ctx : Nat) (prog : Nat)
  | generate (gc : Nat) (t : T)
  | report (gc : Nat)
deriving DecidableEq, Repr

inductive Outcome
  | parsed
  | rejected                                          -- `parse` raised the front end's diagnostics: no generate context
  | wrote (files : List (Path × ContentId))
  | missingConfig (files : List (Path × ContentId))   -- ConfigurationException (after the earlier generators of the target ran)
  | crash (files : List (Path × ContentId))           -- AttributeError: declaration without marshalling object
  | noReport
  | badCall
deriving DecidableEq, Repr

/-- content digest of the configurations of a list of generators: the templates of one generator read its own
    configuration and, through `metadata` (built by `Target.configure`), that of the other generators of its target;
    marshalling objects read the marshalling objects of other generators (`decl.cpp.header` in JNI, …) -/
def digestOn (gs : List G) (cfgs : G → Option GCfg) : String :=
  ",".intercalate (gs.map (fun g => match cfgs g with | some c => c.content | none => "-"))

def cidOf (g : G) (prog : Prog) (cmAll ccAll : String) (i : Nat) (f : FKind × Path) : ContentId :=
  { g := g.key, tag := toString i ++ ":" ++ f.2.toString, prog := prog.id, cm := cmAll, cc := ccAll }

/-- the files one generator writes for a generate context, with what their bytes depend on -/
def genOutput (w : World) (g : G) (gc : GenCtx) (cm cc : GCfg) (ccAll : String) : List (FKind × Path × ContentId) :=
  let sup := if gc.supportLib then w.support g else []
  let rel := genRel g cm cc sup gc.prog.defs
  (List.range rel.length).zipWith (fun i f => ((place cc f).1, (place cc f).2, cidOf g gc.prog (digestOn G.all gc.mcfg) ccAll i f)) rel

def writeOps (g : G) (fs : List (FKind × Path × ContentId)) : List (FOp ContentId) :=
  fs.map (fun f => FOp.write g.key f.1 f.2.1 f.2.2)

/-- `Generator.configure`: the reader/writer learns the directories -/
def configureOps (cfgs : G → Option GCfg) (gs : List G) : List (FOp ContentId) :=
  gs.flatMap (fun g => match cfgs g with
    | some gc => (if g.writesHeader then [FOp.setInclude g.key gc.out.header] else []) ++ [FOp.setSource g.key gc.out.source]
    | none => [])

def parseOps (c : Cfg) (p : Prog) : List (FOp ContentId) :=
  configureOps c.gens c.generators ++ p.reads.map FOp.readIdl ++ p.exts.map FOp.readExt

/-- generators of one target (`tgs`), one after the other; stops at the first that cannot run -/
def generateGens (w : World) (gc : GenCtx) (tgs : List G) : List G → ApiState → List (Path × ContentId) → ApiState × Outcome
  | [], s, acc => (s, .wrote acc)
  | g :: gs, s, acc =>
    match s.genCfg g with
    | none => (s, .missingConfig acc)
    | some cc =>
      match gc.mcfg g with
      | none => (s, .crash acc)
      | some cm =>
        let fs := genOutput w g gc cm cc (digestOn tgs s.genCfg)
        generateGens w gc tgs gs { s with frw := s.frw.run (writeOps g fs) } (acc ++ fs.map (fun f => (f.2.1, f.2.2)))

def reportCid (r : Report) : ContentId :=
  { g := "report", tag := reprStr r, prog := "", cm := "", cc := "" }

/-- the generator configurations a parse with configuration `c` installs -/
def installed (c : Cfg) : G → Option GCfg := fun g => if c.generators.contains g then c.gens g else none

/-- the generate context a parse of `p` under `c` returns -/
def ctxOf (c : Cfg) (p : Prog) : GenCtx :=
  { prog := p, mcfg := installed c, targets := c.targets, supportLib := c.supportLib, report := c.report }

/-- `GenerateContext.generate` **as in the pinned tree**: whatever configuration the generators currently hold is used -/
def generateLegacy (w : World) (s : ApiState) (gc : GenCtx) (t : T) : ApiState × Outcome :=
  generateGens w gc t.generators t.generators s []

/-- `GenerateContext.generate` (after the fix): a target that the context did not configure is refused; otherwise the
    context's own configuration is applied to the (shared) generator instances first -/
def generate (w : World) (s : ApiState) (gc : GenCtx) (t : T) : ApiState × Outcome :=
  if gc.targets.contains t then
    generateGens w gc t.generators t.generators
      { s with genCfg := fun g => if t.generators.contains g then gc.mcfg g else s.genCfg g,
               frw := s.frw.run (configureOps gc.mcfg t.generators) } []
  else (s, .missingConfig [])

def step (w : World) (s : ApiState) : Call → ApiState × Outcome
  | .parse i j =>
    match w.cfgs[i]?, w.progs[j]? with
    | some c, some p =>
      if c.wellConfigured then
        if p.accepted then
          ({ genCfg := fun g => if c.generators.contains g then c.gens g else s.genCfg g,
             frw := s.frw.run (parseOps c p),
             results := s.results ++ [ctxOf c p] }, .parsed)
        else
          -- the targets are configured and the files read before the diagnostics are raised; nothing is returned
          ({ s with genCfg := fun g => if c.generators.contains g then c.gens g else s.genCfg g,
                    frw := s.frw.run (parseOps c p) }, .rejected)
      else (s, .badCall)
    | _, _ => (s, .badCall)
  | .generate k t =>
    match s.results[k]? with
    | some gc => generate w s gc t
    | none => (s, .badCall)
  | .report k =>
    match s.results[k]? with
    | some gc =>
      match gc.report with
      | some p =>
        let cid := reportCid s.frw.report
        ({ s with frw := s.frw.step (.writeReport p cid) }, .wrote [(p, cid)])
      | none => (s, .noReport)
    | none => (s, .badCall)

def runCalls (w : World) : ApiState → List Call → ApiState × List Outcome
  | s, [] => (s, [])
  | s, c :: cs =>
    let (s1, o) := step w s c
    let (s2, os) := runCalls w s1 cs
    (s2, o :: os)

def initState : ApiState := { frw := { keys := G.all.map G.key } }

/-- what a fresh process produces for (configuration, program, target): parse, then generate -/
def fresh (w : World) (c : Cfg) (p : Prog) (t : T) : Outcome :=
  if c.targets.contains t then
    (generateGens w (ctxOf c p) t.generators t.generators { initState with genCfg := installed c } []).2
  else .missingConfig []

/-! ### files on disk as a finite map -/

abbrev FMap (κ : Type) := Path → Option κ

def applyWrites {κ : Type} (m : FMap κ) (ws : List (Path × κ)) : FMap κ :=
  ws.foldl (fun m w => fun p => if p = w.1 then some w.2 else m p) m

/-- a writer that leaves a file alone when what is on disk "looks like" the new content under a fingerprint `fp`
    (its size, its modification time, …) — **not** what `FileReaderWriter._write` does; kept for the counterexample
    `fingerprint_skip_keeps_stale_content` (Props/C10) -/
def applyWritesSkipping {κ φ : Type} [DecidableEq φ] (fp : κ → φ) (m : FMap κ) (ws : List (Path × κ)) : FMap κ :=
  ws.foldl (fun m w => fun p => if p = w.1 then (match m p with
    | some old => if fp old = fp w.2 then some old else some w.2
    | none => some w.2) else m p) m

end Pydjinni.SysC
