import PydjinniModel.Sys.Config
/-!
# C17 — configuration sources are equivalent, merge key-wise, fail cleanly

Merge (`api.combine_into`, any depth, any width):
* `combine_lookup`                       what is found under one key after the merge
* `merge_override`                       a path the override binds to a scalar is bound to that scalar afterwards
* `merge_keeps`                          a path the override says nothing about holds exactly what the base held (siblings are kept)
* `merge_wf`, `combine_nil_right`        the merge of dicts is a dict (unique keys); an options dict alone is the configuration

`-o key=value` (any number of options):
* `assign_wins`, `assign_keeps`          one assignment: the named path holds the value, every incomparable path is unchanged
* `foldOptions_append`, `options_last_wins`, `options_last_keeps`   options are processed left to right, the last one wins
* `foldOptions_refused_iff`              the option list is refused iff some option has no `=`

Equivalence of the spellings:
* `fold_leaves_eq`                       a dict (unique keys, no empty sub-dict) is rebuilt exactly from its leaf assignments
* `parseOption_render`, `envPath_render` `a.b=v` / `[x,y]` / `pydjinni__a__b` are read back as the assignment they spell
* `sources_equivalent`, `configure_sources_equivalent`   dict = file = `-o` options = environment variables
* `explicit_over_env`, `env_fills_in`    precedence: file+options over environment over `.env`

Failing cleanly:
* `configure_fails_cleanly_partial`      decision table of `API.configure`: result, 141 or 2 — no other exception (domain `cfgDom`)
* `configure_nonStringKey_counterexample`  the hole outside `cfgDom` is real
* `configure_missing_first`, `configure_ok_is_merge`
* `encodable_combine`, `unencodable_override_stays`, `assign_assign`, `badKeys_nil_iff`
* `configure_checks_the_merge`, `configure_unencodable_options_refused`, `overridden_file_text_not_refused`
                                         a text that is not valid Unicode (lone surrogate) is refused with 141 whichever source delivered it —
                                         file, options dictionary, `-o` —, the check being made on the merge: a text of the file that an
                                         option replaces does not count
* `parse_unready_refused`, `parse_without_generate_refused`, `generate_unready_refused`, `generate_unconfigured_refused`
                                         incompletely configured targets are refused with 141, unknown ones with 120
* `generate_fails_cleanly_partial`, `generate_glue_without_cpp_counterexample`   domain `readyDom` and its hole

Histories (one `API` object whose generator instances are shared by all contexts made from it; `runReqs`):
* `history_free`, `runReqs_length`       for any number of contexts and any request sequence (contexts made anew, `parse` and `generate` in
                                         any interleaving, any request repeated) every answer is the single-shot `parseReady` /
                                         `generateOutcome` of the requesting context's own sections — an insufficient configuration is
                                         refused every time —, and a `generate` that runs uses the requesting context's sections only
* `parse_refusal_names_missing`          the key a refusal of `parse` names is the section of a generator of a configured target that is missing
-/
namespace Pydjinni.Sys

/-! ### `lookup` / `set` -/

theorem lookup_set_same (k t) (l : Kids) : lookup k (set k t l) = some t := by
  induction l with
  | nil => simp [set, lookup]
  | cons p l ih =>
    obtain ⟨k', t'⟩ := p
    by_cases h : k' = k <;> simp [set, lookup, h, ih]

theorem lookup_set_other (k k' t) (l : Kids) (h : k' ≠ k) : lookup k' (set k t l) = lookup k' l := by
  induction l with
  | nil => simp [set, lookup, Ne.symm h]
  | cons p l ih =>
    obtain ⟨k'', t''⟩ := p
    by_cases h2 : k'' = k
    · subst h2; simp [set, lookup, Ne.symm h]
    · by_cases h3 : k'' = k'
      · subst h3; simp [set, lookup, h2]
      · simp [set, lookup, h2, h3, ih]

theorem lookup_none_of_not_mem (k) (l : Kids) (h : (keys l).contains k = false) : lookup k l = none := by
  induction l with
  | nil => rfl
  | cons p l ih =>
    obtain ⟨k', t'⟩ := p
    have h1 : ¬ k' = k := by
      intro e; subst e; simp [keys] at h
    have h2 : (keys l).contains k = false := by
      simp [keys] at h ⊢; exact h.2
    simp only [lookup, if_neg h1]
    exact ih h2

/-- one level of the merge: what is found under key `k` afterwards -/
theorem combine_lookup (o b : Kids) (k : String) (hnd : nodupKeys o = true) :
    lookup k (combine o b) =
      match lookup k o with
      | none => lookup k b
      | some (.leaf v) => some (.leaf v)
      | some (.node sub) => some (.node (combine sub (childKids (lookup k b)))) := by
  induction o generalizing b with
  | nil => simp [combine, lookup]
  | cons p o ih =>
    obtain ⟨k', t⟩ := p
    simp only [nodupKeys, Bool.and_eq_true, Bool.not_eq_true'] at hnd
    obtain ⟨hk', hnd'⟩ := hnd
    by_cases hk : k' = k
    · subst hk
      have hnone : lookup k' o = none := lookup_none_of_not_mem _ _ hk'
      cases t with
      | leaf v =>
        simp only [combine, lookup, if_true]
        rw [ih _ hnd', hnone]; simp [lookup_set_same]
      | node sub =>
        simp only [combine, lookup, if_true]
        rw [ih _ hnd', hnone]; simp [lookup_set_same]
    · cases t with
      | leaf v =>
        simp only [combine, lookup, if_neg hk]
        rw [ih _ hnd', lookup_set_other _ _ _ _ (Ne.symm hk)]
      | node sub =>
        simp only [combine, lookup, if_neg hk]
        rw [ih _ hnd', lookup_set_other _ _ _ _ (Ne.symm hk)]


theorem wf_node (ks : Kids) : wf (.node ks) = (wfKids ks && nodupKeys ks) := by simp [wf]

theorem wf_lookup (ks : Kids) (k : String) (t : Tree) (h : wfKids ks = true) (hl : lookup k ks = some t) : wf t = true := by
  induction ks with
  | nil => simp [lookup] at hl
  | cons p ks ih =>
    obtain ⟨k', t'⟩ := p
    simp only [wfKids, Bool.and_eq_true] at h
    simp only [lookup] at hl
    split at hl
    · cases hl; exact h.1
    · exact ih h.2 hl

theorem getPath_nil_node (p : List String) (hp : p ≠ []) : getPath p (.node []) = none := by
  cases p with
  | nil => exact absurd rfl hp
  | cons k ks => simp [getPath, lookup]

theorem getPath_leaf (p : List String) (v : Val) (hp : p ≠ []) : getPath p (.leaf v) = none := by
  cases p with
  | nil => exact absurd rfl hp
  | cons k ks => simp [getPath]

/-- **override**: a path that the override binds to a scalar is bound to that scalar afterwards, at any depth,
whatever the base held there -/
theorem merge_override (p : List String) (o b : Kids) (v : Val) (hwf : wf (.node o) = true)
    (h : getPath p (.node o) = some (.leaf v)) : getPath p (.node (combine o b)) = some (.leaf v) := by
  induction p generalizing o b with
  | nil => simp [getPath] at h
  | cons k ks ih =>
    rw [wf_node, Bool.and_eq_true] at hwf
    simp only [getPath] at h ⊢
    rw [combine_lookup o b k hwf.2]
    cases hl : lookup k o with
    | none => simp [hl] at h
    | some t =>
      simp only [hl] at h
      cases t with
      | leaf w => simpa using h
      | node sub =>
        simp only
        exact ih sub _ (wf_lookup o k _ hwf.1 hl) h

/-- **siblings are kept**: a path the override says nothing about holds afterwards exactly what the base held, at any depth -/
theorem merge_keeps (p : List String) (o b : Kids) (hwf : wf (.node o) = true)
    (h : untouched p o = true) : getPath p (.node (combine o b)) = getPath p (.node b) := by
  induction p generalizing o b with
  | nil => simp [untouched] at h
  | cons k ks ih =>
    rw [wf_node, Bool.and_eq_true] at hwf
    simp only [getPath]
    rw [combine_lookup o b k hwf.2]
    simp only [untouched] at h
    cases hl : lookup k o with
    | none => simp
    | some t =>
      simp only [hl] at h
      cases t with
      | leaf w => simp at h
      | node sub =>
        simp only
        rw [ih sub _ (wf_lookup o k _ hwf.1 hl) h]
        have hks : ks ≠ [] := by
          intro e; subst e; simp [untouched] at h
        cases hb : lookup k b with
        | none => simp [childKids, getPath_nil_node ks hks]
        | some tb =>
          cases tb with
          | leaf w => simp [childKids, getPath_nil_node ks hks, getPath_leaf ks w hks]
          | node bb => simp [childKids]


/-! ### the merge keeps dictionaries well formed (unique keys at every level) -/

@[simp] theorem keys_nil : keys [] = [] := rfl
@[simp] theorem keys_cons (k t) (l : Kids) : keys ((k, t) :: l) = k :: keys l := rfl

theorem keys_set (k t) (l : Kids) : keys (set k t l) = if k ∈ keys l then keys l else keys l ++ [k] := by
  induction l with
  | nil => simp [set]
  | cons p l ih =>
    obtain ⟨k', t'⟩ := p
    by_cases h : k' = k
    · subst h; simp [set]
    · have h' : ¬ k = k' := fun e => h e.symm
      simp only [set, if_neg h, keys_cons, ih, List.mem_cons, h', false_or]
      by_cases hc : k ∈ keys l
      · rw [if_pos hc, if_pos hc]
      · rw [if_neg hc, if_neg hc]; rfl

theorem nodupKeys_iff (l : Kids) : nodupKeys l = true ↔ (keys l).Nodup := by
  induction l with
  | nil => simp [nodupKeys]
  | cons p l ih =>
    obtain ⟨k, t⟩ := p
    simp [nodupKeys, ih]

theorem nodupKeys_set (k t) (l : Kids) (h : nodupKeys l = true) : nodupKeys (set k t l) = true := by
  rw [nodupKeys_iff] at h ⊢
  rw [keys_set]
  split
  · exact h
  · rename_i hc
    rw [List.nodup_append]
    refine ⟨h, by simp, ?_⟩
    intro a ha b hb
    simp at hb; subst hb
    intro e; subst e
    exact hc ha

theorem wfKids_set (k t) (l : Kids) (ht : wf t = true) (h : wfKids l = true) : wfKids (set k t l) = true := by
  induction l with
  | nil => simp [set, wfKids, ht]
  | cons p l ih =>
    obtain ⟨k', t'⟩ := p
    simp only [wfKids, Bool.and_eq_true] at h
    by_cases hk : k' = k
    · simp [set, hk, wfKids, ht, h.2]
    · simp [set, hk, wfKids, h.1, ih h.2]

theorem wf_childKids (b : Kids) (k : String) (h : wfKids b = true) : wf (.node (childKids (lookup k b))) = true := by
  cases hl : lookup k b with
  | none => simp [childKids, wf, wfKids, nodupKeys]
  | some t =>
    cases t with
    | leaf v => simp [childKids, wf, wfKids, nodupKeys]
    | node bb => simpa [childKids] using wf_lookup b k _ h hl

mutual
theorem combine_wf_tree (t : Tree) : ∀ b : Kids, wf (.node b) = true → wf t = true →
    match t with
    | .leaf _ => True
    | .node sub => wf (.node (combine sub b)) = true := by
  intro b hb ht
  cases t with
  | leaf v => trivial
  | node sub =>
    simp only
    rw [wf_node, Bool.and_eq_true] at ht
    exact combine_wf_kids sub b hb ht.1
theorem combine_wf_kids (o : Kids) : ∀ b : Kids, wf (.node b) = true → wfKids o = true → wf (.node (combine o b)) = true := by
  intro b hb ho
  cases o with
  | nil => simpa [combine] using hb
  | cons p o =>
    obtain ⟨k, t⟩ := p
    simp only [wfKids, Bool.and_eq_true] at ho
    rw [wf_node, Bool.and_eq_true] at hb
    cases t with
    | leaf v =>
      simp only [combine]
      apply combine_wf_kids o _ _ ho.2
      rw [wf_node, Bool.and_eq_true]
      exact ⟨wfKids_set _ _ _ (by simp [wf]) hb.1, nodupKeys_set _ _ _ hb.2⟩
    | node sub =>
      simp only [combine]
      apply combine_wf_kids o _ _ ho.2
      rw [wf_node, Bool.and_eq_true]
      have hsub := combine_wf_tree (.node sub) (childKids (lookup k b)) (wf_childKids b k hb.1) ho.1
      exact ⟨wfKids_set _ _ _ hsub hb.1, nodupKeys_set _ _ _ hb.2⟩
end

/-- merging two well-formed dictionaries gives a well-formed dictionary -/
theorem merge_wf (o b : Kids) (ho : wf (.node o) = true) (hb : wf (.node b) = true) : wf (.node (combine o b)) = true := by
  rw [wf_node, Bool.and_eq_true] at ho
  exact combine_wf_kids o b hb ho.1


/-! ### single assignments `path := v` (what one `-o` option or one environment variable is) -/

/-- one path is a prefix of the other -/
def comparable (p q : List String) : Bool := p.isPrefixOf q || q.isPrefixOf p

theorem getPath_nest (p : List String) (v : Val) (hp : p ≠ []) : getPath p (.node (nestKids p v)) = some (.leaf v) := by
  induction p with
  | nil => exact absurd rfl hp
  | cons k ks ih =>
    cases ks with
    | nil => simp [nestKids, getPath, lookup]
    | cons k' ks' =>
      simp only [nestKids, getPath, lookup, if_true]
      exact ih (by simp)

theorem wf_nest (p : List String) (v : Val) : wf (.node (nestKids p v)) = true := by
  induction p with
  | nil => simp [nestKids, wf, wfKids, nodupKeys]
  | cons k ks ih =>
    cases ks with
    | nil => simp [nestKids, wf, wfKids, nodupKeys, keys]
    | cons k' ks' => simp [nestKids, wf_node, wfKids, nodupKeys, keys, ih]

theorem untouched_nest (p q : List String) (v : Val) (hq : q ≠ []) (h : comparable p q = false) :
    untouched q (nestKids p v) = true := by
  induction p generalizing q with
  | nil => simp [comparable] at h
  | cons k ks ih =>
    cases q with
    | nil => exact absurd rfl hq
    | cons k₂ qs =>
      by_cases hk : k = k₂
      · subst hk
        cases ks with
        | nil => simp [comparable] at h
        | cons k' ks' =>
          simp only [nestKids, untouched, lookup, if_true]
          have hqs : qs ≠ [] := by
            intro e; subst e; simp [comparable] at h
          apply ih qs hqs
          simpa [comparable] using h
      · cases ks with
        | nil => simp [nestKids, untouched, lookup, hk]
        | cons k' ks' => simp [nestKids, untouched, lookup, hk]

/-- the assigned path holds the assigned value afterwards -/
theorem assign_wins (acc : Kids) (p : List String) (v : Val) (hp : p ≠ []) :
    leafAt p (.node (insertLeaf acc (p, v))) = some v := by
  unfold leafAt insertLeaf
  rw [merge_override p _ acc v (wf_nest p v) (getPath_nest p v hp)]

/-- every path that is neither above nor below the assigned one keeps what it held -/
theorem assign_keeps (acc : Kids) (p q : List String) (v : Val) (hq : q ≠ []) (h : comparable p q = false) :
    getPath q (.node (insertLeaf acc (p, v))) = getPath q (.node acc) := by
  unfold insertLeaf
  exact merge_keeps q _ acc (wf_nest p v) (untouched_nest p q v hq h)

theorem insertLeaf_wf (acc : Kids) (pv : List String × Val) (h : wf (.node acc) = true) : wf (.node (insertLeaf acc pv)) = true :=
  merge_wf _ _ (wf_nest _ _) h

/-! ### several `-o` options -/

theorem splitAll_ne_nil (c : Char) (s : List Char) : splitAll c s ≠ [] := by
  induction s with
  | nil => simp [splitAll]
  | cons x xs ih =>
    simp only [splitAll]
    split
    · simp
    · split <;> simp

theorem parseOption_path_ne_nil (s : String) (p : List String) (v : Val) (h : parseOption s = .ok (p, v)) : p ≠ [] := by
  unfold parseOption parseOptionChars at h
  split at h
  · cases h
  · cases h
    simpa using splitAll_ne_nil _ _

/-- options are folded left to right: a prefix of the option list is processed first, the rest continues from its result -/
theorem foldOptions_append (xs ys : List String) (acc : Kids) :
    foldOptions (xs ++ ys) acc = (match foldOptions xs acc with
      | .ok m => foldOptions ys m
      | .error e => .error e) := by
  induction xs generalizing acc with
  | nil => simp [foldOptions]
  | cons x xs ih =>
    simp only [List.cons_append, foldOptions]
    split
    · rfl
    · exact ih _

/-- the last `-o` wins: whatever earlier options (or the file) said about that key or below it -/
theorem options_last_wins (xs : List String) (s : String) (acc m : Kids) (p : List String) (v : Val)
    (hs : parseOption s = .ok (p, v)) (h : foldOptions (xs ++ [s]) acc = .ok m) : leafAt p (.node m) = some v := by
  rw [foldOptions_append] at h
  split at h
  · rename_i m' _
    simp only [foldOptions, hs] at h
    cases h
    exact assign_wins m' p v (parseOption_path_ne_nil s p v hs)
  · cases h

/-- … and leaves every unrelated path as the earlier options made it -/
theorem options_last_keeps (xs : List String) (s : String) (acc m' m : Kids) (p q : List String) (v : Val)
    (hs : parseOption s = .ok (p, v)) (hxs : foldOptions xs acc = .ok m') (h : foldOptions (xs ++ [s]) acc = .ok m)
    (hq : q ≠ []) (hpq : comparable p q = false) : getPath q (.node m) = getPath q (.node m') := by
  rw [foldOptions_append, hxs] at h
  simp only [foldOptions, hs] at h
  cases h
  exact assign_keeps m' p q v hq hpq

/-- a malformed option anywhere refuses the whole command line, and nothing else does -/
theorem foldOptions_refused_iff (xs : List String) (acc : Kids) :
    (∃ e, foldOptions xs acc = .error e) ↔ ∃ s ∈ xs, ∃ e, parseOption s = .error e := by
  induction xs generalizing acc with
  | nil => simp [foldOptions]
  | cons x xs ih =>
    simp only [foldOptions]
    cases hx : parseOption x with
    | error e => exact ⟨fun _ => ⟨x, by simp, e, hx⟩, fun _ => ⟨e, rfl⟩⟩
    | ok pv =>
      simp only [List.mem_cons, exists_eq_or_imp, hx]
      rw [ih]
      simp


/-! ### a dictionary is rebuilt exactly from its leaf assignments -/

theorem set_set (k a b) (l : Kids) : set k a (set k b l) = set k a l := by
  induction l with
  | nil => simp [set]
  | cons p l ih =>
    obtain ⟨k', t'⟩ := p
    by_cases h : k' = k
    · simp [set, h]
    · simp [set, h, ih]

theorem set_append_new (k t) (l : Kids) (h : k ∉ keys l) : set k t l = l ++ [(k, t)] := by
  induction l with
  | nil => simp [set]
  | cons p l ih =>
    obtain ⟨k', t'⟩ := p
    simp only [keys_cons, List.mem_cons, not_or] at h
    have h1 : ¬ k' = k := fun e => h.1 e.symm
    simp [set, h1, ih h.2]

theorem foldIns_append (a b : List (List String × Val)) (acc : Kids) : foldIns (a ++ b) acc = foldIns b (foldIns a acc) := by
  simp [foldIns, List.foldl_append]

theorem insertLeaf_cons (acc : Kids) (k k' : String) (ks : List String) (v : Val) :
    insertLeaf acc (k :: k' :: ks, v) = set k (.node (insertLeaf (childKids (lookup k acc)) (k' :: ks, v))) acc := by
  simp [insertLeaf, nestKids, combine]

theorem foldIns_under_set (L : List (List String × Val)) (k : String) (acc sub0 : Kids) (hL : ∀ pv ∈ L, pv.1 ≠ []) :
    foldIns (L.map (fun pv => (k :: pv.1, pv.2))) (set k (.node sub0) acc) = set k (.node (foldIns L sub0)) acc := by
  induction L generalizing sub0 with
  | nil => simp [foldIns]
  | cons pv L ih =>
    obtain ⟨p, v⟩ := pv
    have hp : p ≠ [] := hL (p, v) (by simp)
    cases p with
    | nil => exact absurd rfl hp
    | cons k' ks =>
      simp only [List.map_cons, foldIns, List.foldl_cons]
      rw [insertLeaf_cons, lookup_set_same, set_set]
      simp only [childKids]
      exact ih _ (fun pv h => hL pv (by simp [h]))

/-- assignments below one key only rebuild the dictionary under that key -/
theorem foldIns_under (L : List (List String × Val)) (k : String) (acc : Kids) (hL : ∀ pv ∈ L, pv.1 ≠ []) (hne : L ≠ []) :
    foldIns (L.map (fun pv => (k :: pv.1, pv.2))) acc = set k (.node (foldIns L (childKids (lookup k acc)))) acc := by
  cases L with
  | nil => exact absurd rfl hne
  | cons pv L =>
    obtain ⟨p, v⟩ := pv
    have hp : p ≠ [] := hL (p, v) (by simp)
    cases p with
    | nil => exact absurd rfl hp
    | cons k' ks =>
      simp only [List.map_cons, foldIns, List.foldl_cons]
      rw [insertLeaf_cons]
      exact foldIns_under_set L k acc _ (fun pv h => hL pv (by simp [h]))

theorem leavesKids_path_ne_nil (ks : Kids) : ∀ pv ∈ leavesKids ks, pv.1 ≠ [] := by
  induction ks with
  | nil => simp [leavesKids]
  | cons p ks ih =>
    obtain ⟨k, t⟩ := p
    intro pv h
    simp only [leavesKids, List.mem_append, List.mem_map] at h
    rcases h with ⟨pv', _, rfl⟩ | h
    · simp
    · exact ih pv h

mutual
theorem leavesTree_ne_nil (t : Tree) : noEmpty t = true → leavesTree t ≠ [] := by
  intro h
  cases t with
  | leaf v => simp [leavesTree]
  | node ks =>
    simp only [noEmpty, Bool.and_eq_true, Bool.not_eq_true', List.isEmpty_eq_false_iff] at h
    cases ks with
    | nil => exact absurd rfl h.1
    | cons p ks =>
      obtain ⟨k, t⟩ := p
      simp only [noEmptyKids, Bool.and_eq_true] at h
      simp only [leavesTree, leavesKids]
      have := leavesTree_ne_nil t h.2.1
      simp [this]
end

mutual
theorem rebuild_tree (t : Tree) : wf t = true → noEmpty t = true →
    match t with
    | .leaf _ => True
    | .node sub => foldIns (leavesKids sub) [] = sub := by
  intro hw hn
  cases t with
  | leaf v => trivial
  | node sub =>
    simp only
    rw [wf_node, Bool.and_eq_true] at hw
    simp only [noEmpty, Bool.and_eq_true] at hn
    have := rebuild_kids sub hw.1 hw.2 hn.2 [] (by simp)
    simpa using this
theorem rebuild_kids (ks : Kids) : wfKids ks = true → nodupKeys ks = true → noEmptyKids ks = true →
    ∀ acc : Kids, (∀ k ∈ keys ks, k ∉ keys acc) → foldIns (leavesKids ks) acc = acc ++ ks := by
  intro hw hnd hn acc hdis
  cases ks with
  | nil => simp [leavesKids, foldIns]
  | cons p rest =>
    obtain ⟨k, t⟩ := p
    simp only [wfKids, Bool.and_eq_true] at hw
    simp only [noEmptyKids, Bool.and_eq_true] at hn
    simp only [nodupKeys, Bool.and_eq_true, Bool.not_eq_true'] at hnd
    have hk_acc : k ∉ keys acc := hdis k (by simp)
    have hk_rest : k ∉ keys rest := by
      intro hmem
      have : (keys rest).contains k = true := by simpa using hmem
      rw [this] at hnd; exact absurd hnd.1 (by simp)
    simp only [leavesKids]
    rw [foldIns_append]
    have hstep : foldIns ((leavesTree t).map (fun pv => (k :: pv.1, pv.2))) acc = acc ++ [(k, t)] := by
      cases t with
      | leaf v =>
        simp only [leavesTree, List.map_cons, List.map_nil, foldIns, List.foldl_cons, List.foldl_nil]
        simp only [insertLeaf, nestKids, combine]
        exact set_append_new k _ acc hk_acc
      | node sub =>
        have hsub := rebuild_tree (.node sub) hw.1 hn.1
        simp only at hsub
        simp only [leavesTree]
        rw [foldIns_under _ k acc (leavesKids_path_ne_nil sub) (leavesTree_ne_nil (.node sub) hn.1)]
        rw [lookup_none_of_not_mem k acc (by simpa using hk_acc)]
        simp only [childKids]
        rw [hsub]
        exact set_append_new k _ acc hk_acc
    rw [hstep]
    have := rebuild_kids rest hw.2 hnd.2 hn.2 (acc ++ [(k, t)]) (by
      intro k' hk'
      have h1 : k' ∉ keys acc := hdis k' (by simp [hk'])
      have h2 : k' ≠ k := by intro e; subst e; exact hk_rest hk'
      simp [keys, List.map_append] at h1 ⊢
      exact ⟨h1, h2⟩)
    rw [this]; simp
end

/-- **a well-formed dictionary without empty sub-dictionaries is exactly the result of assigning its leaves one by one**,
in document order, starting from the empty dictionary -/
theorem fold_leaves_eq (ks : Kids) (hw : wf (.node ks) = true) (hn : noEmptyKids ks = true) : foldIns (leavesKids ks) [] = ks := by
  rw [wf_node, Bool.and_eq_true] at hw
  simpa using rebuild_kids ks hw.1 hw.2 hn [] (by simp)


/-! ### spelling round trips: `-o` options -/

theorem splitFirst_append (c : Char) (a b : List Char) (h : c ∉ a) : splitFirst c (a ++ c :: b) = some (a, b) := by
  induction a with
  | nil => simp [splitFirst]
  | cons x a ih =>
    simp only [List.mem_cons, not_or] at h
    have hx : ¬ x = c := fun e => h.1 e.symm
    simp [splitFirst, hx, ih h.2]

theorem splitAll_no_sep (c : Char) (k : List Char) (h : c ∉ k) : splitAll c k = [k] := by
  induction k with
  | nil => simp [splitAll]
  | cons x k ih =>
    simp only [List.mem_cons, not_or] at h
    have hx : ¬ x = c := fun e => h.1 e.symm
    simp [splitAll, hx, ih h.2]

theorem splitAll_append_sep (c : Char) (a b : List Char) (h : c ∉ a) : splitAll c (a ++ c :: b) = a :: splitAll c b := by
  induction a with
  | nil => simp [splitAll]
  | cons x a ih =>
    simp only [List.mem_cons, not_or] at h
    have hx : ¬ x = c := fun e => h.1 e.symm
    simp [splitAll, hx, ih h.2]

theorem splitAll_joinWith (c : Char) (ks : List (List Char)) (hne : ks ≠ []) (h : ∀ k ∈ ks, c ∉ k) :
    splitAll c (joinWith c ks) = ks := by
  induction ks with
  | nil => exact absurd rfl hne
  | cons k ks ih =>
    cases ks with
    | nil => simpa [joinWith] using splitAll_no_sep c k (h k (by simp))
    | cons k' r =>
      simp only [joinWith]
      rw [splitAll_append_sep c k _ (h k (by simp)), ih (by simp) (fun k hk => h k (by simp [hk]))]

theorem map_ofList_toList (l : List String) : (l.map String.toList).map String.ofList = l := by
  induction l with
  | nil => rfl
  | cons x l ih => simp [String.ofList_toList]

theorem parseValue_render (v : Val) (h : optSafeVal v = true) : parseValue (renderVal v) = v := by
  cases v with
  | str s =>
    simp only [optSafeVal, Bool.not_eq_true'] at h
    simp [parseValue, renderVal, h, String.ofList_toList]
  | strs xs =>
    simp only [optSafeVal, Bool.and_eq_true, Bool.not_eq_true', List.isEmpty_eq_false_iff, List.all_eq_true] at h
    have hb : ∀ l : List Char, bracketed ('[' :: (l ++ [']'])) = true := by
      intro l
      have e : '[' :: (l ++ [']']) = ('[' :: l) ++ [']'] := rfl
      rw [e]
      simp only [bracketed, List.getLast?_concat]
      simp
    have hd : ∀ l : List Char, (List.drop 1 ('[' :: (l ++ [']']))).dropLast = l := by
      intro l; simp
    show parseValue ('[' :: (joinWith ',' (xs.map String.toList) ++ [']'])) = _
    unfold parseValue
    rw [if_pos (hb _), hd]
    rw [splitAll_joinWith ',' (xs.map String.toList) (by simpa using h.1) (by
      intro k hk
      simp only [List.mem_map] at hk
      obtain ⟨x, hx, rfl⟩ := hk
      simpa using h.2 x hx)]
    rw [map_ofList_toList]
  | bool b => simp [optSafeVal] at h
  | int n => simp [optSafeVal] at h
  | null => simp [optSafeVal] at h
  | other r => simp [optSafeVal] at h

/-- an assignment spelled as `-o a.b.c=value` is read back as that assignment -/
theorem parseOption_render (pv : List String × Val) (h : optSafe pv = true) : parseOption (renderOption pv) = .ok pv := by
  obtain ⟨p, v⟩ := pv
  simp only [optSafe, Bool.and_eq_true, Bool.not_eq_true', List.isEmpty_eq_false_iff, List.all_eq_true] at h
  obtain ⟨⟨hne, hkeys⟩, hv⟩ := h
  have heq : '=' ∉ joinWith '.' (p.map String.toList) := by
    clear hne
    induction p with
    | nil => simp [joinWith]
    | cons k ks ih =>
      have hk := (hkeys k (by simp)).2
      cases ks with
      | nil => simpa [joinWith] using hk
      | cons k' r =>
        simp only [List.map_cons, joinWith, List.mem_append, List.mem_cons, not_or]
        refine ⟨by simpa using hk, by decide, ?_⟩
        exact ih (fun k hk => hkeys k (by simp [hk]))
  unfold parseOption parseOptionChars renderOption
  simp only [String.toList_ofList]
  rw [splitFirst_append '=' _ _ heq]
  simp only
  rw [splitAll_joinWith '.' _ (by simpa using hne) (by
    intro k hk
    simp only [List.mem_map] at hk
    obtain ⟨x, hx, rfl⟩ := hk
    simpa using (hkeys x hx).1)]
  rw [map_ofList_toList, parseValue_render v hv]

theorem foldOptions_render (L : List (List String × Val)) (acc : Kids) (h : ∀ pv ∈ L, optSafe pv = true) :
    foldOptions (L.map renderOption) acc = .ok (foldIns L acc) := by
  induction L generalizing acc with
  | nil => simp [foldOptions, foldIns]
  | cons pv L ih =>
    simp only [List.map_cons, foldOptions]
    rw [parseOption_render pv (h pv (by simp))]
    simp only
    rw [ih _ (fun pv hpv => h pv (by simp [hpv]))]
    simp [foldIns]


/-! ### spelling round trips: environment variables -/

theorem splitDU_noDU (k : List Char) (h : noDU k = true) : splitDU k = [k] := by
  induction k with
  | nil => simp [splitDU]
  | cons x k ih =>
    cases k with
    | nil => simp [splitDU]
    | cons y r =>
      simp only [noDU, Bool.and_eq_true, Bool.not_eq_true', Bool.and_eq_false_iff, beq_eq_false_iff_ne] at h
      have hxy : ¬ (x = '_' ∧ y = '_') := by
        intro ⟨a, b⟩; rcases h.1 with h1 | h1 <;> contradiction
      simp only [splitDU, if_neg hxy, ih h.2]

theorem splitDU_append_sep (k rest : List Char) (h : noDU k = true) (hl : k.getLast? ≠ some '_') :
    splitDU (k ++ '_' :: '_' :: rest) = k :: splitDU rest := by
  induction k with
  | nil => simp [splitDU]
  | cons x k ih =>
    cases k with
    | nil =>
      have hx : ¬ x = '_' := by simpa using hl
      simp [splitDU, hx]
    | cons y r =>
      simp only [noDU, Bool.and_eq_true, Bool.not_eq_true', Bool.and_eq_false_iff, beq_eq_false_iff_ne] at h
      have hxy : ¬ (x = '_' ∧ y = '_') := by
        intro ⟨a, b⟩; rcases h.1 with h1 | h1 <;> contradiction
      have hl' : (y :: r).getLast? ≠ some '_' := by simpa [List.getLast?_cons_cons] using hl
      have := ih h.2 hl'
      simp only [List.cons_append] at this ⊢
      simp only [splitDU, if_neg hxy, this]

theorem splitDU_joinDU (ks : List (List Char)) (hne : ks ≠ [])
    (h : ∀ k ∈ ks, noDU k = true ∧ k.getLast? ≠ some '_') : splitDU (joinDU ks) = ks := by
  induction ks with
  | nil => exact absurd rfl hne
  | cons k ks ih =>
    cases ks with
    | nil => simpa [joinDU] using splitDU_noDU k (h k (by simp)).1
    | cons k' r =>
      simp only [joinDU]
      rw [splitDU_append_sep k _ (h k (by simp)).1 (h k (by simp)).2, ih (by simp) (fun k hk => h k (by simp [hk]))]

theorem lower_joinDU (ks : List (List Char)) (h : ∀ k ∈ ks, ∀ c ∈ k, c.toLower = c) : lower (joinDU ks) = joinDU ks := by
  induction ks with
  | nil => simp [joinDU, lower]
  | cons k ks ih =>
    have hk : lower k = k := by
      unfold lower
      conv => rhs; rw [← List.map_id k]
      exact List.map_congr_left (fun c hc => h k (by simp) c hc)
    cases ks with
    | nil => simpa [joinDU] using hk
    | cons k' r =>
      have := ih (fun k hk => h k (by simp [hk]))
      unfold lower at this hk ⊢
      simp only [joinDU, List.map_append, List.map_cons, hk, this]
      rfl

/-- a nested path spelled as `pydjinni__a__b__c` is read back as that path -/
theorem envPath_render (p : List String) (hne : p ≠ []) (h : ∀ k ∈ p, envSafeKey k.toList = true) :
    envPath (envPrefix ++ joinDU (p.map String.toList)) = some p := by
  have hsafe : ∀ k ∈ p.map String.toList, (noDU k = true ∧ k.getLast? ≠ some '_') ∧ ∀ c ∈ k, c.toLower = c := by
    intro k hk
    simp only [List.mem_map] at hk
    obtain ⟨x, hx, rfl⟩ := hk
    have := h x hx
    simp only [envSafeKey, Bool.and_eq_true, bne_iff_ne, ne_eq, List.all_eq_true, beq_iff_eq] at this
    exact ⟨⟨this.1.1, this.1.2⟩, this.2⟩
  have hlow : lower (envPrefix ++ joinDU (p.map String.toList)) = envPrefix ++ joinDU (p.map String.toList) := by
    have h1 := lower_joinDU (p.map String.toList) (fun k hk => (hsafe k hk).2)
    have h0 : lower envPrefix = envPrefix := by decide
    unfold lower at h1 h0 ⊢
    rw [List.map_append, h1, h0]
  unfold envPath
  simp only [hlow]
  have hpre : envPrefix.isPrefixOf (envPrefix ++ joinDU (p.map String.toList)) = true := by
    rw [List.isPrefixOf_iff_prefix]; exact List.prefix_append _ _
  rw [if_pos hpre, List.drop_left]
  rw [splitDU_joinDU _ (by simpa using hne) (fun k hk => (hsafe k hk).1), map_ofList_toList]

theorem envTree_render (L : List (List String × Val)) (h : ∀ pv ∈ L, envSafe pv = true) :
    envTree (L.map renderEnvVar) = foldIns L [] := by
  unfold envTree
  congr 1
  induction L with
  | nil => rfl
  | cons pv L ih =>
    obtain ⟨p, v⟩ := pv
    have hpv := h (p, v) (by simp)
    simp only [envSafe, Bool.and_eq_true, List.all_eq_true] at hpv
    obtain ⟨htop, hkeys⟩ := hpv
    cases p with
    | nil => simp at htop
    | cons top rest =>
      cases rest with
      | nil => simp at htop
      | cons k2 r =>
        simp only at htop
        simp only [List.map_cons, List.filterMap_cons, renderEnvVar, String.toList_ofList]
        have := envPath_render (top :: k2 :: r) (by simp) hkeys
        simp only [List.map_cons] at this
        rw [this]
        simp only [htop, List.isEmpty_cons, Bool.not_false, Bool.and_self, if_true]
        rw [ih (fun pv hpv => h pv (by simp [hpv]))]

mutual
theorem combine_disjoint_tree (t : Tree) : wf t = true →
    match t with
    | .leaf _ => True
    | .node sub => combine sub [] = sub := by
  intro hw
  cases t with
  | leaf v => trivial
  | node sub =>
    simp only
    rw [wf_node, Bool.and_eq_true] at hw
    simpa using combine_disjoint_kids sub hw.1 hw.2 [] (by simp)
theorem combine_disjoint_kids (o : Kids) : wfKids o = true → nodupKeys o = true →
    ∀ acc : Kids, (∀ k ∈ keys o, k ∉ keys acc) → combine o acc = acc ++ o := by
  intro hw hnd acc hdis
  cases o with
  | nil => simp [combine]
  | cons p rest =>
    obtain ⟨k, t⟩ := p
    simp only [wfKids, Bool.and_eq_true] at hw
    simp only [nodupKeys, Bool.and_eq_true, Bool.not_eq_true'] at hnd
    have hk_acc : k ∉ keys acc := hdis k (by simp)
    have hk_rest : k ∉ keys rest := by
      intro hmem
      have : (keys rest).contains k = true := by simpa using hmem
      rw [this] at hnd; exact absurd hnd.1 (by simp)
    have hrest := combine_disjoint_kids rest hw.2 hnd.2 (acc ++ [(k, t)]) (by
      intro k' hk'
      have h1 : k' ∉ keys acc := hdis k' (by simp [hk'])
      have h2 : k' ≠ k := by intro e; subst e; exact hk_rest hk'
      simp [keys, List.map_append] at h1 ⊢
      exact ⟨h1, h2⟩)
    cases t with
    | leaf v =>
      simp only [combine]
      rw [set_append_new k _ acc hk_acc, hrest]; simp
    | node sub =>
      have hsub := combine_disjoint_tree (.node sub) hw.1
      simp only at hsub
      simp only [combine]
      rw [lookup_none_of_not_mem k acc (by simpa using hk_acc)]
      simp only [childKids]
      rw [hsub, set_append_new k _ acc hk_acc, hrest]; simp
end

/-- merging a well-formed dictionary into nothing gives that dictionary: an options dict alone is the configuration -/
theorem combine_nil_right (o : Kids) (hw : wf (.node o) = true) : combine o [] = o := by
  rw [wf_node, Bool.and_eq_true] at hw
  simpa using combine_disjoint_kids o hw.1 hw.2 [] (by simp)

/-- **the three spellings of the same settings denote the same dictionary**: a well-formed dictionary `D` without empty
sub-dictionaries, given (i) as it is (YAML/JSON/TOML document or options dict), (ii) as one `-o` option per leaf, (iii) as
one `pydjinni__…` environment variable per leaf, is the same merged input to validation -/
theorem sources_equivalent (D : Kids) (hw : wf (.node D) = true) (hn : noEmptyKids D = true) :
    ((∀ pv ∈ leavesKids D, optSafe pv = true) → foldOptions ((leavesKids D).map renderOption) [] = .ok D)
    ∧ ((∀ pv ∈ leavesKids D, envSafe pv = true) → envTree ((leavesKids D).map renderEnvVar) = D) := by
  constructor
  · intro h; rw [foldOptions_render _ _ h, fold_leaves_eq D hw hn]
  · intro h; rw [envTree_render _ h, fold_leaves_eq D hw hn]

/-- consequently `configure` cannot tell the spellings apart: file, options dict, `-o` options, environment -/
theorem configure_sources_equivalent (validate : Validate) (D opts : Kids) (hw : wf (.node D) = true) (hn : noEmptyKids D = true)
    (hD : D ≠ [])
    (ho : ∀ pv ∈ leavesKids D, optSafe pv = true) (he : ∀ pv ∈ leavesKids D, envSafe pv = true)
    (hopts : foldOptions ((leavesKids D).map renderOption) [] = .ok opts) (sfx : Suffix) (hs : sfx ≠ .unknown) :
    configure validate [] [] .absent opts = configure validate [] [] (.present sfx (.mapping D)) []
    ∧ configure validate [] [] .absent D = configure validate [] [] (.present sfx (.mapping D)) []
    ∧ effective [] (envTree ((leavesKids D).map renderEnvVar)) [] = effective D [] [] := by
  have h1 := (sources_equivalent D hw hn).1 ho
  have h2 := (sources_equivalent D hw hn).2 he
  rw [h1] at hopts; cases hopts
  have hc := combine_nil_right D hw
  have hne : D.isEmpty = false := by cases D <;> simp_all
  refine ⟨?_, ?_, ?_⟩
  · cases sfx <;> first | exact absurd rfl hs | simp [configure, combine, hc, hne]
  · cases sfx <;> first | exact absurd rfl hs | simp [configure, combine, hc, hne]
  · rw [h2]; simp [effective, combine, hc]

/-! ### the environment delivers every text as it is -/

theorem knobVal_pinned (v : Val) : knobVal pinnedKnobs v = some v := by
  cases v <;> simp [knobVal, pinnedKnobs]

theorem envVarsWith_pinned (vars : List (String × Val)) : envVarsWith pinnedKnobs vars = vars := by
  induction vars with
  | nil => rfl
  | cons nv r ih => simp [envVarsWith, knobVal_pinned]

/-- with the settings of the pinned tree (`env_ignore_empty` off, no `env_parse_none_str`) no variable is dropped or rewritten
because of its text -/
theorem envTreeWith_pinned (vars : List (String × Val)) : envTreeWith pinnedKnobs vars = envTree vars := by
  simp [envTreeWith, envVarsWith_pinned]

/-- the spellings do not depend on the text that is assigned: an environment spelling exists for *every* value (the empty text,
blank text, texts that read as a number, a boolean, `null` or JSON, texts containing `=`, `__`, `,` …), an `-o` spelling for
every text that is not bracketed -/
theorem envSafe_any_value (p : List String) (v w : Val) : envSafe (p, v) = envSafe (p, w) := rfl
theorem optSafeVal_text (s : String) : optSafeVal (.str s) = !bracketed s.toList := rfl

/-- **the environment is an equivalent source for every text**: one `pydjinni__…` variable per leaf rebuilds the dictionary,
whatever the texts at the leaves are -/
theorem env_source_verbatim (D : Kids) (hw : wf (.node D) = true) (hn : noEmptyKids D = true)
    (he : ∀ pv ∈ leavesKids D, envSafe pv = true) :
    envTreeWith pinnedKnobs ((leavesKids D).map renderEnvVar) = D := by
  rw [envTreeWith_pinned]; exact (sources_equivalent D hw hn).2 he

private def exEmptyText : Kids := [("generate", .node [("java", .node [("function_prefix", .leaf (.str ""))])])]

/-- were `env_ignore_empty` set, a variable with the empty text would be dropped … -/
theorem ignoreEmpty_drops (n : String) (t : Option String) : envVarsWith ⟨true, t⟩ [(n, .str "")] = [] := by
  simp [envVarsWith, knobVal]

/-- … and were `env_parse_none_str` set, a variable with that text would arrive as `None`; the pinned settings keep both -/
theorem noneText_rewrites (n s : String) :
    envVarsWith ⟨false, some s⟩ [(n, .str s)] = [(n, .null)] ∧ envVarsWith pinnedKnobs [(n, .str s)] = [(n, .str s)] := by
  simp [envVarsWith, knobVal, pinnedKnobs]

/-- counterexample: with `env_ignore_empty` the valid setting `generate.java.function_prefix = ""` (no prefix) given as an
environment variable is silently lost, while a file, the options dict and `-o` keep it; with the pinned settings it arrives -/
theorem ignoreEmpty_breaks_equivalence :
    wf (.node exEmptyText) = true ∧ noEmptyKids exEmptyText = true ∧ (leavesKids exEmptyText).all envSafe = true
    ∧ (leavesKids exEmptyText).all optSafe = true
    ∧ (envTreeWith ⟨true, none⟩ ((leavesKids exEmptyText).map renderEnvVar)).isEmpty = true
    ∧ envTreeWith pinnedKnobs ((leavesKids exEmptyText).map renderEnvVar) = exEmptyText := by
  have he : (leavesKids exEmptyText).all envSafe = true := by decide +kernel
  refine ⟨by decide +kernel, by decide +kernel, he, by decide +kernel, by decide +kernel, ?_⟩
  exact env_source_verbatim _ (by decide +kernel) (by decide +kernel) (fun pv h => List.all_eq_true.mp he pv h)

/-! ### precedence between the sources -/

/-- what the file/options say wins over the environment and the `.env` file … -/
theorem explicit_over_env (explicit env dotenv : Kids) (p : List String) (v : Val) (hw : wf (.node explicit) = true)
    (h : getPath p (.node explicit) = some (.leaf v)) : getPath p (.node (effective explicit env dotenv)) = some (.leaf v) :=
  merge_override p explicit _ v hw h

/-- … and what they do not mention is taken from the environment, then from the `.env` file -/
theorem env_fills_in (explicit env dotenv : Kids) (p : List String) (hw : wf (.node explicit) = true)
    (h : untouched p explicit = true) :
    getPath p (.node (effective explicit env dotenv)) = getPath p (.node (combine env dotenv)) :=
  merge_keeps p explicit _ hw h

/-! ### `configure` fails cleanly -/

/-- **decision table**: outside the one listed hole `configure` either returns the validated merge or raises
`ConfigurationException` (141) / `FileNotFoundException` (2) — never any other exception -/
theorem configure_fails_cleanly_partial (validate : Validate) (env dotenv : Kids) (file : FileState) (options : Kids)
    (hd : cfgDom file = true) :
    (∃ t, configure validate env dotenv file options = .ok t ∧ validate t = true)
    ∨ configure validate env dotenv file options = .app 141
    ∨ (configure validate env dotenv file options = .app 2 ∧ file = .missing) := by
  cases file with
  | absent =>
    simp only [configure]
    by_cases ho : options.isEmpty = true
    · simp [ho]
    · simp only [ho]
      by_cases he : encodableKids (combine options []) = true
      · by_cases hv : validate (effective (combine options []) env dotenv) = true
        · left; exact ⟨_, by simp [hv, he], hv⟩
        · right; left; simp [hv, he]
      · right; left; simp [he]
  | missing => simp [configure]
  | directory => simp [configure]
  | present sfx c =>
    cases c with
    | syntaxError => cases sfx <;> simp [configure]
    | undecodable => cases sfx <;> simp [configure]
    | nonMapping => cases sfx <;> simp [configure]
    | nonStringTopKey => cases sfx <;> simp [cfgDom] at hd <;> simp [configure]
    | mapping b =>
      cases sfx
      case unknown => simp [configure]
      all_goals
        simp only [configure]
        by_cases he : encodableKids (combine options b) = true
        · by_cases hv : validate (effective (combine options b) env dotenv) = true
          · left; exact ⟨_, by simp [hv, he], hv⟩
          · right; left; simp [hv, he]
        · right; left; simp [he]

/-- the hole is real: a YAML mapping with a non-string top-level key ends in a `TypeError` -/
theorem configure_nonStringKey_counterexample (validate : Validate) :
    (configure validate [] [] (.present .yaml .nonStringTopKey) []).isCrash = true := by
  simp [configure, Outcome.isCrash]

/-- a missing file is reported as such whatever its suffix; an unknown suffix of an existing file is a configuration error -/
theorem configure_missing_first (validate : Validate) (env dotenv options : Kids) :
    configure validate env dotenv .missing options = .app 2 := by simp [configure]

/-- whatever is accepted was accepted by validation on exactly the key-wise merge of the options into the file,
laid over the environment -/
theorem configure_ok_is_merge (validate : Validate) (env dotenv b options t : Kids) (sfx : Suffix)
    (h : configure validate env dotenv (.present sfx (.mapping b)) options = .ok t) :
    t = effective (combine options b) env dotenv := by
  cases sfx <;> simp only [configure] at h <;> (try cases h) <;> (split at h <;> try cases h) <;> (split at h <;> cases h) <;> rfl



/-! ### texts that are not valid Unicode are refused in the merge, whichever source delivered them -/

theorem encodableKids_set (k : String) (t : Tree) (l : Kids) (hk : encodableStr k = true) (ht : encodable t = true)
    (hl : encodableKids l = true) : encodableKids (set k t l) = true := by
  induction l with
  | nil => simp [set, encodableKids, hk, ht]
  | cons p l ih =>
    obtain ⟨k', t'⟩ := p
    simp only [encodableKids, Bool.and_eq_true] at hl
    by_cases h : k' = k
    · simp [set, h, encodableKids, hk, ht, hl.2]
    · simp [set, h, encodableKids, hl.1.1, hl.1.2, ih hl.2]

/-- what is found in a dictionary that passes the check passes it, and so does the key it is found under -/
theorem encodable_of_lookup (l : Kids) (k : String) (t : Tree) (h : encodableKids l = true) (hl : lookup k l = some t) :
    encodableStr k = true ∧ encodable t = true := by
  induction l with
  | nil => simp [lookup] at hl
  | cons p l ih =>
    obtain ⟨k', t'⟩ := p
    simp only [encodableKids, Bool.and_eq_true] at h
    simp only [lookup] at hl
    split at hl
    · rename_i e; cases hl; subst e; exact h.1
    · exact ih h.2 hl

theorem encodable_childKids (b : Kids) (k : String) (h : encodableKids b = true) : encodableKids (childKids (lookup k b)) = true := by
  cases hl : lookup k b with
  | none => simp [childKids, encodableKids]
  | some t =>
    cases t with
    | leaf v => simp [childKids, encodableKids]
    | node bb => simpa [childKids, encodable] using (encodable_of_lookup b k _ h hl).2

mutual
theorem encodable_combine_tree (t : Tree) : ∀ b : Kids, encodableKids b = true → encodable t = true →
    match t with
    | .leaf _ => True
    | .node sub => encodableKids (combine sub b) = true := by
  intro b hb ht
  cases t with
  | leaf v => trivial
  | node sub =>
    simp only
    simp only [encodable] at ht
    exact encodable_combine_kids sub b hb ht
theorem encodable_combine_kids (o : Kids) : ∀ b : Kids, encodableKids b = true → encodableKids o = true →
    encodableKids (combine o b) = true := by
  intro b hb ho
  cases o with
  | nil => simpa [combine] using hb
  | cons p o =>
    obtain ⟨k, t⟩ := p
    simp only [encodableKids, Bool.and_eq_true] at ho
    cases t with
    | leaf v =>
      simp only [combine]
      exact encodable_combine_kids o _ (encodableKids_set _ _ _ ho.1.1 ho.1.2 hb) ho.2
    | node sub =>
      simp only [combine]
      have hsub := encodable_combine_tree (.node sub) (childKids (lookup k b)) (encodable_childKids b k hb) ho.1.2
      simp only at hsub
      exact encodable_combine_kids o _ (encodableKids_set _ _ _ ho.1.1 (by simpa [encodable] using hsub) hb) ho.2
end

/-- **valid texts stay valid**: the merge of two dictionaries that pass the check passes it -/
theorem encodable_combine (o b : Kids) (ho : encodableKids o = true) (hb : encodableKids b = true) :
    encodableKids (combine o b) = true := encodable_combine_kids o b hb ho

mutual
theorem combine_encodable_inv_tree (t : Tree) : ∀ b : Kids, wf t = true →
    match t with
    | .leaf _ => True
    | .node sub => encodableKids (combine sub b) = true → encodableKids sub = true := by
  intro b hw
  cases t with
  | leaf v => trivial
  | node sub =>
    simp only
    rw [wf_node, Bool.and_eq_true] at hw
    exact combine_encodable_inv_kids sub b hw.1 hw.2
theorem combine_encodable_inv_kids (o : Kids) : ∀ b : Kids, wfKids o = true → nodupKeys o = true →
    encodableKids (combine o b) = true → encodableKids o = true := by
  intro b hw hnd h
  cases o with
  | nil => simp [encodableKids]
  | cons p o =>
    obtain ⟨k, t⟩ := p
    simp only [wfKids, Bool.and_eq_true] at hw
    simp only [nodupKeys, Bool.and_eq_true, Bool.not_eq_true'] at hnd
    have hnone : lookup k o = none := lookup_none_of_not_mem _ _ hnd.1
    cases t with
    | leaf v =>
      simp only [combine] at h
      have hl : lookup k (combine o (set k (.leaf v) b)) = some (.leaf v) := by
        rw [combine_lookup _ _ _ hnd.2, hnone]; simp [lookup_set_same]
      have h1 := encodable_of_lookup _ _ _ h hl
      have h2 := combine_encodable_inv_kids o _ hw.2 hnd.2 h
      simp only [encodableKids, Bool.and_eq_true]
      exact ⟨⟨h1.1, h1.2⟩, h2⟩
    | node sub =>
      simp only [combine] at h
      have hl : lookup k (combine o (set k (.node (combine sub (childKids (lookup k b)))) b))
          = some (.node (combine sub (childKids (lookup k b)))) := by
        rw [combine_lookup _ _ _ hnd.2, hnone]; simp [lookup_set_same]
      have h1 := encodable_of_lookup _ _ _ h hl
      have hsub := combine_encodable_inv_tree (.node sub) (childKids (lookup k b)) hw.1
      simp only at hsub
      have h2 := combine_encodable_inv_kids o _ hw.2 hnd.2 h
      simp only [encodableKids, Bool.and_eq_true]
      exact ⟨⟨h1.1, by simpa [encodable] using hsub (by simpa [encodable] using h1.2)⟩, h2⟩
end

/-- **a text of the override that is not valid Unicode is in the merge**, at any depth, whatever the base holds: the override (the
options dictionary, the `-o` options) is a source like the file -/
theorem unencodable_override_stays (o b : Kids) (hw : wf (.node o) = true) (h : encodableKids o = false) :
    encodableKids (combine o b) = false := by
  rw [wf_node, Bool.and_eq_true] at hw
  cases hc : encodableKids (combine o b) with
  | false => rfl
  | true => rw [combine_encodable_inv_kids o b hw.1 hw.2 hc] at h; cases h

/-- the same path assigned twice: the second assignment replaces the first (whatever the first one put there) -/
theorem assign_assign (p : List String) : ∀ (g : Kids) (w v : Val), p ≠ [] →
    insertLeaf (insertLeaf g (p, w)) (p, v) = insertLeaf g (p, v) := by
  induction p with
  | nil => intro g w v hp; exact absurd rfl hp
  | cons k ks ih =>
    intro g w v _
    cases ks with
    | nil => simp [insertLeaf, nestKids, combine, set_set]
    | cons k' ks' =>
      rw [insertLeaf_cons g, insertLeaf_cons, lookup_set_same, set_set, insertLeaf_cons g]
      simp only [childKids]
      rw [ih _ w v (by simp)]

theorem encodable_nest (p : List String) (v : Val) (hp : ∀ k ∈ p, encodableStr k = true) (hv : encodableVal v = true) :
    encodableKids (nestKids p v) = true := by
  induction p with
  | nil => simp [nestKids, encodableKids]
  | cons k ks ih =>
    cases ks with
    | nil => simp [nestKids, encodableKids, encodable, hp k (by simp), hv]
    | cons k' ks' =>
      have := ih (fun x hx => hp x (by simp [hx]))
      simp [nestKids, encodableKids, encodable, hp k (by simp), this]

/-- `badKeysKids` lists something iff the check fails: a refusal can always name a key -/
theorem badKeys_nil_iff_tree (t : Tree) : ∀ path, (badKeysTree path t = [] ↔ encodable t = true) := by
  intro path
  match t with
  | .leaf v => by_cases h : encodableVal v = true <;> simp [badKeysTree, encodable, h]
  | .node ks => simpa [badKeysTree, encodable] using badKeys_nil_iff_kids ks path
where
  badKeys_nil_iff_kids (ks : Kids) : ∀ path, (badKeysKids path ks = [] ↔ encodableKids ks = true) := by
    intro path
    match ks with
    | [] => simp [badKeysKids, encodableKids]
    | (k, t) :: r =>
      have h1 := badKeys_nil_iff_tree t (path ++ [k])
      have h2 := badKeys_nil_iff_kids r path
      by_cases hk : encodableStr k = true
      · simp [badKeysKids, encodableKids, hk, h1, h2]
      · simp [badKeysKids, encodableKids, hk]

theorem badKeys_nil_iff (ks : Kids) : badKeysKids [] ks = [] ↔ encodableKids ks = true :=
  badKeys_nil_iff_tree.badKeys_nil_iff_kids ks []

/-- **the check is made on the merge**: with a configuration file that decodes to a mapping `b` and options `o`, `configure`
refuses whenever the merge of the options into the file holds a text that is not valid Unicode, and otherwise hands the
effective configuration to validation — a text of the file that the options replace does not count -/
theorem configure_checks_the_merge (validate : Validate) (env dotenv b options : Kids) (sfx : Suffix) (hs : sfx ≠ .unknown) :
    configure validate env dotenv (.present sfx (.mapping b)) options =
      if encodableKids (combine options b) then
        (if validate (effective (combine options b) env dotenv) then .ok (effective (combine options b) env dotenv) else .app 141)
      else .app 141 := by
  cases sfx <;> first | exact absurd rfl hs | (simp only [configure]; cases encodableKids (combine options b) <;> simp)

/-- **every source is checked**: options (a dictionary, or what the `-o` texts denote) that hold a text that is not valid Unicode are
refused with the configuration diagnostic — with any configuration file, without one, whatever the environment holds and
whatever validation would say -/
theorem configure_unencodable_options_refused (validate : Validate) (env dotenv b options : Kids) (sfx : Suffix) (hs : sfx ≠ .unknown)
    (hw : wf (.node options) = true) (h : encodableKids options = false) :
    configure validate env dotenv (.present sfx (.mapping b)) options = .app 141
    ∧ configure validate env dotenv .absent options = .app 141 := by
  constructor
  · rw [configure_checks_the_merge _ _ _ _ _ _ hs, unencodable_override_stays options b hw h]; simp
  · simp only [configure]
    cases options.isEmpty <;> simp [unencodable_override_stays options [] hw h]

/-- **an option that replaces a text of the file replaces it before the check**: the file assigns `w` (say, a text that is not valid
Unicode) to the path `p` of an otherwise valid dictionary `g`, the option assigns a valid `v` to the same path — the outcome is that of
the file `g` with `v` at `p` -/
theorem overridden_file_text_not_refused (validate : Validate) (env dotenv g : Kids) (sfx : Suffix) (hs : sfx ≠ .unknown)
    (p : List String) (w v : Val) (hp : p ≠ []) (hg : encodableKids g = true) (hk : ∀ k ∈ p, encodableStr k = true)
    (hv : encodableVal v = true) :
    configure validate env dotenv (.present sfx (.mapping (insertLeaf g (p, w)))) (nestKids p v) =
      (if validate (effective (insertLeaf g (p, v)) env dotenv) then .ok (effective (insertLeaf g (p, v)) env dotenv) else .app 141) := by
  rw [configure_checks_the_merge _ _ _ _ _ _ hs]
  have e : combine (nestKids p v) (insertLeaf g (p, w)) = insertLeaf g (p, v) := assign_assign p g w v hp
  rw [e]
  have : encodableKids (insertLeaf g (p, v)) = true := encodable_combine _ _ (encodable_nest p v hk hv) hg
  simp [this]

/-! ### target readiness -/

theorem parseReady_ok (set : List String) (cts : List TargetDef) (h : parseReady (some set) = .ok cts) :
    cts = configuredTargets set ∧ ∀ d ∈ cts, ∀ g ∈ d.generators, g ∈ set := by
  simp only [parseReady] at h
  split at h
  · rename_i hall
    cases h
    refine ⟨rfl, ?_⟩
    intro d hd g hg
    simp only [List.all_eq_true] at hall
    simpa using hall d hd g hg
  · cases h

/-- a configured target (its key is set) one of whose generators has no section is refused by `parse` with the
configuration diagnostic -/
theorem parse_unready_refused (set : List String) (d : TargetDef) (g : String) (hd : d ∈ targetTable)
    (hk : d.key ∈ set) (hg : g ∈ d.generators) (hgs : g ∉ set) : parseReady (some set) = .app 141 := by
  simp only [parseReady]
  split
  · rename_i hall
    simp only [List.all_eq_true] at hall
    have hmem : d ∈ configuredTargets set := by
      simp only [configuredTargets, List.mem_filter]; exact ⟨hd, by simpa using hk⟩
    have := hall d hmem g hg
    exact absurd (by simpa using this) hgs
  · rfl

theorem parse_without_generate_refused : parseReady none = .app 141 := rfl

/-- `generate t` for a target that is not fully configured (its key, or the section of one of its generators, is missing)
is refused with the configuration diagnostic; an unknown target name with the unknown-target diagnostic -/
theorem generate_unready_refused (set : List String) (cts : List TargetDef) (kinds : List DeclKind) (t : String)
    (_hp : parseReady (some set) = .ok cts) :
    (∀ d ∈ targetTable, d.key ≠ t) → generateOutcome cts kinds t = .app 120 := by
  intro h
  simp only [generateOutcome]
  have : targetTable.find? (fun d => d.key == t) = none := by
    rw [List.find?_eq_none]; intro d hd; simpa using h d hd
  rw [this]

theorem generate_unconfigured_refused (set : List String) (cts : List TargetDef) (kinds : List DeclKind) (d : TargetDef)
    (hp : parseReady (some set) = .ok cts) (hd : targetTable.find? (fun x => x.key == d.key) = some d)
    (hmiss : d.key ∉ set ∨ ∃ g ∈ d.generators, g ∉ set) : generateOutcome cts kinds d.key = .app 141 := by
  obtain ⟨hcts, hall⟩ := parseReady_ok set cts hp
  have hnot : d ∉ cts := by
    intro hmem
    rcases hmiss with hk | ⟨g, hg, hgs⟩
    · rw [hcts, configuredTargets, List.mem_filter] at hmem
      exact hk (by simpa using hmem.2)
    · exact hgs (hall d hmem g hg)
  simp [generateOutcome, hd, hnot]

/-- an IDL without any type definition (empty file, empty namespaces, imports of such files): `generate` still looks the target up and
requires its configuration — 120 for an unknown name, 141 for a target that is not (fully) configured, otherwise it runs (purging with
`--clean`, writing the type-independent files); it never depends on a declaration, so never ends in the internal error of the hole -/
theorem generate_typeless (cts : List TargetDef) (t : String) :
    generateOutcome cts [] t =
      (match targetTable.find? (fun d => d.key == t) with
       | none => .app 120
       | some d => if !cts.contains d then .app 141 else .ok ()) := by
  simp only [generateOutcome]
  cases targetTable.find? (fun d => d.key == t) with
  | none => rfl
  | some d =>
    have h : needsCpp cts [] d = false := by
      simp [needsCpp]
    simp [h]

theorem generate_typeless_unconfigured_refused (set : List String) (cts : List TargetDef) (d : TargetDef)
    (hp : parseReady (some set) = .ok cts) (hd : targetTable.find? (fun x => x.key == d.key) = some d)
    (hmiss : d.key ∉ set ∨ ∃ g ∈ d.generators, g ∉ set) : generateOutcome cts [] d.key = .app 141 :=
  generate_unconfigured_refused set cts [] d hp hd hmiss

example : generateOutcome (configuredTargets ["cpp", "java", "jni", "yaml"]) [] "objc" = .app 141 := by decide +kernel
example : generateOutcome (configuredTargets ["cpp", "java", "jni", "yaml"]) [] "java" = .ok () := by decide +kernel

/-- outside that hole `generate` never ends in an internal error -/
theorem generate_fails_cleanly_partial (cts : List TargetDef) (kinds : List DeclKind) (t : String)
    (hdom : readyDom cts kinds t = true) : (generateOutcome cts kinds t).isCrash = false := by
  simp only [generateOutcome]
  cases hf : targetTable.find? (fun d => d.key == t) with
  | none => rfl
  | some d =>
    simp only
    split
    · rfl
    · split
      · rename_i hcr
        simp only [readyDom, hf, Bool.or_eq_true, Bool.not_eq_true', Bool.and_eq_true] at hdom hcr
        rcases hdom with h | h
        · rw [h] at hcr; simp at hcr
        · rw [h] at hcr; simp at hcr
      · rfl

/-- the hole is real: `java` and `jni` configured, `cpp` not, one record -/
theorem generate_glue_without_cpp_counterexample :
    ∃ cts, parseReady (some ["java", "jni"]) = .ok cts ∧ (generateOutcome cts [.record] "java").isCrash = true := by
  refine ⟨[⟨"java", ["java", "jni"]⟩], by decide, by decide⟩

/-- with every section present every target is ready -/
example : ∃ cts, parseReady (some ["cpp", "java", "jni", "objc", "objcpp", "cppcli", "yaml"]) = .ok cts
    ∧ ∀ t ∈ ["cpp", "java", "objc", "cppcli", "yaml"], generateOutcome cts [.record, .enum] t = .ok () := by
  refine ⟨targetTable, by decide, by decide⟩


/-! ### one `API` object, several contexts, any sequence of requests -/

theorem heldBy_hold (h : Held) (gs : List String) (c : Nat) (g : String) (hg : g ∈ gs) : heldBy (hold h gs c) g = some c := by
  unfold heldBy hold
  induction gs with
  | nil => cases hg
  | cons x xs ih =>
    by_cases hx : x = g
    · subst hx; simp
    · have : g ∈ xs := by
        rcases List.mem_cons.mp hg with h1 | h1
        · exact absurd h1.symm hx
        · exact h1
      simp only [List.map_cons, List.cons_append, List.find?_cons]
      have hne : ((x, c).1 == g) = false := by simpa using hx
      rw [hne]
      exact ih this

theorem targetConfigure_error (set : List String) (c : Nat) (d : TargetDef) (h : Held) (k : String)
    (hk : targetConfigure set c d h = .error k) : ∃ g ∈ d.generators, g ∉ set ∧ k = "generate." ++ g := by
  unfold targetConfigure at hk
  split at hk
  · rename_i g hg
    have := List.find?_some hg
    have hm := List.mem_of_find?_eq_some hg
    cases hk
    exact ⟨g, hm, by simpa using this, rfl⟩
  · cases hk

theorem targetConfigure_ok (set : List String) (c : Nat) (d : TargetDef) (h : Held)
    (hall : ∀ g ∈ d.generators, g ∈ set) : targetConfigure set c d h = .ok (hold h d.generators c) := by
  unfold targetConfigure
  have : d.generators.find? (fun g => !set.contains g) = none := by
    rw [List.find?_eq_none]; intro g hg; simpa using hall g hg
  rw [this]

/-- what `parse` names when it refuses: the first generator without a section, over the configured targets in registry order -/
theorem configureAll_named (set : List String) (c : Nat) (ds : List TargetDef) (h : Held) :
    (configureAll set c ds h).2 = ((ds.flatMap (·.generators)).find? (fun g => !set.contains g)).map ("generate." ++ ·) := by
  induction ds generalizing h with
  | nil => rfl
  | cons d ds ih =>
    simp only [configureAll, List.flatMap_cons, List.find?_append]
    unfold targetConfigure
    cases hf : d.generators.find? (fun g => !set.contains g) with
    | some g => simp
    | none => simp [ih]

def Inv (ctxs : List GenSet) (s : ApiState) : Prop :=
  ∀ c ∈ s.parsed, ∃ set, ctxSet ctxs c = some set ∧ ∀ d ∈ configuredTargets set, ∀ g ∈ d.generators, g ∈ set

theorem parseMissing_none_iff (set : List String) :
    parseMissing set = none ↔ ∀ d ∈ configuredTargets set, ∀ g ∈ d.generators, g ∈ set := by
  unfold parseMissing
  rw [List.find?_eq_none]
  constructor
  · intro h d hd g hg
    have := h g (List.mem_flatMap.mpr ⟨d, hd, hg⟩)
    simpa using this
  · intro h g hg
    obtain ⟨d, hd, hgd⟩ := List.mem_flatMap.mp hg
    simpa using h d hd g hgd

theorem parseReady_eq (set : List String) :
    parseReady (some set) = if (parseMissing set).isNone then .ok (configuredTargets set) else .app 141 := by
  simp only [parseReady]
  by_cases h : ∀ d ∈ configuredTargets set, ∀ g ∈ d.generators, g ∈ set
  · have h1 : ((configuredTargets set).all fun t => t.generators.all set.contains) = true := by
      simp only [List.all_eq_true]; intro d hd g hg; simpa using h d hd g hg
    have h2 := (parseMissing_none_iff set).mpr h
    simp [h1, h2]
  · have h1 : ((configuredTargets set).all fun t => t.generators.all set.contains) = false := by
      rw [Bool.eq_false_iff]; intro hall
      apply h
      simp only [List.all_eq_true] at hall
      intro d hd g hg; simpa using hall d hd g hg
    have h2 : parseMissing set ≠ none := fun hn => h ((parseMissing_none_iff set).mp hn)
    cases hm : parseMissing set with
    | none => exact absurd hm h2
    | some g => simp [h1]

/-- `parse` of a context ends the same way whatever happened on the `API` object before: as the single-shot `parseReady` of
the context's own sections says -/
theorem parseStep_outcome (ctxs : List GenSet) (c : Nat) (s : ApiState) :
    (parseStep ctxs c s).1.outcome = some (parseReady (ctxSet ctxs c)).void := by
  unfold parseStep
  cases hs : ctxSet ctxs c with
  | none => rfl
  | some set =>
    simp only
    have hn := configureAll_named set c (configuredTargets set) s.held
    rw [parseReady_eq]
    cases hca : configureAll set c (configuredTargets set) s.held with
    | mk h k =>
      rw [hca] at hn
      simp only at hn
      cases k with
      | none =>
        have : parseMissing set = none := by
          unfold parseMissing
          cases hf : ((configuredTargets set).flatMap (·.generators)).find? (fun g => !set.contains g) with
          | none => rfl
          | some g => rw [hf] at hn; cases hn
        simp [this, Outcome.void]
      | some k =>
        have : (parseMissing set).isNone = false := by
          unfold parseMissing
          cases hf : ((configuredTargets set).flatMap (·.generators)).find? (fun g => !set.contains g) with
          | none => rw [hf] at hn; cases hn
          | some g => rfl
        simp [this, Outcome.void]

/-- every refusal of `parse` names a key that is indeed missing: the section of a generator of a target whose own key is set -/
theorem parse_refusal_names_missing (ctxs : List GenSet) (c : Nat) (s : ApiState) (set : List String)
    (hset : ctxSet ctxs c = some set) :
    (parseStep ctxs c s).1.named = (parseMissing set).map ("generate." ++ ·)
    ∧ ∀ g, parseMissing set = some g → g ∉ set ∧ ∃ d ∈ targetTable, d.key ∈ set ∧ g ∈ d.generators := by
  constructor
  · unfold parseStep
    rw [hset]
    simp only
    have hn := configureAll_named set c (configuredTargets set) s.held
    cases hca : configureAll set c (configuredTargets set) s.held with
    | mk h k =>
      rw [hca] at hn
      simp only at hn
      cases k with
      | none => simp only [parseMissing]; rw [← hn]
      | some k => simp only [parseMissing]; rw [← hn]
  · intro g hg
    unfold parseMissing at hg
    have h1 := List.find?_some hg
    have h2 := List.mem_of_find?_eq_some hg
    obtain ⟨d, hd, hgd⟩ := List.mem_flatMap.mp h2
    simp only [configuredTargets, List.mem_filter] at hd
    exact ⟨by simpa using h1, d, hd.1, by simpa using hd.2, hgd⟩

theorem parseStep_inv (ctxs : List GenSet) (c : Nat) (s : ApiState) (hinv : Inv ctxs s) : Inv ctxs (parseStep ctxs c s).2 := by
  unfold parseStep
  cases hs : ctxSet ctxs c with
  | none => exact hinv
  | some set =>
    simp only
    have hn := configureAll_named set c (configuredTargets set) s.held
    cases hca : configureAll set c (configuredTargets set) s.held with
    | mk h k =>
      rw [hca] at hn
      simp only at hn
      cases k with
      | some k => exact hinv
      | none =>
        intro c' hc'
        simp only [List.mem_cons] at hc'
        rcases hc' with rfl | hc'
        · refine ⟨set, hs, ?_⟩
          apply (parseMissing_none_iff set).mp
          unfold parseMissing
          cases hf : ((configuredTargets set).flatMap (·.generators)).find? (fun g => !set.contains g) with
          | none => rfl
          | some g => rw [hf] at hn; cases hn
        · exact hinv c' hc'

theorem cts_any_cpp (set : List String) : (configuredTargets set).any (fun c => c.key == "cpp") = set.contains "cpp" := by
  simp [configuredTargets, List.any_filter, targetTable]

theorem find_target (t : String) (d : TargetDef) (h : targetTable.find? (fun d => d.key == t) = some d) :
    d ∈ targetTable ∧ d.key = t :=
  ⟨List.mem_of_find?_eq_some h, by simpa using List.find?_some h⟩

/-- `generate` on the `GenerateContext` of a context ends as the single-shot `generateOutcome` of the context's own sections says,
and when it runs, every generator of the target holds the section of the *requesting* context — whatever other contexts of the
same `API` object parsed or generated before -/
theorem generateStep_spec (ctxs : List GenSet) (kinds : List DeclKind) (c : Nat) (t : String) (s : ApiState)
    (hinv : Inv ctxs s) (hc : c ∈ s.parsed) :
    ∃ set, ctxSet ctxs c = some set ∧ parseReady (some set) = .ok (configuredTargets set)
      ∧ (generateStep ctxs kinds c t s).1.outcome = some (generateOutcome (configuredTargets set) kinds t)
      ∧ ((generateStep ctxs kinds c t s).1.outcome = some (.ok ()) →
          (generateStep ctxs kinds c t s).1.used ≠ [] ∧ ∀ u ∈ (generateStep ctxs kinds c t s).1.used, u = c) := by
  obtain ⟨set, hset, hall⟩ := hinv c hc
  refine ⟨set, hset, ?_, ?_⟩
  · rw [parseReady_eq, (parseMissing_none_iff set).mpr hall]; rfl
  have hpc : s.parsed.contains c = true := by simpa using hc
  unfold generateStep generateOutcome
  simp only [hpc, hset, Bool.not_true, Bool.false_eq_true, if_false]
  cases hf : targetTable.find? (fun d => d.key == t) with
  | none => simp
  | some d =>
    obtain ⟨hd, hkey⟩ := find_target t d hf
    simp only
    by_cases hst : set.contains t = true
    · have hmem : d ∈ configuredTargets set := by
        simp only [configuredTargets, List.mem_filter]; exact ⟨hd, by rw [hkey]; exact hst⟩
      have hcont : (configuredTargets set).contains d = true := by simpa using hmem
      rw [targetConfigure_ok set c d s.held (hall d hmem)]
      simp only [hst, hcont, Bool.not_true, Bool.false_eq_true, if_false, cts_any_cpp]
      split
      · simp
      · refine ⟨rfl, fun _ => ?_⟩
        have hne : d.generators ≠ [] := by
          have : ∀ d ∈ targetTable, d.generators ≠ [] := by decide
          exact this d hd
        have hmap : d.generators.filterMap (heldBy (hold s.held d.generators c)) = d.generators.map (fun _ => c) := by
          have : ∀ l : List String, (∀ g ∈ l, g ∈ d.generators) →
              l.filterMap (heldBy (hold s.held d.generators c)) = l.map (fun _ => c) := by
            intro l
            induction l with
            | nil => intro _; rfl
            | cons g gs ih =>
              intro hsub
              rw [List.filterMap_cons, heldBy_hold s.held d.generators c g (hsub g (List.mem_cons_self ..))]
              simp only [List.map_cons]
              rw [ih (fun g' hg' => hsub g' (List.mem_cons_of_mem _ hg'))]
          exact this d.generators (fun _ h => h)
        rw [hmap]
        constructor
        · cases hg : d.generators with
          | nil => exact absurd hg hne
          | cons => simp
        · intro u hu
          obtain ⟨_, _, rfl⟩ := List.mem_map.mp hu
          rfl
    · have hst' : set.contains t = false := by simpa using hst
      have hnmem : (configuredTargets set).contains d = false := by
        rw [Bool.eq_false_iff]; intro hcon
        have : d ∈ configuredTargets set := by simpa using hcon
        simp only [configuredTargets, List.mem_filter] at this
        rw [hkey] at this
        exact hst this.2
      have hts : t ∉ set := by simpa using hst'
      have hnm : d ∉ configuredTargets set := by simpa using hnmem
      simp [hts, hnm]

theorem generateStep_skipped (ctxs : List GenSet) (kinds : List DeclKind) (c : Nat) (t : String) (s : ApiState)
    (hc : c ∉ s.parsed) : (generateStep ctxs kinds c t s).1.outcome = none := by
  simp [generateStep, hc]

theorem generateStep_parsed (ctxs : List GenSet) (kinds : List DeclKind) (c : Nat) (t : String) (s : ApiState) :
    (generateStep ctxs kinds c t s).2.parsed = s.parsed := by
  unfold generateStep
  repeat' split
  all_goals rfl

theorem step_inv (ctxs : List GenSet) (kinds : List DeclKind) (r : Req) (s : ApiState) (hinv : Inv ctxs s) :
    Inv ctxs (step ctxs kinds r s).2 := by
  cases r with
  | configure c =>
    intro c' hc'
    simp only [step, List.mem_filter] at hc'
    exact hinv c' hc'.1
  | parse c => exact parseStep_inv ctxs c s hinv
  | generate c t =>
    intro c' hc'
    simp only [step, generateStep_parsed] at hc'
    exact hinv c' hc'

/-- what every answer of a history has to be: that of the single request on a fresh `API` object -/
def answerSpec (ctxs : List GenSet) (kinds : List DeclKind) (r : Req) (a : Answer) : Prop :=
  match r with
  | .configure _ => a.outcome = none
  | .parse c => a.outcome = some (parseReady (ctxSet ctxs c)).void
  | .generate c t => a.outcome = none ∨ ∃ set, ctxSet ctxs c = some set ∧ parseReady (some set) = .ok (configuredTargets set)
      ∧ a.outcome = some (generateOutcome (configuredTargets set) kinds t)
      ∧ (a.outcome = some (.ok ()) → a.used ≠ [] ∧ ∀ u ∈ a.used, u = c)

theorem runReqs_length (ctxs : List GenSet) (kinds : List DeclKind) (reqs : List Req) (s : ApiState) :
    (runReqs ctxs kinds reqs s).length = reqs.length := by
  induction reqs generalizing s with
  | nil => rfl
  | cons r rs ih => simp [runReqs, ih]

theorem history_free_from (ctxs : List GenSet) (kinds : List DeclKind) (reqs : List Req) (s : ApiState) (hinv : Inv ctxs s) :
    ∀ p ∈ reqs.zip (runReqs ctxs kinds reqs s), answerSpec ctxs kinds p.1 p.2 := by
  induction reqs generalizing s with
  | nil => intro p hp; cases hp
  | cons r rs ih =>
    intro p hp
    simp only [runReqs, List.zip_cons_cons, List.mem_cons] at hp
    rcases hp with rfl | hp
    · cases r with
      | configure c => rfl
      | parse c => exact parseStep_outcome ctxs c s
      | generate c t =>
        by_cases hc : c ∈ s.parsed
        · exact Or.inr (generateStep_spec ctxs kinds c t s hinv hc)
        · exact Or.inl (generateStep_skipped ctxs kinds c t s hc)
    · exact ih _ (step_inv ctxs kinds r s hinv) p hp

/-- **histories do not matter**: on one `API` object, for any number of contexts and any sequence of requests (contexts made
anew, parsed and asked to generate in any interleaving, any request repeated any number of times), every request is answered
(`runReqs_length`), every `parse` ends as `parseReady` of that context's own sections says, every `generate` as `generateOutcome`
of them says — in particular an insufficient configuration is refused *every* time —, and a `generate` that runs uses the
requesting context's sections only -/
theorem history_free (ctxs : List GenSet) (kinds : List DeclKind) (reqs : List Req) :
    ∀ p ∈ reqs.zip (runReqs ctxs kinds reqs {}), answerSpec ctxs kinds p.1 p.2 :=
  history_free_from ctxs kinds reqs {} (by intro c hc; cases hc)

/-- the same request repeated is answered the same way (java without jni: refused twice, naming `generate.jni` twice; a complete
context of the same object in between changes nothing) -/
example : (runReqs [some ["java"], some ["cpp", "java", "jni"]] [.record] [.parse 0, .parse 0, .parse 1, .generate 1 "java", .parse 0, .generate 0 "java"] {}).map
      (fun a => (a.outcome, a.named, a.used))
    = [(some (.app 141), some "generate.jni", []), (some (.app 141), some "generate.jni", []), (some (.ok ()), none, []),
       (some (.ok ()), none, [1, 1]), (some (.app 141), some "generate.jni", []), (none, none, [])] := by decide


/-! ### the hypotheses are satisfiable (evaluated by the compiled model) -/

private def exBase : Kids := [("generate", .node [("cpp", .node [("out", .leaf (.str "o")), ("namespace", .leaf (.str "a::b"))]),
  ("include_dirs", .leaf (.strs ["x", "y"]))])]
private def exOver : Kids := [("generate", .node [("cpp", .node [("out", .node [("header", .leaf (.str "h")), ("source", .leaf (.str "s"))])])])]

-- merge_override / merge_keeps: the override names generate.cpp.out.header; generate.cpp.namespace is a sibling
#guard wf (.node exOver) && wf (.node exBase)
#guard leafAt ["generate", "cpp", "out", "header"] (.node (combine exOver exBase)) == some (.str "h")
#guard untouched ["generate", "cpp", "namespace"] exOver
#guard leafAt ["generate", "cpp", "namespace"] (.node (combine exOver exBase)) == some (.str "a::b")
#guard mergeSpec exOver exBase (combine exOver exBase)
-- sources_equivalent: every hypothesis holds for exBase, and the three spellings coincide
#guard noEmptyKids exBase && (leavesKids exBase).all optSafe && (leavesKids exBase).all envSafe
#guard (leavesKids exBase).map renderOption == ["generate.cpp.out=o", "generate.cpp.namespace=a::b", "generate.include_dirs=[x,y]"]
#guard (match foldOptions ((leavesKids exBase).map renderOption) [] with | .ok t => kidsBeq t exBase | .error _ => false)
#guard kidsBeq (envTree ((leavesKids exBase).map renderEnvVar)) exBase
#guard ((leavesKids exBase).map renderEnvVar).map (·.1) == ["pydjinni__generate__cpp__out", "pydjinni__generate__cpp__namespace", "pydjinni__generate__include_dirs"]
-- sources_equivalent / env_source_verbatim with edge texts at the leaves: empty, blank, number-, boolean-, null- and JSON-like,
-- texts containing the separators of the spellings
private def exEdge : Kids := [("generate", .node [("java", .node [("function_prefix", .leaf (.str "")), ("native_lib", .leaf (.str " ")),
    ("nullable_annotation", .leaf (.str "null")), ("nonnull_annotation", .leaf (.str "a=b"))]),
  ("objc", .node [("type_prefix", .leaf (.str "1")), ("header_extension", .leaf (.str "true")), ("source_extension", .leaf (.str "{\"a\": 1}"))]),
  ("cpp", .node [("header_extension", .leaf (.str "a__b")), ("source_extension", .leaf (.str "[x")), ("namespace", .leaf (.strs ["", "a b", "="])),
    ("identifier", .node [("type", .node [("prefix", .leaf (.str "a,b"))]), ("enum", .node [("prefix", .leaf (.str "\"q\""))])])])])]
#guard wf (.node exEdge) && noEmptyKids exEdge && (leavesKids exEdge).all optSafe && (leavesKids exEdge).all envSafe
#guard (match foldOptions ((leavesKids exEdge).map renderOption) [] with | .ok t => kidsBeq t exEdge | .error _ => false)
#guard kidsBeq (envTreeWith pinnedKnobs ((leavesKids exEdge).map renderEnvVar)) exEdge
#guard ((leavesKids exEdge).map renderOption).take 4 == ["generate.java.function_prefix=", "generate.java.native_lib= ",
  "generate.java.nullable_annotation=null", "generate.java.nonnull_annotation=a=b"]
#guard !kidsBeq (envTreeWith ⟨true, none⟩ ((leavesKids exEdge).map renderEnvVar)) exEdge
#guard !kidsBeq (envTreeWith ⟨false, some "null"⟩ ((leavesKids exEdge).map renderEnvVar)) exEdge
-- a bracketed text has no `-o` spelling (it would be read as a list)
#guard !optSafeVal (.str "[a,b]") && !optSafeVal (.str "[]") && optSafeVal (.str "[x") && optSafeVal (.str "")
-- options: later wins, a scalar gives way to nested keys, malformed text is refused
#guard (match foldOptions ["a=1", "a.b=2", "a.c=[x,y]"] [] with
  | .ok t => kidsBeq t [("a", .node [("b", .leaf (.str "2")), ("c", .leaf (.strs ["x", "y"]))])] | .error _ => false)
#guard (match foldOptions ["a=1", "oops"] [] with | .error .noEquals => true | _ => false)

-- texts that are not valid Unicode (U+E0FF stands for the lone surrogate U+DCFF): refused from the options, from the file, not when replaced
private def exBadOpt : Kids := [("generate", .node [("cpp", .node [("header_extension", .leaf (.str "h\uE0FF"))])])]
private def exGoodOpt : Kids := [("generate", .node [("cpp", .node [("header_extension", .leaf (.str "hh"))])])]
#guard wf (.node exBadOpt) && !encodableKids exBadOpt && encodableKids exBase && encodableKids exGoodOpt
#guard (match configure (fun _ => true) [] [] (.present .json (.mapping exBase)) exBadOpt with | .app 141 => true | _ => false)
#guard (match configure (fun _ => true) [] [] .absent exBadOpt with | .app 141 => true | _ => false)
#guard (match configure (fun _ => true) [] [] (.present .yaml (.mapping (combine exBadOpt exBase))) [] with | .app 141 => true | _ => false)
#guard (match configure (fun _ => true) [] [] (.present .yaml (.mapping (combine exBadOpt exBase))) exGoodOpt with
  | .ok t => leafAt ["generate", "cpp", "header_extension"] (.node t) == some (.str "hh") | _ => false)
#guard badKeysKids [] (combine exBadOpt exBase) == [["generate", "cpp", "header_extension"]]
#guard badKeysKids [] [("a", .node [("k\uE000", .leaf (.strs ["x", "\uE7FF"]))])] == [["a"], ["a", "k\uE000"]]
#guard insertLeaf (insertLeaf exBase (["generate", "cpp", "header_extension"], .str "h\uE0FF")) (["generate", "cpp", "header_extension"], .str "hh")
  |> fun t => kidsBeq t (insertLeaf exBase (["generate", "cpp", "header_extension"], .str "hh"))

end Pydjinni.Sys
