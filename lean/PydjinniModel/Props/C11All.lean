import PydjinniModel.Props.C11Closed
import PydjinniModel.Props.C05Program
/-! Everything property C11's check audits: the specification-level results (`Props/C11.lean`, `C11Closed.lean`) and the
    model-level invariance `front_split_invariance` (`Props/C05Program.lean`). -/
