import PydjinniModel.Gen.Flags
/-!
# C08 — enum and flag constants have the same numeric value in every target language

All statements are for lists of any length, with `none`/`all` flags in any position and multiplicity.

* `enum_values`            the k-th enum item evaluates to k (C++/ObjC/C++-CLI enumerator rule; Java ordinal = position)
* `flag_values`            the constants the counter loop emits evaluate to the specification
                           (i-th ordinary flag ↦ 2^i, `none` ↦ 0, `all` ↦ 2^n − 1), whatever the prefix
* `flag_none_zero`, `flag_all_mask`, `flag_ordinary_bit`   the three clauses of the specification, per position
* `mask_is_union`          2^n − 1 is the bitwise union of the values of all ordinary flags
* `eval_defined`           no constant is undefined (no use before declaration, no ill-formed initialiser)
* `targets_agree`          C++, ObjC and C++/CLI denote the same valuation, position by position
* `java_ordinal_eq_bit`    an ordinary flag is the Java constant whose ordinal k is its bit index: C-family value 2^k
* `jni_enum_roundtrip`, `jni_flags_fromCpp_toCpp`, `jni_flags_roundtrip`   marshalling by ordinal / bit position is
                           the identity on valid values
* `pinned_all_before_ordinary_undefined`, `pinned_all_without_ordinary_illformed`   the two defects of the
  pinned templates (`0 | <names>`), as counterexamples on the old emission
-/
namespace Pydjinni.Gen
open Pydjinni.Lang

/-! ### enums -/

theorem evalFrom_emitEnum (pref : String) (names : List String) (env : EScope) (k : Nat) :
    evalFrom env (some k) (emitEnum pref names) = (names.zipIdx k).map (fun (n, i) => (pref ++ n, some i)) := by
  induction names generalizing env k with
  | nil => rfl
  | cons n ns ih =>
    simp only [emitEnum, List.map_cons, evalFrom, enumeratorValue, extend, succOpt, List.zipIdx_cons]
    exact congrArg _ (ih _ (k + 1))

/-- The k-th item of an enum has value k. -/
theorem enum_values (pref : String) (names : List String) :
    evalEnum (emitEnum pref names) = names.zipIdx.map (fun (n, i) => (pref ++ n, some i)) :=
  evalFrom_emitEnum pref names [] 0

/-! ### flags -/

/-- values the counter loop denotes: independent of scope and prefix -/
def counterValues (mask : Nat) : List Flag → Nat → List Nat
  | [], _ => []
  | f :: fs, c =>
    if f.none then 0 :: counterValues mask fs c
    else if f.all then mask :: counterValues mask fs c
    else 2 ^ c :: counterValues mask fs (c + 1)

theorem evalFrom_emitCounter (pref : String) (mask : Nat) (fs : List Flag) (c : Nat) (env : EScope) (next : Option Nat) :
    (evalFrom env next (emitCounter pref mask fs c)).map (·.2) = (counterValues mask fs c).map some := by
  induction fs generalizing c env next with
  | nil => rfl
  | cons f fs ih =>
    unfold emitCounter counterValues
    cases hn : f.none <;> cases ha : f.all <;>
      simp [evalFrom, enumeratorValue, EExpr.eval, ih, Nat.shiftLeft_eq]

theorem counterValues_eq (fs pre : List Flag) (mask : Nat) :
    counterValues mask fs (ordinaryCount pre) =
      (fs.zipIdx pre.length).map (fun (f, p) => if f.none then 0 else if f.all then mask else 2 ^ ordinalAt (pre ++ fs) p) := by
  induction fs generalizing pre with
  | nil => rfl
  | cons f fs ih =>
    have hpre : ordinalAt (pre ++ f :: fs) pre.length = ordinaryCount pre := by simp [ordinalAt]
    have hstep : ∀ c, c = ordinaryCount (pre ++ [f]) → counterValues mask fs c =
        (fs.zipIdx (pre.length + 1)).map (fun (f', p) => if f'.none then 0 else if f'.all then mask else 2 ^ ordinalAt (pre ++ f :: fs) p) := by
      intro c hc
      have := ih (pre ++ [f])
      simp only [List.length_append, List.length_cons, List.length_nil, List.append_assoc, List.cons_append, List.nil_append] at this
      rw [hc]; exact this
    unfold counterValues
    simp only [List.zipIdx_cons, List.map_cons, hpre]
    cases hn : f.none <;> cases ha : f.all <;> simp only [if_true, if_false, Bool.false_eq_true]
    · congr 1; exact hstep _ (by simp [ordinaryCount, Flag.ordinary, hn, ha, List.filter_append])
    · congr 1; exact hstep _ (by simp [ordinaryCount, Flag.ordinary, hn, ha, List.filter_append])
    · congr 1; exact hstep _ (by simp [ordinaryCount, Flag.ordinary, hn, ha, List.filter_append])
    · congr 1; exact hstep _ (by simp [ordinaryCount, Flag.ordinary, hn, ha, List.filter_append])

/-- **flag_values**: the constants emitted by the counter loop (any prefix, any enclosing scope) evaluate to the
specification: `none` ↦ 0, `all` ↦ 2^n − 1, the i-th ordinary flag ↦ 2^i. -/
theorem flag_values (pref : String) (fs : List Flag) :
    valuesOf (evalEnum (emitCounter pref (allMask fs) fs 0)) = (specValues fs).map some := by
  have h := counterValues_eq fs [] (allMask fs)
  simp only [ordinaryCount, List.filter_nil, List.length_nil, List.nil_append] at h
  simp only [valuesOf, evalEnum, evalFrom_emitCounter, h]
  rfl

theorem specValues_getElem? (fs : List Flag) (p : Nat) :
    (specValues fs)[p]? = fs[p]?.map (specFlag fs p) := by
  simp only [specValues, List.getElem?_map, List.getElem?_zipIdx, Nat.zero_add]
  cases fs[p]? <;> rfl

/-- per position: what the C-family constant at position `p` evaluates to -/
theorem flag_value_at (pref : String) (fs : List Flag) (p : Nat) (f : Flag) (hf : fs[p]? = some f) :
    (valuesOf (evalEnum (emitCounter pref (allMask fs) fs 0)))[p]? = some (some (specFlag fs p f)) := by
  rw [flag_values, List.getElem?_map, specValues_getElem?, hf]; rfl

/-- a `none` flag is 0, wherever it stands -/
theorem flag_none_zero (pref : String) (fs : List Flag) (p : Nat) (f : Flag) (hf : fs[p]? = some f) (hn : f.none = true) :
    (valuesOf (evalEnum (emitCounter pref (allMask fs) fs 0)))[p]? = some (some 0) := by
  rw [flag_value_at pref fs p f hf]; simp [specFlag, hn]

/-- an `all` flag is 2^n − 1 (n = number of ordinary flags), wherever it stands -/
theorem flag_all_mask (pref : String) (fs : List Flag) (p : Nat) (f : Flag) (hf : fs[p]? = some f)
    (hn : f.none = false) (ha : f.all = true) :
    (valuesOf (evalEnum (emitCounter pref (allMask fs) fs 0)))[p]? = some (some (2 ^ ordinaryCount fs - 1)) := by
  rw [flag_value_at pref fs p f hf]; simp [specFlag, hn, ha]

/-- the i-th ordinary flag is bit i: its value is 2^(number of ordinary flags before it) -/
theorem flag_ordinary_bit (pref : String) (fs : List Flag) (p : Nat) (f : Flag) (hf : fs[p]? = some f)
    (ho : f.ordinary = true) :
    (valuesOf (evalEnum (emitCounter pref (allMask fs) fs 0)))[p]? = some (some (2 ^ ordinalAt fs p)) := by
  rw [flag_value_at pref fs p f hf]
  simp only [Flag.ordinary, Bool.and_eq_true, Bool.not_eq_true'] at ho
  simp [specFlag, ho.1, ho.2]

/-- **eval_defined**: every emitted constant has a value — no use before declaration, no ill-formed initialiser. -/
theorem eval_defined (pref : String) (fs : List Flag) :
    ∀ v ∈ valuesOf (evalEnum (emitCounter pref (allMask fs) fs 0)), v.isSome = true := by
  rw [flag_values]; intro v hv
  obtain ⟨n, _, rfl⟩ := List.mem_map.mp hv; rfl

/-- **targets_agree**: the C++, ObjC (type-name prefix) and C++/CLI headers denote the same valuation. -/
theorem targets_agree (objcType : String) (fs : List Flag) :
    valuesOf (evalEnum (emitCpp fs)) = valuesOf (evalEnum (emitObjc objcType fs))
    ∧ valuesOf (evalEnum (emitCpp fs)) = valuesOf (evalEnum (emitCppCli fs)) := by
  simp only [emitCpp, emitObjc, emitCppCli, flag_values, and_self]

/-! ### `all` is the union of all ordinary flags -/

theorem or_two_pow_sub_one (n : Nat) : (2 ^ n - 1) ||| 2 ^ n = 2 ^ (n + 1) - 1 := by
  apply Nat.eq_of_testBit_eq
  intro i
  simp only [Nat.testBit_or, Nat.testBit_two_pow_sub_one, Nat.testBit_two_pow]
  by_cases h1 : i < n <;> by_cases h2 : n = i <;> simp [h1, h2] <;> omega

/-- 2^n − 1 is the bitwise union of 2^0, …, 2^(n−1) — the values of all ordinary flags (`flag_ordinary_bit`) -/
theorem mask_is_union (n : Nat) : ((List.range n).map (2 ^ ·)).foldl (· ||| ·) 0 = 2 ^ n - 1 := by
  induction n with
  | zero => rfl
  | succ n ih => rw [List.range_succ, List.map_append, List.foldl_append, ih]; exact or_two_pow_sub_one n

/-! ### Java -/

theorem javaConstants_getElem? (fs : List Flag) (p : Nat) (f : Flag) (hf : fs[p]? = some f) (ho : f.ordinary = true) :
    (javaConstants fs)[ordinalAt fs p]? = some f.name := by
  induction fs generalizing p with
  | nil => simp at hf
  | cons g gs ih =>
    cases p with
    | zero =>
      simp only [List.getElem?_cons_zero, Option.some.injEq] at hf; subst hf
      simp [javaConstants, ordinalAt, ordinaryCount, ho]
    | succ p =>
      simp only [List.getElem?_cons_succ] at hf
      have := ih p hf
      cases hg : g.ordinary
      · simpa [javaConstants, ordinalAt, ordinaryCount, hg] using this
      · simpa [javaConstants, ordinalAt, ordinaryCount, hg] using this

/-- **java_ordinal_eq_bit**: an ordinary flag at position `p` is the Java constant with ordinal `k = ordinalAt fs p`,
and its value in the C-family headers is `2^k` — the bit JNI derives from the ordinal. -/
theorem java_ordinal_eq_bit (pref : String) (fs : List Flag) (p : Nat) (f : Flag) (hf : fs[p]? = some f) (ho : f.ordinary = true) :
    (javaConstants fs)[ordinalAt fs p]? = some f.name
    ∧ (valuesOf (evalEnum (emitCounter pref (allMask fs) fs 0)))[p]? = some (some (2 ^ ordinalAt fs p)) :=
  ⟨javaConstants_getElem? fs p f hf ho, flag_ordinary_bit pref fs p f hf ho⟩

/-- the Java enum has exactly as many constants as there are ordinary flags -/
theorem javaConstants_length (fs : List Flag) : (javaConstants fs).length = ordinaryCount fs := by
  simp [javaConstants, ordinaryCount]

/-! ### JNI -/

/-- an enum value crosses JNI unchanged (ordinal ↔ underlying value `k`, `enum_values`) -/
theorem jni_enum_roundtrip (n k : Nat) (h : k < n) : (jniEnumFromCpp n k).map jniEnumToCpp = some k := by
  simp [jniEnumFromCpp, jniEnumToCpp, h]

theorem jniFlagsFromCppFrom_eq (n v i k : Nat) (h : ∀ j, i ≤ j → j < i + k → v.testBit j = true → j < n) :
    jniFlagsFromCppFrom n v i k = some ((List.range' i k).filter (v.testBit ·)) := by
  induction k generalizing i with
  | zero => rfl
  | succ k ih =>
    have ih' := ih (i + 1) (fun j h1 h2 h3 => h j (by omega) (by omega) h3)
    unfold jniFlagsFromCppFrom
    simp only [List.range'_succ, List.filter_cons]
    cases hb : v.testBit i
    · simp [ih']
    · have := h i (Nat.le_refl _) (by omega) hb
      simp [this, ih']

theorem testBit_foldl_or (S : List Nat) (a j : Nat) :
    (S.foldl (fun acc o => acc ||| (1 <<< o)) a).testBit j = (a.testBit j || decide (j ∈ S)) := by
  induction S generalizing a with
  | nil => simp
  | cons o S ih =>
    rw [List.foldl_cons, ih, Nat.testBit_or, Nat.one_shiftLeft, Nat.testBit_two_pow]
    by_cases h1 : o = j
    · subst h1; simp
    · have h1' : ¬ j = o := fun h => h1 h.symm
      simp [h1, h1']

theorem jni_flags_fromCpp_toCpp (n bits v : Nat) (hv : v < 2 ^ n) (hb : n ≤ bits) :
    ∃ S, jniFlagsFromCpp n bits v = some S ∧ jniFlagsToCpp S = v := by
  have hlt : ∀ j, v.testBit j = true → j < n := by
    intro j hj
    refine Nat.lt_of_not_le (fun hle => ?_)
    have : v < 2 ^ j := Nat.lt_of_lt_of_le hv (Nat.pow_le_pow_right (by decide) hle)
    rw [Nat.testBit_lt_two_pow this] at hj; cases hj
  refine ⟨_, jniFlagsFromCppFrom_eq n v 0 bits (fun j _ _ h => hlt j h), ?_⟩
  apply Nat.eq_of_testBit_eq
  intro j
  rw [jniFlagsToCpp, testBit_foldl_or]
  simp only [Nat.zero_testBit, Bool.false_or, List.mem_filter, List.mem_range'_1, Nat.zero_le, Nat.zero_add, true_and]
  cases hj : v.testBit j
  · simp
  · have := hlt j hj
    simp; omega

/-- **jni_flags_roundtrip**: with `bits = type_def.flags | length` every valid flags value (a subset of the ordinary
bits) crosses JNI to the `EnumSet` of the constants whose ordinal is a set bit, and back to the same value. -/
theorem jni_flags_roundtrip (fs : List Flag) (v : Nat) (hv : v < 2 ^ ordinaryCount fs) :
    ∃ S, jniFlagsFromCpp (javaConstants fs).length (jniBits fs) v = some S ∧ jniFlagsToCpp S = v := by
  rw [javaConstants_length]
  exact jni_flags_fromCpp_toCpp _ _ v hv (List.length_filter_le _ _)

/-- a value with a bit outside the ordinary flags (e.g. produced by the generated `operator~`) does not cross:
`values()[i]` is out of range when `none`/`all` flags make `bits` larger than the number of Java constants -/
example : jniFlagsFromCpp 1 2 0b10 = none := by decide

/-! ### the defects of the pinned templates (`all` ↦ `0 | <names of all ordinary flags>`) -/

/-- `f = flags { every = all; a; }`: `every` uses `a` before its declaration — undefined. -/
theorem pinned_all_before_ordinary_undefined :
    valuesOf (evalEnum (emitCounterPinned "" [⟨"every", true, false⟩, ⟨"a", false, false⟩] [⟨"every", true, false⟩, ⟨"a", false, false⟩] 0))
      = [none, some 1] := by decide

/-- `f = flags { a = all; }`: `0 | ` followed by nothing. -/
theorem pinned_all_without_ordinary_illformed :
    valuesOf (evalEnum (emitCounterPinned "" [⟨"a", true, false⟩] [⟨"a", true, false⟩] 0)) = [none] := by decide

/-- with every `all` flag after the ordinary ones (and at least one ordinary flag) the old emission was fine, e.g.: -/
example : valuesOf (evalEnum (emitCounterPinned "" [⟨"a", false, false⟩, ⟨"n", false, true⟩, ⟨"b", false, false⟩, ⟨"e", true, false⟩]
    [⟨"a", false, false⟩, ⟨"n", false, true⟩, ⟨"b", false, false⟩, ⟨"e", true, false⟩] 0)) = [some 1, some 0, some 2, some 3] := by decide

/-- the hypotheses of the theorems above are satisfiable by non-trivial inputs -/
example : valuesOf (evalEnum (emitObjc "T" [⟨"e", true, false⟩, ⟨"a", false, false⟩, ⟨"n", false, true⟩, ⟨"b", false, false⟩, ⟨"e2", true, false⟩]))
    = [some 3, some 1, some 0, some 2, some 3] := by decide
example : javaConstants [⟨"e", true, false⟩, ⟨"a", false, false⟩, ⟨"n", false, true⟩, ⟨"b", false, false⟩] = ["a", "b"] := by decide

end Pydjinni.Gen
