import PydjinniModel.Props.C01
import PydjinniModel.Props.C01Keywords
/-! All C01 theorems: include closure of generated headers (Props/C01.lean) and the reserved-identifier clause
(Props/C01Keywords.lean over Gen/Keywords.lean). -/
