import PydjinniModel.Sys.Api
/-!
# C10 — output is a pure function of IDL and configuration

Hash seed (a Python `set` is iterated in an arbitrary order)
* `leL_total`, `leL_trans`, `leL_antisymm`      code-point order on strings is a total order
* `isort_perm`, `isort_sorted`, `isort_eq_of_perm`  a stable sort by an antisymmetric total order forgets the input order
* `jinjaSortTotal_perm`                          so does `| sort(case_sensitive=true) | sort`
* `set_order_irrelevant`                         every template loop over a set that goes through it renders the same text for
                                                 every iteration order of the set (`render ∘ sort`)
* `legacy_sort_leaks_order`                      the plain `| sort` of the pinned tree (case-insensitive, stable) does **not**:
                                                 `"Foo.hpp"`/`"foo.hpp"` come out in set order (witness of the repaired defect)
* `sorted_loops_order_irrelevant`                the generated obligation `allSetLoopsSorted facts` (re-proved by `decide` on the live
                                                 templates every run) gives this for every set-typed loop of every template
Refused configurations
* `configuredTargets_perm`, `refusal_set_order_irrelevant`
                                    `configured_targets` is the ordered target registry filtered by membership in
                                    `model_fields_set`: the list, and with it *which* "Missing configuration" refusal an incomplete
                                    `generate` section gets, is the same for every iteration order of that set; walking the set
                                    instead leaks the order (`bySet_leaks_order`); `wellConfigured_iff_no_refusal` ties it to the
                                    state machine below
History
* `generateGens_state_irrelevant`   a generate call reads only the configurations of the generators of its target
* `generate_history_free`, `generate_history_free_run`
                                    from **any** state of the API object (any contexts, parses, generates, reports before) a generate
                                    call produces exactly what a fresh process produces for (configuration, program, target) —
                                    the full statement, after the repair; `config_leak_counterexample` is the pinned tree's `generate`
* `report_accumulates_counterexample`   the report is not a function of (program, configuration): it accumulates over parses
* `applyWrites_comm`, `target_order_irrelevant`   generating targets in any order leaves the same files, when different targets write
                                    different paths
-/
namespace Pydjinni.SysC
open Pydjinni.GenC

/-! ### sorting -/

theorem leL_total (a b : List Char) : leL a b = true ∨ leL b a = true := by
  induction a generalizing b with
  | nil => simp [leL]
  | cons x xs ih =>
    cases b with
    | nil => simp [leL]
    | cons y ys =>
      simp only [leL]
      by_cases h1 : x.toNat < y.toNat
      · simp [h1]
      · by_cases h2 : y.toNat < x.toNat
        · simp [h1, h2]
        · simp [h1, h2]; exact ih ys

theorem leL_refl (a : List Char) : leL a a = true := by
  rcases leL_total a a with h | h <;> exact h

theorem char_eq_of_toNat {x y : Char} (h1 : ¬ x.toNat < y.toNat) (h2 : ¬ y.toNat < x.toNat) : x = y := by
  have : x.toNat = y.toNat := by omega
  exact Char.toNat_inj.mp this

theorem leL_antisymm (a b : List Char) (h1 : leL a b = true) (h2 : leL b a = true) : a = b := by
  induction a generalizing b with
  | nil => cases b with
    | nil => rfl
    | cons y ys => simp [leL] at h2
  | cons x xs ih =>
    cases b with
    | nil => simp [leL] at h1
    | cons y ys =>
      simp only [leL] at h1 h2
      by_cases hxy : x.toNat < y.toNat
      · have : ¬ y.toNat < x.toNat := by omega
        simp [hxy, this] at h2
      · by_cases hyx : y.toNat < x.toNat
        · simp [hxy, hyx] at h1
        · simp [hxy, hyx] at h1 h2
          rw [char_eq_of_toNat hxy hyx, ih ys h1 h2]

theorem leL_trans (a b c : List Char) (h1 : leL a b = true) (h2 : leL b c = true) : leL a c = true := by
  induction a generalizing b c with
  | nil => simp [leL]
  | cons x xs ih =>
    cases b with
    | nil => simp [leL] at h1
    | cons y ys =>
      cases c with
      | nil => simp [leL] at h2
      | cons z zs =>
        simp only [leL] at h1 h2 ⊢
        by_cases hxy : x.toNat < y.toNat
        · by_cases hyz : y.toNat < z.toNat
          · have : x.toNat < z.toNat := by omega
            simp [this]
          · by_cases hzy : z.toNat < y.toNat
            · simp [hyz, hzy] at h2
            · have : x.toNat < z.toNat := by omega
              simp [this]
        · by_cases hyx : y.toNat < x.toNat
          · simp [hxy, hyx] at h1
          · simp [hxy, hyx] at h1
            by_cases hyz : y.toNat < z.toNat
            · have : x.toNat < z.toNat := by omega
              simp [this]
            · by_cases hzy : z.toNat < y.toNat
              · simp [hyz, hzy] at h2
              · simp [hyz, hzy] at h2
                have e1 : ¬ x.toNat < z.toNat := by omega
                have e2 : ¬ z.toNat < x.toNat := by omega
                simp [e1, e2]
                exact ih ys zs h1 h2

variable {α : Type}

theorem insertBy_perm (le : α → α → Bool) (a : α) (l : List α) : (insertBy le a l).Perm (a :: l) := by
  induction l with
  | nil => simp [insertBy]
  | cons b bs ih =>
    unfold insertBy
    split
    · exact List.Perm.refl _
    · exact (List.Perm.cons b ih).trans (List.Perm.swap a b bs)

theorem isort_perm (le : α → α → Bool) (l : List α) : (isort le l).Perm l := by
  induction l with
  | nil => simp [isort]
  | cons a as ih => exact (insertBy_perm le a _).trans (List.Perm.cons a ih)

theorem insertBy_sorted (le : α → α → Bool)
    (total : ∀ a b, le a b = true ∨ le b a = true) (trans : ∀ a b c, le a b = true → le b c = true → le a c = true)
    (a : α) (l : List α) (h : l.Pairwise (fun x y => le x y = true)) :
    (insertBy le a l).Pairwise (fun x y => le x y = true) := by
  induction l with
  | nil => simp [insertBy]
  | cons b bs ih =>
    unfold insertBy
    have hb := List.pairwise_cons.mp h
    split
    · rename_i hab
      refine List.pairwise_cons.mpr ⟨?_, h⟩
      intro y hy
      rcases List.mem_cons.mp hy with rfl | hy'
      · exact hab
      · exact trans _ _ _ hab (hb.1 y hy')
    · rename_i hab
      have hba : le b a = true := by
        rcases total a b with h1 | h1
        · exact absurd h1 hab
        · exact h1
      refine List.pairwise_cons.mpr ⟨?_, ih hb.2⟩
      intro y hy
      have : y ∈ a :: bs := (insertBy_perm le a bs).subset hy
      rcases List.mem_cons.mp this with rfl | hy'
      · exact hba
      · exact hb.1 y hy'

theorem isort_sorted (le : α → α → Bool)
    (total : ∀ a b, le a b = true ∨ le b a = true) (trans : ∀ a b c, le a b = true → le b c = true → le a c = true)
    (l : List α) : (isort le l).Pairwise (fun x y => le x y = true) := by
  induction l with
  | nil => simp [isort]
  | cons a as ih => exact insertBy_sorted le total trans a _ ih

/-- Sorting by an antisymmetric total order gives the same list for every arrangement of the input. -/
theorem isort_eq_of_perm (le : α → α → Bool)
    (total : ∀ a b, le a b = true ∨ le b a = true) (trans : ∀ a b c, le a b = true → le b c = true → le a c = true)
    (antisymm : ∀ a b, le a b = true → le b a = true → a = b)
    (l₁ l₂ : List α) (h : l₁.Perm l₂) : isort le l₁ = isort le l₂ := by
  apply List.Perm.eq_of_pairwise (le := fun x y => le x y = true)
  · intro a b _ _ h1 h2; exact antisymm a b h1 h2
  · exact isort_sorted le total trans l₁
  · exact isort_sorted le total trans l₂
  · exact (isort_perm le l₁).trans (h.trans (isort_perm le l₂).symm)

theorem leExact_total (a b : String) : leExact a b = true ∨ leExact b a = true := leL_total _ _
theorem leExact_trans (a b c : String) : leExact a b = true → leExact b c = true → leExact a c = true := leL_trans _ _ _
theorem leExact_antisymm (a b : String) (h1 : leExact a b = true) (h2 : leExact b a = true) : a = b :=
  String.toList_inj.mp (leL_antisymm _ _ h1 h2)

/-- `| sort(case_sensitive=true) | sort` is a function of the *set*. -/
theorem jinjaSortTotal_perm (l₁ l₂ : List String) (h : l₁.Perm l₂) : jinjaSortTotal l₁ = jinjaSortTotal l₂ := by
  unfold jinjaSortTotal
  rw [isort_eq_of_perm leExact leExact_total leExact_trans leExact_antisymm l₁ l₂ h]

/-- **Set order is irrelevant**: a template loop that iterates `set | sort(case_sensitive=true) [| sort]`
    renders the same text whatever order the hash seed gives the set (two duplicate-free lists with the same members). -/
theorem set_order_irrelevant (k : SortKind) (hk : k.orderFree = true) (render : List String → String) (s₁ s₂ : List String)
    (h₁ : s₁.Nodup) (h₂ : s₂.Nodup) (hmem : ∀ x, x ∈ s₁ ↔ x ∈ s₂) :
    emitLoop k render s₁ = emitLoop k render s₂ := by
  have hp : s₁.Perm s₂ := (List.perm_ext_iff_of_nodup h₁ h₂).mpr hmem
  cases k <;> simp [SortKind.orderFree] at hk
  · simp [emitLoop, applySort, isort_eq_of_perm leExact leExact_total leExact_trans leExact_antisymm s₁ s₂ hp]
  · simp [emitLoop, applySort, jinjaSortTotal_perm s₁ s₂ hp]

/-- What the pinned tree did: `| sort` alone is case-insensitive and stable, so two headers that differ only in
    letter case come out in the iteration order of the set — bytes depend on `PYTHONHASHSEED`. -/
theorem legacy_sort_leaks_order :
    emitLoop .legacy (String.intercalate "\n") ["\"Foo.hpp\"", "\"foo.hpp\""]
      ≠ emitLoop .legacy (String.intercalate "\n") ["\"foo.hpp\"", "\"Foo.hpp\""] := by decide +kernel

example : emitLoop .total (String.intercalate "\n") ["\"Foo.hpp\"", "\"foo.hpp\""]
    = emitLoop .total (String.intercalate "\n") ["\"foo.hpp\"", "\"Foo.hpp\""] := by decide +kernel

/-- From the generated obligation to every set-typed loop of every template. -/
theorem sorted_loops_order_irrelevant (facts : List LoopFact) (h : allSetLoopsSorted facts = true)
    (f : LoopFact) (hf : f ∈ facts) (hset : f.overSet = true)
    (render : List String → String) (s₁ s₂ : List String) (h₁ : s₁.Nodup) (h₂ : s₂.Nodup) (hmem : ∀ x, x ∈ s₁ ↔ x ∈ s₂) :
    emitLoop (sortKind f.filters) render s₁ = emitLoop (sortKind f.filters) render s₂ := by
  have hok : loopOk f = true := by
    simp only [allSetLoopsSorted, List.all_eq_true] at h
    exact h f hf
  have hk : (sortKind f.filters).orderFree = true := by simpa [loopOk, hset] using hok
  exact set_order_irrelevant _ hk render s₁ s₂ h₁ h₂ hmem

/-! ### the target list of a declaration is a function of the flags as written -/

theorem addIncl_plus_fresh (acc ts : List String) (hnd : ts.Nodup) (hdis : ∀ t ∈ ts, t ∉ acc) :
    addIncl acc (ts.map TFlag.plus) = acc ++ ts := by
  induction ts generalizing acc with
  | nil => simp [addIncl]
  | cons t ts ih =>
    have ht : acc.contains t = false := by
      simpa using hdis t (by simp)
    simp only [List.map_cons, addIncl, ht]
    rw [ih (acc ++ [t]) (List.nodup_cons.mp hnd).2]
    · simp
    · intro x hx hmem
      rcases List.mem_append.mp hmem with h | h
      · exact hdis x (by simp [hx]) h
      · have : x = t := by simpa using h
        subst this
        exact (List.nodup_cons.mp hnd).1 hx

theorem exclOf_plus (ts : List String) : exclOf (ts.map TFlag.plus) = [] := by
  induction ts with
  | nil => rfl
  | cons t ts ih => simpa [exclOf] using ih

theorem hasAny_plus (ts : List String) : hasAny (ts.map TFlag.plus) = false := by
  induction ts with
  | nil => rfl
  | cons t ts ih => simpa [hasAny] using ih

/-- **`function +a +b +c (…)`: the targets in the order they are written** — whatever the names are, whatever the
    registry order is. This list goes into the synthetic name. -/
theorem evalFlags_plus_written_order (keys ts : List String) (hnd : ts.Nodup) :
    evalFlags keys (ts.map TFlag.plus) = ts := by
  have h := addIncl_plus_fresh [] ts hnd (by simp)
  simp [evalFlags, inclOf, exclOf_plus, hasAny_plus, h]

theorem addIncl_minus (acc ts : List String) : addIncl acc (ts.map TFlag.minus) = acc := by
  induction ts generalizing acc with
  | nil => rfl
  | cons t ts ih => simpa [addIncl] using ih acc

theorem exclOf_minus (ts : List String) : exclOf (ts.map TFlag.minus) = ts := by
  induction ts with
  | nil => rfl
  | cons t ts ih => simp [exclOf, ih]

theorem hasAny_minus (ts : List String) : hasAny (ts.map TFlag.minus) = false := by
  induction ts with
  | nil => rfl
  | cons t ts ih => simpa [hasAny] using ih

/-- **`function -x -y (…)`: the registry order without the excluded targets.** -/
theorem evalFlags_minus_registry_order (keys xs : List String) (hne : xs ≠ []) :
    evalFlags keys (xs.map TFlag.minus) = keys.filter (fun k => !xs.contains k) := by
  have hx : xs.isEmpty = false := by cases xs <;> simp_all
  simp [evalFlags, inclOf, addIncl_minus, exclOf_minus, hasAny_minus, hx]

/-- in every case the result keeps the order of the include list (no reordering step exists) -/
theorem evalFlags_sublist (keys : List String) (flags : List TFlag) : (evalFlags keys flags).Sublist (inclOf keys flags) :=
  List.filter_sublist

/-- Taking the same elements out of a set leaks the set's iteration order into the synthetic name: two enumerations of
    the same target names, one declaration `function +java +cpp (…)`, two different names. -/
theorem targets_bySet_leak_order :
    ∃ (it₁ it₂ : List String), it₁.Perm it₂ ∧
      anonHead (evalFlagsBySet it₁ ["cpp", "cppcli", "java", "objc", "yaml"] [.plus "java", .plus "cpp"])
        ≠ anonHead (evalFlagsBySet it₂ ["cpp", "cppcli", "java", "objc", "yaml"] [.plus "java", .plus "cpp"]) :=
  ⟨["java", "cpp", "objc"], ["cpp", "objc", "java"], by decide, by decide⟩

example : evalFlags ["cpp", "cppcli", "java", "objc", "yaml"] [.plus "java", .plus "cpp", .plus "java"] = ["java", "cpp"] := by decide
example : evalFlags ["cpp", "cppcli", "java", "objc", "yaml"] [.minus "objc"] = ["cpp", "cppcli", "java", "yaml"] := by decide
example : evalFlags ["cpp", "cppcli", "java", "objc", "yaml"] [.any, .minus "yaml", .plus "cpp"] = ["cpp", "cppcli", "java", "objc"] := by decide
example : evalFlags ["cpp", "cppcli", "java", "objc", "yaml"] [.plus "zig", .plus "cpp", .plus "rust"] = ["zig", "cpp", "rust"] := by decide

/-! ### configured targets and the refusal of an incomplete configuration -/

theorem contains_perm (l₁ l₂ : List String) (h : l₁.Perm l₂) (k : String) : l₁.contains k = l₂.contains k := by
  rw [Bool.eq_iff_iff]
  simp only [List.contains_iff_mem]
  exact h.mem_iff

/-- The list of configured targets does not depend on the iteration order of `model_fields_set`. -/
theorem configuredTargets_perm (registry : List T) (l₁ l₂ : List String) (h : l₁.Perm l₂) :
    configuredTargets registry l₁ = configuredTargets registry l₂ := by
  unfold configuredTargets
  exact List.filter_congr (fun t _ => contains_perm l₁ l₂ h t.key)

/-- **Same refusal under every hash seed**: which "Missing configuration for 'generate.<g>' (required by target '<t>')"
    an incompletely configured `generate` section gets is a function of the *set* of keys present. -/
theorem refusal_set_order_irrelevant (registry : List T) (l₁ l₂ : List String) (h : l₁.Perm l₂) :
    refusal (fun g => l₁.contains g.key) (configuredTargets registry l₁)
      = refusal (fun g => l₂.contains g.key) (configuredTargets registry l₂) := by
  rw [configuredTargets_perm registry l₁ l₂ h]
  have : (fun g : G => l₁.contains g.key) = (fun g : G => l₂.contains g.key) :=
    funext (fun g => contains_perm l₁ l₂ h g.key)
  rw [this]

/-- Walking the set instead of the registry leaks its iteration order into the diagnostic: `java` without `jni` and
    `objc` without `objcpp` — the refusal names whichever comes first in the set. -/
theorem bySet_leaks_order :
    refusal (fun g => ["cpp", "java", "objc"].contains g.key) (configuredTargetsBySet T.all ["cpp", "java", "objc"])
      ≠ refusal (fun g => ["objc", "cpp", "java"].contains g.key) (configuredTargetsBySet T.all ["objc", "cpp", "java"]) := by
  decide

example : refusal (fun g => ["objc", "cpp", "java"].contains g.key) (configuredTargets T.all ["objc", "cpp", "java"])
    = some (.java, .jni) := by decide

theorem refusal_none_iff (has : G → Bool) (ts : List T) :
    refusal has ts = none ↔ ∀ t ∈ ts, ∀ g ∈ t.generators, has g = true := by
  induction ts with
  | nil => simp [refusal]
  | cons t ts ih =>
    unfold refusal
    cases hm : missingGen has t with
    | some g =>
      simp only [reduceCtorEq, false_iff]
      intro hall
      unfold missingGen at hm
      have hg := List.find?_some hm
      have hmem := List.mem_of_find?_eq_some hm
      have := hall t (by simp) g hmem
      simp [this] at hg
    | none =>
      simp only [ih]
      unfold missingGen at hm
      rw [List.find?_eq_none] at hm
      constructor
      · intro h t' ht' g hg
        rcases List.mem_cons.mp ht' with rfl | ht'
        · have := hm g hg; simpa using this
        · exact h t' ht' g hg
      · intro h t' ht' g hg
        exact h t' (List.mem_cons_of_mem _ ht') g hg

/-- the state machine's `wellConfigured` (a parse that is not refused) is exactly "no refusal" -/
theorem wellConfigured_iff_no_refusal (c : Cfg) :
    c.wellConfigured = true ↔ refusal (fun g => (c.gens g).isSome) c.targets = none := by
  rw [refusal_none_iff]
  simp [Cfg.wellConfigured, Cfg.generators, List.all_eq_true]

/-! ### histories -/

theorem generateGens_genCfg (w : World) (gc : GenCtx) (tgs gs : List G) (s : ApiState) (acc : List (Path × ContentId)) :
    (generateGens w gc tgs gs s acc).1.genCfg = s.genCfg ∧ (generateGens w gc tgs gs s acc).1.results = s.results := by
  induction gs generalizing s acc with
  | nil => simp [generateGens]
  | cons g gs ih =>
    unfold generateGens
    cases h1 : s.genCfg g with
    | none => simp
    | some cc =>
      cases h2 : gc.mcfg g with
      | none => simp
      | some cm => simpa using ih _ _

theorem digestOn_congr (gs : List G) (f f' : G → Option GCfg) (h : ∀ g ∈ gs, f g = f' g) : digestOn gs f = digestOn gs f' := by
  unfold digestOn
  congr 1
  exact List.map_congr_left (fun g hg => by rw [h g hg])

/-- A generate call reads nothing of the API state but the configurations of the generators of its target. -/
theorem generateGens_state_irrelevant (w : World) (gc : GenCtx) (tgs gs : List G) (s s' : ApiState) (acc : List (Path × ContentId))
    (hsub : ∀ g ∈ gs, g ∈ tgs) (h : ∀ g ∈ tgs, s.genCfg g = s'.genCfg g) :
    (generateGens w gc tgs gs s acc).2 = (generateGens w gc tgs gs s' acc).2 := by
  induction gs generalizing s s' acc with
  | nil => simp [generateGens]
  | cons g gs ih =>
    unfold generateGens
    rw [← h g (hsub g (by simp)), digestOn_congr tgs s'.genCfg s.genCfg (fun x hx => (h x hx).symm)]
    cases h1 : s.genCfg g with
    | none => simp
    | some cc =>
      cases h2 : gc.mcfg g with
      | none => simp
      | some cm => exact ih _ _ _ (fun x hx => hsub x (by simp [hx])) (by simpa using h)

/-- **History-free**: whatever state the API object is in — any contexts configured, any programs parsed, anything
    generated or reported before — generating target `t` for the result of parsing `p` under configuration `c`
    produces exactly the files (paths and everything their bytes depend on) of a fresh process, or the same refusal. -/
theorem generate_history_free (w : World) (s : ApiState) (c : Cfg) (p : Prog) (t : T) :
    (generate w s (ctxOf c p) t).2 = fresh w c p t := by
  unfold generate fresh
  by_cases ht : t ∈ c.targets
  · have ht' : t ∈ (ctxOf c p).targets := ht
    simp only [List.contains_iff_mem, ht, ht', if_true]
    apply generateGens_state_irrelevant w (ctxOf c p) t.generators t.generators _ _ [] (fun g hg => hg)
    intro g hg
    simp [hg, ctxOf]
  · have ht' : ¬ t ∈ (ctxOf c p).targets := ht
    simp only [List.contains_iff_mem, ht, ht', if_false]

/-- every parse result of a reachable state is the context of one of the world's configurations and programs -/
def fromWorld (w : World) (s : ApiState) : Prop :=
  ∀ gc ∈ s.results, ∃ c ∈ w.cfgs, ∃ p ∈ w.progs, gc = ctxOf c p

theorem generate_results (w : World) (s : ApiState) (gc : GenCtx) (t : T) : (generate w s gc t).1.results = s.results := by
  unfold generate
  split
  · exact (generateGens_genCfg w gc t.generators t.generators _ []).2
  · rfl

theorem step_fromWorld (w : World) (s : ApiState) (call : Call) (hs : fromWorld w s) : fromWorld w (step w s call).1 := by
  cases call with
  | parse i j =>
    cases hi : w.cfgs[i]? with
    | none => simp only [step, hi]; exact hs
    | some c =>
      cases hj : w.progs[j]? with
      | none => simp only [step, hi, hj]; exact hs
      | some p =>
        simp only [step, hi, hj]
        split
        · split
          · intro gc hgc
            simp only [List.mem_append, List.mem_singleton] at hgc
            rcases hgc with h | rfl
            · exact hs gc h
            · exact ⟨c, List.mem_of_getElem? hi, p, List.mem_of_getElem? hj, rfl⟩
          · exact hs
        · exact hs
  | generate k t =>
    cases hk : s.results[k]? with
    | none => simp only [step, hk]; exact hs
    | some gc =>
      simp only [step, hk]
      intro g hg
      rw [generate_results] at hg
      exact hs g hg
  | report k =>
    cases hk : s.results[k]? with
    | none => simp only [step, hk]; exact hs
    | some gc =>
      cases hr : gc.report with
      | none => simp only [step, hk, hr]; exact hs
      | some p => simp only [step, hk, hr]; exact hs

theorem runCalls_fromWorld (w : World) (h : List Call) (s : ApiState) (hs : fromWorld w s) : fromWorld w (runCalls w s h).1 := by
  induction h generalizing s with
  | nil => simpa [runCalls] using hs
  | cons call rest ih =>
    simp only [runCalls]
    exact ih _ (step_fromWorld w s call hs)

/-- … in particular along every call history of one API object: the `k`-th parse result is the context of some
    configuration and program of the world, and a generate call for it equals the fresh-process result for exactly those. -/
theorem generate_history_free_run (w : World) (h : List Call) (k : Nat) (t : T) (gc : GenCtx)
    (hk : (runCalls w initState h).1.results[k]? = some gc) :
    ∃ c ∈ w.cfgs, ∃ p ∈ w.progs, gc = ctxOf c p ∧
      (step w (runCalls w initState h).1 (.generate k t)).2 = fresh w c p t := by
  have hw := runCalls_fromWorld w h initState (by simp [fromWorld, initState])
  obtain ⟨c, hc, p, hp, rfl⟩ := hw gc (List.mem_of_getElem? hk)
  refine ⟨c, hc, p, hp, rfl, ?_⟩
  simp only [step, hk]
  exact generate_history_free w _ c p t

/-- A parse that the front end refuses leaves no result behind: the parse results of the API object are the same as
    before (so the `k`-th result and everything generated from it are untouched by refused parses in between —
    `generate_history_free_run` quantifies over histories that contain them). -/
theorem rejected_parse_keeps_results (w : World) (s : ApiState) (i j : Nat) (h : (step w s (.parse i j)).2 = .rejected) :
    (step w s (.parse i j)).1.results = s.results := by
  cases hi : w.cfgs[i]? with
  | none => simp [step, hi] at h
  | some c =>
    cases hj : w.progs[j]? with
    | none => simp [step, hi, hj] at h
    | some p =>
      simp only [step, hi, hj] at h ⊢
      split
      · split
        · rename_i h1 h2; simp [h1, h2] at h
        · rfl
      · rfl

/-! ### what is on disk afterwards

`FileReaderWriter._write` is an unconditional `write_text`: the bytes of a written path are those of this call, whatever
the path held before — the output of an earlier run for an *edited* IDL file (same declarations in another order: same
file names, same sizes), of another program, of another context with the same output directory. -/

def Outcome.written : Outcome → List (Path × ContentId)
  | .wrote fs => fs
  | .missingConfig fs => fs
  | .crash fs => fs
  | _ => []

/-- a written path forgets what the disk held before -/
theorem written_paths_forget_disk {κ : Type} (m m' : FMap κ) (ws : List (Path × κ)) (p : Path) (hp : p ∈ ws.map (·.1)) :
    applyWrites m ws p = applyWrites m' ws p := by
  induction ws generalizing m m' with
  | nil => simp at hp
  | cons w ws ih =>
    have e1 : applyWrites m (w :: ws) = applyWrites (fun q => if q = w.1 then some w.2 else m q) ws := rfl
    have e2 : applyWrites m' (w :: ws) = applyWrites (fun q => if q = w.1 then some w.2 else m' q) ws := rfl
    rw [e1, e2]
    by_cases h : p ∈ ws.map (·.1)
    · exact ih _ _ h
    · have hpw : p = w.1 := by
        simp only [List.map_cons, List.mem_cons] at hp
        rcases hp with hp | hp
        · exact hp
        · exact absurd hp h
      have aux : ∀ (m : FMap κ), applyWrites m ws p = m p := by
        intro m
        have : ∀ (ws : List (Path × κ)) (m : FMap κ), p ∉ ws.map (·.1) → applyWrites m ws p = m p := by
          intro ws
          induction ws with
          | nil => intro m _; rfl
          | cons v vs ihv =>
            intro m hv
            have e : applyWrites m (v :: vs) = applyWrites (fun q => if q = v.1 then some v.2 else m q) vs := rfl
            simp only [List.map_cons, List.mem_cons, not_or] at hv
            rw [e, ihv _ hv.2]
            simp [hv.1]
        exact this ws m h
      rw [aux, aux]
      simp [hpw]

/-- **History-free on disk**: from any state of the API object *and any content of the output directories* (`disk`),
    every path that `generate` writes for the result of parsing `p` under `c` holds afterwards exactly what it holds
    after a fresh process generated into empty directories. -/
theorem generate_disk_history_free (w : World) (s : ApiState) (c : Cfg) (p : Prog) (t : T) (disk : FMap ContentId)
    (path : Path) (hp : path ∈ (fresh w c p t).written.map (·.1)) :
    applyWrites disk (generate w s (ctxOf c p) t).2.written path = applyWrites (fun _ => none) (fresh w c p t).written path := by
  rw [generate_history_free]
  exact written_paths_forget_disk _ _ _ _ hp

/-- A writer that skips files whose fingerprint (here: the length of the content) is unchanged keeps the stale content
    of an earlier run — the regenerated tree then depends on what was generated before. -/
theorem fingerprint_skip_keeps_stale_content :
    applyWritesSkipping String.length (applyWrites (fun _ => none) [(Path.rel ["e.hpp"], "LOW = 0, TOP = 1")])
        [(Path.rel ["e.hpp"], "TOP = 0, LOW = 1")] (Path.rel ["e.hpp"])
      ≠ applyWrites (fun _ => none) [(Path.rel ["e.hpp"], "TOP = 0, LOW = 1")] (Path.rel ["e.hpp"]) := by
  decide

/-! counterexamples: the pinned tree's `generate` with two configured contexts of one API object; the report -/

def cfgA : Cfg := { gens := fun g => if g = .cpp then some { out := .one (.rel ["outA"]), content := "A" } else none }
def cfgB : Cfg := { gens := fun g => if g = .cpp then some { out := .one (.rel ["outB"]), content := "B", headerExt := "hh" } else none }
def progP : Prog := { id := "P", reads := [.rel ["p.pydjinni"]], exts := [], defs := [{ name := "x", kind := .enum }] }
def progQ : Prog := { id := "Q", reads := [.rel ["q.pydjinni"]], exts := [], defs := [{ name := "y", kind := .enum }] }
def world2 : World := { cfgs := [cfgA, cfgB], progs := [progP, progQ], support := fun _ => [] }

/-- The defect of the pinned tree (repaired): generator configurations belong to the API object, not to the context —
    after `B.parse`, generating the result of `A.parse` wrote below B's output directory with B's switches. -/
theorem config_leak_counterexample :
    (generateLegacy world2 (runCalls world2 initState [.parse 0 0, .parse 1 1]).1 (ctxOf cfgA progP) .cpp).2
      ≠ fresh world2 cfgA progP .cpp := by
  decide +kernel

example : (step world2 (runCalls world2 initState [.parse 0 0, .parse 1 1, .generate 1 .cpp]).1 (.generate 0 .cpp)).2
    = fresh world2 cfgA progP .cpp := by decide +kernel

/-- The report accumulates (known finding): after parsing P and then Q with one API object, Q's report lists P's input as well. -/
theorem report_accumulates_counterexample :
    (runCalls world2 initState [.parse 0 0, .parse 0 1]).1.frw.report.idl ≠ (runCalls world2 initState [.parse 0 1]).1.frw.report.idl := by
  decide +kernel

/-- the hypotheses of `generate_disk_history_free` are satisfiable: a regenerate after another program writes something,
    and a refused parse in between changes nothing -/
example : (generate world2 (runCalls world2 initState [.parse 0 0, .generate 0 .cpp, .parse 0 1]).1 (ctxOf cfgA progQ) .cpp).2.written ≠ [] := by
  decide +kernel

def progBad : Prog := { id := "R", reads := [.rel ["r.pydjinni"]], exts := [], defs := [], accepted := false }
def world3 : World := { world2 with progs := [progP, progQ, progBad] }

example : (step world3 (runCalls world3 initState [.parse 0 0]).1 (.parse 1 2)).2 = .rejected := by decide +kernel
example : (step world3 (runCalls world3 initState [.parse 0 0, .parse 1 2]).1 (.generate 0 .cpp)).2 = fresh world3 cfgA progP .cpp := by
  decide +kernel

/-! ### target order -/

variable {κ : Type}

theorem applyWrites_append (m : FMap κ) (a b : List (Path × κ)) : applyWrites m (a ++ b) = applyWrites (applyWrites m a) b := by
  simp [applyWrites, List.foldl_append]

theorem applyWrites_apply (m : FMap κ) (ws : List (Path × κ)) (p : Path) :
    applyWrites m ws p = if p ∈ ws.map (·.1) then applyWrites (fun _ => none) ws p else m p := by
  induction ws generalizing m with
  | nil => simp [applyWrites]
  | cons w ws ih =>
    have e1 : applyWrites m (w :: ws) = applyWrites (fun q => if q = w.1 then some w.2 else m q) ws := rfl
    have e2 : applyWrites (fun _ => none) (w :: ws) = applyWrites (fun q => if q = w.1 then some w.2 else none) ws := rfl
    rw [e1, e2, ih, ih (fun q => if q = w.1 then some w.2 else none)]
    by_cases h1 : p ∈ ws.map (·.1)
    · simp [h1]
    · by_cases h2 : p = w.1
      · simp [h2]
      · simp [h1, h2]

/-- writes to disjoint sets of paths commute -/
theorem applyWrites_comm (m : FMap κ) (a b : List (Path × κ)) (hd : ∀ x ∈ a, ∀ y ∈ b, x.1 ≠ y.1) :
    applyWrites (applyWrites m a) b = applyWrites (applyWrites m b) a := by
  funext p
  rw [applyWrites_apply (applyWrites m a) b, applyWrites_apply (applyWrites m b) a, applyWrites_apply m a, applyWrites_apply m b]
  by_cases ha : p ∈ a.map (·.1) <;> by_cases hb : p ∈ b.map (·.1) <;> simp [ha, hb]
  obtain ⟨x, hx, rfl⟩ := List.mem_map.mp ha
  obtain ⟨y, hy, hxy⟩ := List.mem_map.mp hb
  exact absurd hxy.symm (hd x hx y hy)

/-- **Target order is irrelevant**: if different targets write different paths (their generators have disjoint output
    directories, C14), generating the targets in any order — or one at a time — leaves the same files with the same contents.
    (`outs t` does not depend on the order: `generateGens_state_irrelevant`, `generateGens_genCfg`.) -/
theorem target_order_irrelevant (outs : T → List (Path × κ)) (ts ts' : List T) (hp : ts.Perm ts')
    (hd : ∀ t ∈ ts, ∀ t' ∈ ts, t ≠ t' → ∀ x ∈ outs t, ∀ y ∈ outs t', x.1 ≠ y.1) (m : FMap κ) :
    applyWrites m (ts.flatMap outs) = applyWrites m (ts'.flatMap outs) := by
  induction hp generalizing m with
  | nil => rfl
  | cons t _ ih =>
    simp only [List.flatMap_cons, applyWrites_append]
    exact ih (fun a ha b hb => hd a (by simp [ha]) b (by simp [hb])) _
  | swap a b l =>
    simp only [List.flatMap_cons, applyWrites_append]
    by_cases hab : a = b
    · subst hab; rfl
    · rw [applyWrites_comm m (outs b) (outs a) (hd b (by simp) a (by simp) (fun e => hab e.symm))]
  | trans h₁ _ ih₁ ih₂ =>
    rw [ih₁ hd m]
    exact ih₂ (fun a ha b hb => hd a (h₁.symm.subset ha) b (h₁.symm.subset hb)) m

end Pydjinni.SysC
