import PydjinniModel.Props.C04
import PydjinniModel.Props.C05
/-!
# C05/C04 — one file's diagnostics, end to end

`finishFile_spec` composes the pieces proved in `Props/C04.lean` and `Props/C05.lean` for what
`Parser.parse()` does with a file's own content (after its loads): with all of the file's declarations
registered, references at pairwise distinct positions and nothing bound yet,

* the call succeeds (no duplicate abort, no internal error),
* **every reference of the file is bound to what lexical scoping denotes in the registry that contains all
  the file's declarations** (forward references and shadowing included), and
* the reported diagnostics are exactly: the visit-time diagnostics, the reference-level diagnostics of every
  reference (unknown type / generic arity), and the rule violations of every declaration, named or inline —
  nothing is dropped, nothing else is added.
-/
namespace Pydjinni.Front

theorem finishFile_spec (cfg : Cfg) (file : APath) (contents : List Content) (st : PState) (reg : Registry)
    (hres : st.resolved = [])
    (hreg : registerAll st.reg (walkContents { file := showPath file, keys := cfg.keys, defaultDeriving := cfg.defaultDeriving } [] contents).regs = .ok reg)
    (hnd : ((walkContents { file := showPath file, keys := cfg.keys, defaultDeriving := cfg.defaultDeriving } [] contents).refs.map
              (fun r => (r.file, r.pos))).Nodup) :
    let c := walkContents { file := showPath file, keys := cfg.keys, defaultDeriving := cfg.defaultDeriving } [] contents
    ∃ m ds, finishFile cfg file contents {} st
        = .ok ({ units := c.units, refs := c.refs, errors := ds }, { st with reg := reg, resolved := m })
      ∧ (∀ r ∈ c.refs, m.get r.file r.pos = lexicalLookup reg r.ns r.name)
      ∧ (∀ d, d ∈ ds ↔ d ∈ c.diags ∨ (∃ r ∈ c.refs, d ∈ refDiags reg r) ∨ ∃ u ∈ c.units, UnitViolation m u d) := by
  intro c
  have hfresh : ∀ r ∈ c.refs, Resolved.get ([] : Resolved) r.file r.pos = none := by
    intro r _; rfl
  obtain ⟨m, hloop, hbind, _⟩ := resolveLoop_spec reg c.refs [] [] hnd hfresh
  obtain ⟨cd, hcheck⟩ := checkUnits_total m c.units
  refine ⟨m, c.diags ++ c.refs.flatMap (refDiags reg) ++ cd, ?_, hbind, ?_⟩
  · unfold finishFile
    simp only [hreg, hres]
    show (match resolveLoop reg ([], []) c.refs with
      | .error site => Except.error (Abort.crash site)
      | .ok (resolved, rdiags) =>
        match checkUnits resolved c.units with
        | .error site => Except.error (Abort.crash site)
        | .ok cdiags => _) = _
    rw [hloop]
    simp only [List.nil_append]
    rw [hcheck]
  · intro d
    simp only [List.mem_append, List.mem_flatMap]
    rw [mem_checkUnits_iff m c.units cd hcheck d]
    constructor
    · rintro ((h | ⟨r, hr, hd⟩) | h)
      · exact Or.inl h
      · exact Or.inr (Or.inl ⟨r, hr, hd⟩)
      · exact Or.inr (Or.inr h)
    · rintro (h | ⟨r, hr, hd⟩ | h)
      · exact Or.inl (Or.inl h)
      · exact Or.inl (Or.inr ⟨r, hr, hd⟩)
      · exact Or.inr h

/-- For a program of one file the per-file reading of the rules (`violationsOrdered`, each file against the
    declarations of the files finished no later than itself) is the whole-program reading (`violations`). -/
theorem violationsOrdered_single (keys dd : List String) (pre : Registry) (f : ProgFile) :
    violationsOrdered keys dd pre [f] = violations keys dd pre [f] := by
  simp [violationsOrdered, violationsFrom, violations, regUpTo]

/-- The last file of a program (the root: it is finished after everything it imports) is read against the
    declarations of the whole program. -/
theorem regUpTo_last (pre : Registry) (p : List ProgFile) (f : ProgFile) :
    regUpTo pre (p ++ [f]) p.length = progRegistry pre (p ++ [f]) := by
  have h : List.take (p.length + 1) (p ++ [f]) = p ++ [f] := by
    apply List.take_of_length_le; simp
  simp [regUpTo, h]

end Pydjinni.Front
