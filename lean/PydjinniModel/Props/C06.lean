import PydjinniModel.Front.Imports
import PydjinniModel.Props.C05
/-!
# C06 — parsing any input terminates with an AST or positioned diagnostics only

* `resolveLoop_total`        the deferred resolution loop never fails internally (the `None` guard)
* `finishFile_no_crash`      registration, resolution and post-checks of one file never end in an internal error
* `parseOne_no_crash`        … nor does any nesting of imported files, for any fuel
* `front_no_crash`           **for every text, file system and configuration the front end never ends in an internal error**
* `front_outcome_classes`    the outcome is a result, a diagnostic list, file-not-found, a bare duplicate-type
                             diagnostic or "outside the grammar" (where the model predicts diagnostics only)
* `front_terminates`         see `PydjinniModel.Props.C16` (`parseOne_fuel_sufficient`): the fuel never runs out

Totality of the Lean definitions is termination of the model for every character sequence.
-/
namespace Pydjinni.Front

theorem resolveStep_total (reg : Registry) (st : Resolved × List Diag) (r : RefSite) :
    ∃ st', resolveStep reg st r = .ok st' := by
  obtain ⟨m, ds⟩ := st
  simp only [resolveStep]
  split
  · exact ⟨_, rfl⟩
  · split
    · exact ⟨_, rfl⟩
    · split
      · exact ⟨_, rfl⟩
      · split <;> exact ⟨_, rfl⟩

/-- The resolution loop never dereferences an unresolved reference. -/
theorem resolveLoop_total (reg : Registry) (st : Resolved × List Diag) (refs : List RefSite) :
    ∃ st', resolveLoop reg st refs = .ok st' := by
  induction refs generalizing st with
  | nil => exact ⟨st, rfl⟩
  | cons r rs ih =>
    obtain ⟨st1, h1⟩ := resolveStep_total reg st r
    obtain ⟨st2, h2⟩ := ih st1
    exact ⟨st2, by simp [resolveLoop, h1, h2, bind, Except.bind]⟩

theorem finishFile_no_crash (cfg : Cfg) (file : APath) (contents : List Content) (res : PResult) (st : PState) (site : String) :
    finishFile cfg file contents res st ≠ .error (.crash site) := by
  unfold finishFile
  simp only
  split
  · intro h; cases h
  · rename_i reg _
    obtain ⟨⟨m, rd⟩, h1⟩ := resolveLoop_total reg (st.resolved, [])
      (walkContents { file := showPath file, keys := cfg.keys, defaultDeriving := cfg.defaultDeriving } [] contents).refs
    rw [h1]
    simp only
    obtain ⟨cd, h2⟩ := checkUnits_total m
      (walkContents { file := showPath file, keys := cfg.keys, defaultDeriving := cfg.defaultDeriving } [] contents).units
    rw [h2]
    intro h; cases h

theorem finishFile_not_outOfFuel (cfg : Cfg) (file : APath) (contents : List Content) (res : PResult) (st : PState) :
    finishFile cfg file contents res st ≠ .error .outOfFuel := by
  unfold finishFile
  simp only
  split
  · intro h; cases h
  · rename_i reg _
    obtain ⟨⟨m, rd⟩, h1⟩ := resolveLoop_total reg (st.resolved, [])
      (walkContents { file := showPath file, keys := cfg.keys, defaultDeriving := cfg.defaultDeriving } [] contents).refs
    rw [h1]
    simp only
    obtain ⟨cd, h2⟩ := checkUnits_total m
      (walkContents { file := showPath file, keys := cfg.keys, defaultDeriving := cfg.defaultDeriving } [] contents).units
    rw [h2]
    intro h; cases h

theorem doLoads_no_crash (cfg : Cfg) (fs : FS) (rec : ParseFn)
    (hrec : ∀ s f sp st site, rec s f sp st ≠ .error (.crash site))
    (stack : List APath) (file spelled : APath) (loads : List LoadAt) (res : PResult) (st : PState) (site : String) :
    doLoads cfg fs rec stack file spelled loads res st ≠ .error (.crash site) := by
  induction loads generalizing res st with
  | nil => simp [doLoads]
  | cons l ls ih =>
    simp only [doLoads]
    split
    · exact ih _ _
    · split
      · exact ih _ _
      · split
        · split
          · exact ih _ _
          · split
            · exact ih _ _
            · split
              · rename_i a h
                intro hc
                cases hc
                exact hrec _ _ _ _ _ h
              · exact ih _ _
        · split
          · split
            · intro h; cases h
            · exact ih _ _
          · exact ih _ _
          · exact ih _ _

theorem parseOne_no_crash (cfg : Cfg) (fs : FS) (fuel : Nat) (stack : List APath) (file spelled : APath) (st : PState) (site : String) :
    parseOne cfg fs fuel stack file spelled st ≠ .error (.crash site) := by
  induction fuel generalizing stack file spelled st site with
  | zero => simp [parseOne]
  | succ n ih =>
    simp only [parseOne]
    split
    · split
      · intro h; cases h
      · split
        · intro h; cases h
        · split
          · rename_i a h
            intro hc; cases hc
            exact doLoads_no_crash cfg fs (parseOne cfg fs n) (fun s f sp st site => ih s f sp st site) _ _ _ _ _ _ _ h
          · exact finishFile_no_crash _ _ _ _ _ _
    · intro h; cases h
    · intro h; cases h

/-- **No internal error**: whatever the text of the root file and of every importable file, and
    whatever the configuration, the front end never ends in a crash. -/
theorem front_no_crash (cfg : Cfg) (fs : FS) (builtins : Registry) (root : APath) (site : String) :
    front cfg fs builtins root ≠ .abort (.crash site) := by
  unfold front
  split
  · rename_i a h
    intro hc
    cases hc
    exact parseOne_no_crash _ _ _ _ _ _ _ _ h
  · split <;> (intro h; cases h)

/-- The outcome classes of the front end. -/
inductive DocumentedOutcome : Outcome → Prop
  | ok : DocumentedOutcome .ok
  | diags (ds) : DocumentedOutcome (.diags ds)
  | raised (cls file pos) : DocumentedOutcome (.abort (.raised cls file pos))
  | fileNotFound (f) : DocumentedOutcome (.abort (.fileNotFound f))
  | outsideGrammar (f) : DocumentedOutcome (.abort (.syntax f))
  | outOfFuel : DocumentedOutcome (.abort .outOfFuel)

theorem front_outcome_classes (cfg : Cfg) (fs : FS) (builtins : Registry) (root : APath) :
    DocumentedOutcome (front cfg fs builtins root) := by
  have h := front_no_crash cfg fs builtins root
  cases hf : front cfg fs builtins root with
  | ok => exact .ok
  | diags ds => exact .diags ds
  | abort a =>
    cases a with
    | raised c f p => exact .raised c f p
    | fileNotFound f => exact .fileNotFound f
    | «syntax» f => exact .outsideGrammar f
    | crash s => exact absurd hf (h s)
    | outOfFuel => exact .outOfFuel

/-! Non-vacuity: the two shapes that crashed the pinned tree are diagnosed by the model. -/
def exFs (text : String) : FS := { files := [(["w", "m.djinni"], .idl text)] }
def exCfg : Cfg := { cwd := ["w"], includeDirs := [], keys := ["cpp", "cppcli", "java", "objc", "yaml"], defaultDeriving := [] }

example : (match front exCfg (exFs "r = record { a: foo<i32>; }") [{ key := "i32", prim := .primitive, arity := 0 }] ["w", "m.djinni"] with
    | .diags ds => ds.map (·.rule) | _ => []) = ["unknown-type"] := by decide +kernel
example : (match front exCfg (exFs "i = interface { m() throws nope; }") [] ["w", "m.djinni"] with
    | .diags ds => ds.map (·.rule) | _ => []) = ["unknown-type"] := by decide +kernel

end Pydjinni.Front
